/* mpicoll: plan interpreter for SMPI collectives (C29), RMA windows (C34) and replayable programs (C37).
 *
 * Usage (under smpirun/smpimain):  mpicoll <planfile>
 * The program draws nothing itself: every count, root, skew, value seed comes from the plan (text, see
 * /verif/lib/mpicollcommon.py for the writer).  No mutable global: it runs with smpi/privatization:OFF.
 * Output: one line per observation on stdout (all ranks share the process, each line is one printf).
 *
 *   coll mode   R <call> <rank> <nslots> <crc32> <sendmod> [v0 v1 ...]     recv allocation incl. guards
 *               T <call> <rank> <t_enter %a> <t_exit %a> <rc>
 *               S <call> <rank>   call entered          X <call> <rank>   wait of a non-blocking call entered
 *               K <rank> <signal> the rank that was running when a fatal signal arrived (all modes)
 *   rma mode    W <phase> <rank> v0 v1 ...                                 window snapshot after a sync
 *               G <phase> <rank> <opid> v0 v1 ...                          value fetched by a Get-type op
 *               E <phase> <rank> <opid> <rc>                                non-success return code
 *   replay mode F <rank> <t %a>                                            date just before MPI_Finalize
 *               A <rank> <op index> <t %a>                                 completion date of each op
 */
#include <mpi.h>
#include <stdio.h>
#include <stdlib.h>
#include <string.h>
#include <stdint.h>

#define GUARD 8
#define CANARY_I (-1700000017)
#define CANARY_D (-1700000017.0)
#define MAXNP 64

/* ------------------------------------------------------------------ tokens */
typedef struct { char** tok; int n; int pos; } toks_t;

static toks_t load_tokens(const char* path)
{
  toks_t t = {0, 0, 0};
  FILE* f = fopen(path, "rb");
  if (!f) { fprintf(stderr, "mpicoll: cannot open plan %s\n", path); exit(3); }
  fseek(f, 0, SEEK_END);
  long sz = ftell(f);
  fseek(f, 0, SEEK_SET);
  char* buf = malloc(sz + 1);
  if (fread(buf, 1, sz, f) != (size_t)sz) { fprintf(stderr, "mpicoll: short read\n"); exit(3); }
  buf[sz] = 0;
  fclose(f);
  int cap = 1024;
  t.tok = malloc(cap * sizeof(char*));
  char* p = buf;
  while (*p) {
    while (*p == ' ' || *p == '\n' || *p == '\t' || *p == '\r') p++;
    if (!*p) break;
    if (t.n == cap) { cap *= 2; t.tok = realloc(t.tok, cap * sizeof(char*)); }
    t.tok[t.n++] = p;
    while (*p && *p != ' ' && *p != '\n' && *p != '\t' && *p != '\r') p++;
    if (*p) *p++ = 0;
  }
  return t;
}
static const char* tk(toks_t* t) { if (t->pos >= t->n) { fprintf(stderr, "mpicoll: plan truncated\n"); exit(3); } return t->tok[t->pos++]; }
static long tki(toks_t* t) { return strtol(tk(t), 0, 10); }
static int tk_is(toks_t* t, const char* s) { return t->pos < t->n && !strcmp(t->tok[t->pos], s); }

/* ------------------------------------------------------------------ crc32 (zlib polynomial) */
static uint32_t crc32_buf(const void* data, size_t len)
{
  uint32_t table[256];
  for (uint32_t i = 0; i < 256; i++) { uint32_t c = i; for (int k = 0; k < 8; k++) c = (c & 1) ? 0xEDB88320u ^ (c >> 1) : c >> 1; table[i] = c; }
  uint32_t c = 0xFFFFFFFFu;
  const unsigned char* p = data;
  for (size_t i = 0; i < len; i++) c = table[(c ^ p[i]) & 0xFF] ^ (c >> 8);
  return c ^ 0xFFFFFFFFu;
}

/* ------------------------------------------------------------------ values: same function in mpicollcommon.py */
static uint32_t mix3(uint32_t a, uint32_t b, uint32_t c)
{
  uint32_t h = (a * 2654435761u) ^ ((b + 0x9e3779b9u) * 2246822519u) ^ ((c + 0x85ebca6bu) * 3266489917u);
  h ^= h >> 15; h *= 2246822519u; h ^= h >> 13; h *= 3266489917u; h ^= h >> 16;
  return h;
}
enum { VC_MOVE, VC_SUM, VC_PROD, VC_MINMAX, VC_BITS, VC_BAND, VC_LOC, VC_USER };
#define USERMOD 10007
static long value_of(int vc, uint32_t seed, int rank, long k, int period)
{
  uint32_t h = mix3(seed, (uint32_t)rank, (uint32_t)((k >> 1) % period));
  if (k & 1) h = mix3(h, 0x51ed270bu, 7u);
  switch (vc) {
    case VC_MOVE: return (long)(h % 200001u) - 100000;
    case VC_SUM: return (long)(h % 9u) - 4;
    case VC_PROD: { static const int v[4] = {1, 2, -1, 1}; return v[h & 3]; }
    case VC_MINMAX: return (long)(h % 2001u) - 1000;
    case VC_BITS: return (long)(h & 0x7fffffffu);
    case VC_BAND: return (long)((h | (h >> 7) | (h << 9) | 0x40000001u) & 0x7fffffffu);
    case VC_LOC: return (k & 1) ? (long)((h >> 7) % 40u) : (long)(h % 5u);
    case VC_USER: return (long)(h % USERMOD);
  }
  return 0;
}

/* ------------------------------------------------------------------ datatypes */
enum { DT_I, DT_D, DT_C3, DT_V2, DT_2I, DT_C2, DT_NB };
typedef struct { MPI_Datatype h[DT_NB]; } types_t;
static const int dt_items[DT_NB] = {1, 1, 3, 2, 2, 2};
static const int dt_ext[DT_NB]   = {1, 1, 3, 3, 2, 2};      /* extent in base slots */
static const int dt_map[DT_NB][3] = {{0}, {0}, {0, 1, 2}, {0, 2}, {0, 1}, {0, 1}};
static int dt_code(const char* s)
{
  if (!strcmp(s, "i")) return DT_I;
  if (!strcmp(s, "d")) return DT_D;
  if (!strcmp(s, "c3")) return DT_C3;
  if (!strcmp(s, "v2")) return DT_V2;
  if (!strcmp(s, "2i")) return DT_2I;
  if (!strcmp(s, "c2")) return DT_C2;
  fprintf(stderr, "mpicoll: unknown datatype %s\n", s); exit(3);
}
static void make_types(types_t* t)
{
  t->h[DT_I] = MPI_INT; t->h[DT_D] = MPI_DOUBLE; t->h[DT_2I] = MPI_2INT;
  MPI_Type_contiguous(3, MPI_INT, &t->h[DT_C3]); MPI_Type_commit(&t->h[DT_C3]);
  MPI_Type_vector(2, 1, 2, MPI_INT, &t->h[DT_V2]); MPI_Type_commit(&t->h[DT_V2]);
  MPI_Type_contiguous(2, MPI_INT, &t->h[DT_C2]); MPI_Type_commit(&t->h[DT_C2]);
}

/* user-defined commutative, associative op: (a+b) mod USERMOD on every significant item; the layout of the derived
 * types is recognised from (size, extent) since the op gets no user context */
static void user_op(void* in, void* inout, int* len, MPI_Datatype* dt)
{
  if (*dt == MPI_DOUBLE) {
    double* a = in; double* b = inout;
    for (int i = 0; i < *len; i++) { long s = (long)a[i] + (long)b[i]; b[i] = (double)(s % USERMOD); }
    return;
  }
  int size; MPI_Aint lb, ext;
  MPI_Type_size(*dt, &size); MPI_Type_get_extent(*dt, &lb, &ext);
  int es = (int)(ext / 4), it = size / 4;
  int* a = in; int* b = inout;
  for (int e = 0; e < *len; e++)
    for (int j = 0; j < it; j++) {
      int off = e * es + ((it == 2 && es == 3) ? 2 * j : j);
      b[off] = (int)(((long)a[off] + (long)b[off]) % USERMOD);
    }
}

/* ------------------------------------------------------------------ buffers: base slots with guards */
typedef struct { int isd; long n; void* raw; } buf_t;      /* n data slots; raw has GUARD+n+GUARD slots */
static buf_t buf_new(int isd, long n)
{
  buf_t b; b.isd = isd; b.n = n;
  long tot = n + 2 * GUARD;
  if (isd) { double* p = malloc(tot * sizeof(double)); for (long i = 0; i < tot; i++) p[i] = CANARY_D; b.raw = p; }
  else { int* p = malloc(tot * sizeof(int)); for (long i = 0; i < tot; i++) p[i] = CANARY_I; b.raw = p; }
  return b;
}
static void* buf_data(buf_t* b) { return b->isd ? (void*)((double*)b->raw + GUARD) : (void*)((int*)b->raw + GUARD); }
static void buf_set(buf_t* b, long slot, long v) { if (b->isd) ((double*)b->raw)[GUARD + slot] = (double)v; else ((int*)b->raw)[GUARD + slot] = (int)v; }
static uint32_t buf_crc(buf_t* b)
{
  long tot = b->n + 2 * GUARD;
  if (b->isd) { double* p = b->raw; for (long i = 0; i < tot; i++) if (p[i] == 0) p[i] = 0.0; }
  return crc32_buf(b->raw, tot * (b->isd ? sizeof(double) : sizeof(int)));
}
/* fill `count` elements of type dt placed at element displacement `displ` (in extents) with values k0, k0+1, ... */
static long buf_fill(buf_t* b, int dt, long displ_slots, long count, int vc, uint32_t seed, int rank, long k0, int period)
{
  for (long e = 0; e < count; e++)
    for (int j = 0; j < dt_items[dt]; j++)
      buf_set(b, displ_slots + e * dt_ext[dt] + dt_map[dt][j], value_of(vc, seed, rank, k0++, period));
  return k0;
}
static void buf_wipe(buf_t* b, int dt, long from, long count)
{
  for (long e = from; e < count; e++)
    for (int j = 0; j < dt_items[dt]; j++)
      buf_set(b, e * dt_ext[dt] + dt_map[dt][j], CANARY_I);
}
static void buf_print(char** out, size_t* cap, size_t* len, buf_t* b)
{
  long tot = b->n + 2 * GUARD;
  for (long i = 0; i < tot; i++) {
    if (*len + 40 > *cap) { *cap *= 2; *out = realloc(*out, *cap); }
    if (b->isd) {
      double v = ((double*)b->raw)[i];
      if (v == (double)(long)v && v > -1e15 && v < 1e15) *len += sprintf(*out + *len, " %ld", (long)v);
      else *len += sprintf(*out + *len, " %a", v);
    } else
      *len += sprintf(*out + *len, " %d", ((int*)b->raw)[i]);
  }
}

static void think_us(long us)
{
  if (us > 0) smpi_execute_flops((double)us * 1000.0); /* hosts run at 1 Gf: 1000 flops = 1 us (see platform writer) */
}

/* ================================================================== coll mode */
enum { K_BCAST, K_REDUCE, K_ALLREDUCE, K_ALLGATHER, K_ALLGATHERV, K_ALLTOALL, K_ALLTOALLV, K_ALLTOALLW, K_GATHER,
       K_GATHERV, K_SCATTER, K_SCATTERV, K_REDUCE_SCATTER, K_REDUCE_SCATTER_BLOCK, K_BARRIER, K_SCAN, K_EXSCAN, K_NB };
static const char* kind_names[K_NB] = {"bcast", "reduce", "allreduce", "allgather", "allgatherv", "alltoall",
  "alltoallv", "alltoallw", "gather", "gatherv", "scatter", "scatterv", "reduce_scatter", "reduce_scatter_block",
  "barrier", "scan", "exscan"};

typedef struct {
  int idx, kind, nb, root, sdt, rdt, inplace, vc, period, defer, usetest;
  long scount, rcount;
  uint32_t seed;
  char opname[16];
  long skew[MAXNP], wskew[MAXNP];
  /* v-variants: per peer arrays as seen from THIS rank are taken from the matrices below */
  int *scounts, *sdispls, *rcounts, *rdispls;     /* np*np matrices [me][peer] (np entries used when not alltoall*) */
  int *stypes, *rtypes;                           /* alltoallw: np*np datatype codes */
  /* runtime */
  buf_t sb, rb; int has_sb, has_rb; uint32_t scrc;
  MPI_Request req; int pending; double t_enter; int rc; long mine;
  int *a_sc, *a_sd, *a_rc, *a_rd; MPI_Datatype *a_st, *a_rt;
} call_t;

static MPI_Op op_of(const char* s, MPI_Op user)
{
  if (!strcmp(s, "sum")) return MPI_SUM;
  if (!strcmp(s, "prod")) return MPI_PROD;
  if (!strcmp(s, "max")) return MPI_MAX;
  if (!strcmp(s, "min")) return MPI_MIN;
  if (!strcmp(s, "bxor")) return MPI_BXOR;
  if (!strcmp(s, "band")) return MPI_BAND;
  if (!strcmp(s, "bor")) return MPI_BOR;
  if (!strcmp(s, "maxloc")) return MPI_MAXLOC;
  if (!strcmp(s, "minloc")) return MPI_MINLOC;
  if (!strcmp(s, "user")) return user;
  if (!strcmp(s, "none")) return MPI_OP_NULL;
  fprintf(stderr, "mpicoll: unknown op %s\n", s); exit(3);
}

static long max_extent_slots(const int* counts, const int* displs, int n, int dt)
{
  long m = 0;
  for (int i = 0; i < n; i++) { long e = ((long)displs[i] + counts[i]) * dt_ext[dt]; if (e > m) m = e; }
  return m;
}

static void coll_start(call_t* c, int rank, int np, types_t* ty, MPI_Op user)
{
  int isd = (c->sdt == DT_D);
  MPI_Datatype st = ty->h[c->sdt], rt = ty->h[c->rdt];
  MPI_Op op = op_of(c->opname, user);
  int root = c->root, me = rank;
  const int* SC = c->scounts ? ((c->kind == K_GATHERV || c->kind == K_ALLGATHERV) ? c->scounts : c->scounts + (long)me * np) : 0;
  const int* SD = c->sdispls ? c->sdispls + (long)me * np : 0;
  const int* RC = c->rcounts ? (c->kind == K_SCATTERV ? c->rcounts : c->rcounts + (long)me * np) : 0;
  const int* RD = c->rdispls ? c->rdispls + (long)me * np : 0;
  c->has_sb = c->has_rb = 0;
  void *sp = 0, *rp = 0;
  int rc = MPI_SUCCESS;
  MPI_Request* rq = &c->req;
  c->req = MPI_REQUEST_NULL;
#define NEWS(n) do { c->sb = buf_new(isd, (n)); c->has_sb = 1; sp = buf_data(&c->sb); } while (0)
#define NEWR(n) do { c->rb = buf_new(isd, (n)); c->has_rb = 1; rp = buf_data(&c->rb); } while (0)
#define FILLS(displ, cnt, k0) buf_fill(&c->sb, c->sdt, (displ), (cnt), c->vc, c->seed, me, (k0), c->period)
#define FILLR(dt, displ, cnt, k0) buf_fill(&c->rb, (dt), (displ), (cnt), c->vc, c->seed, me, (k0), c->period)
  switch (c->kind) {
    case K_BARRIER:
      break;
    case K_BCAST:
      NEWR(c->rcount * dt_ext[c->rdt]);
      if (me == root) FILLR(c->rdt, 0, c->rcount, 0);
      break;
    case K_REDUCE: case K_ALLREDUCE: case K_SCAN: case K_EXSCAN: {
      int ip = c->inplace && (c->kind != K_REDUCE || me == root);
      NEWR(c->rcount * dt_ext[c->rdt]);
      if (ip) { FILLR(c->rdt, 0, c->rcount, 0); sp = MPI_IN_PLACE; }
      else { NEWS(c->scount * dt_ext[c->sdt]); FILLS(0, c->scount, 0); }
      break;
    }
    case K_REDUCE_SCATTER: case K_REDUCE_SCATTER_BLOCK: {
      long tot = 0;
      if (c->kind == K_REDUCE_SCATTER) for (int i = 0; i < np; i++) tot += RC[i]; else tot = c->rcount * np;
      long mine = c->kind == K_REDUCE_SCATTER ? RC[me] : c->rcount;
      c->mine = mine;
      if (c->inplace) { NEWR(tot * dt_ext[c->rdt]); FILLR(c->rdt, 0, tot, 0); sp = MPI_IN_PLACE; }
      else { NEWR(mine * dt_ext[c->rdt]); NEWS(tot * dt_ext[c->sdt]); FILLS(0, tot, 0); }
      break;
    }
    case K_GATHER: case K_ALLGATHER: {
      int sig = (c->kind == K_ALLGATHER || me == root);
      NEWR((long)np * c->rcount * dt_ext[c->rdt]);
      if (c->inplace && sig) { FILLR(c->rdt, (long)me * c->rcount * dt_ext[c->rdt], c->rcount, 0); sp = MPI_IN_PLACE; }
      else { NEWS(c->scount * dt_ext[c->sdt]); FILLS(0, c->scount, 0); }
      break;
    }
    case K_GATHERV: case K_ALLGATHERV: {
      int sig = (c->kind == K_ALLGATHERV || me == root);
      NEWR(max_extent_slots(RC, RD, np, c->rdt));
      if (c->inplace && sig) { FILLR(c->rdt, (long)RD[me] * dt_ext[c->rdt], RC[me], 0); sp = MPI_IN_PLACE; }
      else { c->scount = c->scounts[me]; NEWS(c->scount * dt_ext[c->sdt]); FILLS(0, c->scount, 0); }
      break;
    }
    case K_SCATTER: {
      NEWS((long)np * c->scount * dt_ext[c->sdt]);
      if (me == root) FILLS(0, (long)np * c->scount, 0);
      NEWR(c->rcount * dt_ext[c->rdt]);
      if (c->inplace && me == root) rp = MPI_IN_PLACE;
      break;
    }
    case K_SCATTERV: {
      NEWS(max_extent_slots(SC, SD, np, c->sdt));
      if (me == root) { long k = 0; for (int i = 0; i < np; i++) k = FILLS((long)SD[i] * dt_ext[c->sdt], SC[i], k); }
      c->rcount = c->rcounts[me];
      NEWR(c->rcount * dt_ext[c->rdt]);
      if (c->inplace && me == root) rp = MPI_IN_PLACE;
      break;
    }
    case K_ALLTOALL: {
      NEWR((long)np * c->rcount * dt_ext[c->rdt]);
      if (c->inplace) { FILLR(c->rdt, 0, (long)np * c->rcount, 0); sp = MPI_IN_PLACE; }
      else { NEWS((long)np * c->scount * dt_ext[c->sdt]); FILLS(0, (long)np * c->scount, 0); }
      break;
    }
    case K_ALLTOALLV: {
      NEWR(max_extent_slots(RC, RD, np, c->rdt));
      if (c->inplace) { long k = 0; for (int i = 0; i < np; i++) k = FILLR(c->rdt, (long)RD[i] * dt_ext[c->rdt], RC[i], k); sp = MPI_IN_PLACE; }
      else { NEWS(max_extent_slots(SC, SD, np, c->sdt)); long k = 0; for (int i = 0; i < np; i++) k = FILLS((long)SD[i] * dt_ext[c->sdt], SC[i], k); }
      break;
    }
    case K_ALLTOALLW: { /* displacements are in slots here, converted to bytes below; int based types only */
      long ms = 0, mr = 0;
      const int* ST = c->stypes + (long)me * np; const int* RT = c->rtypes + (long)me * np;
      for (int i = 0; i < np; i++) {
        long e = SD[i] + (long)SC[i] * dt_ext[ST[i]]; if (e > ms) ms = e;
        e = RD[i] + (long)RC[i] * dt_ext[RT[i]]; if (e > mr) mr = e;
      }
      NEWR(mr); NEWS(ms);
      long k = 0;
      for (int i = 0; i < np; i++) k = buf_fill(&c->sb, ST[i], SD[i], SC[i], c->vc, c->seed, me, k, c->period);
      c->a_sd = malloc(np * sizeof(int)); c->a_rd = malloc(np * sizeof(int));
      c->a_st = malloc(np * sizeof(MPI_Datatype)); c->a_rt = malloc(np * sizeof(MPI_Datatype));
      for (int i = 0; i < np; i++) { c->a_sd[i] = SD[i] * 4; c->a_rd[i] = RD[i] * 4; c->a_st[i] = ty->h[ST[i]]; c->a_rt[i] = ty->h[RT[i]]; }
      break;
    }
  }
  if (c->has_sb) c->scrc = buf_crc(&c->sb);
  c->t_enter = MPI_Wtime();
  printf("S %d %d\n", c->idx, rank);
  int nb = c->nb;
  switch (c->kind) {
    case K_BARRIER: rc = nb ? MPI_Ibarrier(MPI_COMM_WORLD, rq) : MPI_Barrier(MPI_COMM_WORLD); break;
    case K_BCAST: rc = nb ? MPI_Ibcast(rp, c->rcount, rt, root, MPI_COMM_WORLD, rq) : MPI_Bcast(rp, c->rcount, rt, root, MPI_COMM_WORLD); break;
    case K_REDUCE: rc = nb ? MPI_Ireduce(sp, rp, c->rcount, rt, op, root, MPI_COMM_WORLD, rq) : MPI_Reduce(sp, rp, c->rcount, rt, op, root, MPI_COMM_WORLD); break;
    case K_ALLREDUCE: rc = nb ? MPI_Iallreduce(sp, rp, c->rcount, rt, op, MPI_COMM_WORLD, rq) : MPI_Allreduce(sp, rp, c->rcount, rt, op, MPI_COMM_WORLD); break;
    case K_SCAN: rc = nb ? MPI_Iscan(sp, rp, c->rcount, rt, op, MPI_COMM_WORLD, rq) : MPI_Scan(sp, rp, c->rcount, rt, op, MPI_COMM_WORLD); break;
    case K_EXSCAN: rc = nb ? MPI_Iexscan(sp, rp, c->rcount, rt, op, MPI_COMM_WORLD, rq) : MPI_Exscan(sp, rp, c->rcount, rt, op, MPI_COMM_WORLD); break;
    case K_REDUCE_SCATTER: rc = nb ? MPI_Ireduce_scatter(sp, rp, RC, rt, op, MPI_COMM_WORLD, rq) : MPI_Reduce_scatter(sp, rp, RC, rt, op, MPI_COMM_WORLD); break;
    case K_REDUCE_SCATTER_BLOCK: rc = nb ? MPI_Ireduce_scatter_block(sp, rp, c->rcount, rt, op, MPI_COMM_WORLD, rq) : MPI_Reduce_scatter_block(sp, rp, c->rcount, rt, op, MPI_COMM_WORLD); break;
    case K_GATHER: rc = nb ? MPI_Igather(sp, c->scount, st, rp, c->rcount, rt, root, MPI_COMM_WORLD, rq) : MPI_Gather(sp, c->scount, st, rp, c->rcount, rt, root, MPI_COMM_WORLD); break;
    case K_ALLGATHER: rc = nb ? MPI_Iallgather(sp, c->scount, st, rp, c->rcount, rt, MPI_COMM_WORLD, rq) : MPI_Allgather(sp, c->scount, st, rp, c->rcount, rt, MPI_COMM_WORLD); break;
    case K_GATHERV: rc = nb ? MPI_Igatherv(sp, c->scount, st, rp, RC, RD, rt, root, MPI_COMM_WORLD, rq) : MPI_Gatherv(sp, c->scount, st, rp, RC, RD, rt, root, MPI_COMM_WORLD); break;
    case K_ALLGATHERV: rc = nb ? MPI_Iallgatherv(sp, c->scount, st, rp, RC, RD, rt, MPI_COMM_WORLD, rq) : MPI_Allgatherv(sp, c->scount, st, rp, RC, RD, rt, MPI_COMM_WORLD); break;
    case K_SCATTER: rc = nb ? MPI_Iscatter(sp, c->scount, st, rp, c->rcount, rt, root, MPI_COMM_WORLD, rq) : MPI_Scatter(sp, c->scount, st, rp, c->rcount, rt, root, MPI_COMM_WORLD); break;
    case K_SCATTERV: rc = nb ? MPI_Iscatterv(sp, SC, SD, st, rp, c->rcount, rt, root, MPI_COMM_WORLD, rq) : MPI_Scatterv(sp, SC, SD, st, rp, c->rcount, rt, root, MPI_COMM_WORLD); break;
    case K_ALLTOALL: rc = nb ? MPI_Ialltoall(sp, c->scount, st, rp, c->rcount, rt, MPI_COMM_WORLD, rq) : MPI_Alltoall(sp, c->scount, st, rp, c->rcount, rt, MPI_COMM_WORLD); break;
    case K_ALLTOALLV: rc = nb ? MPI_Ialltoallv(sp, SC, SD, st, rp, RC, RD, rt, MPI_COMM_WORLD, rq) : MPI_Alltoallv(sp, SC, SD, st, rp, RC, RD, rt, MPI_COMM_WORLD); break;
    case K_ALLTOALLW: rc = nb ? MPI_Ialltoallw(sp, SC, c->a_sd, c->a_st, rp, RC, c->a_rd, c->a_rt, MPI_COMM_WORLD, rq) : MPI_Alltoallw(sp, SC, c->a_sd, c->a_st, rp, RC, c->a_rd, c->a_rt, MPI_COMM_WORLD); break;
  }
  c->rc = rc;
  c->pending = 1;
}

static void coll_finish(call_t* c, int rank, int full)
{
  if (c->nb) {
    think_us(c->wskew[rank]);
    printf("X %d %d\n", c->idx, rank);
    if (c->req != MPI_REQUEST_NULL) {
      if (c->usetest) {
        int flag = 0, spins = 0;
        while (!flag) { int rc = MPI_Test(&c->req, &flag, MPI_STATUS_IGNORE); if (rc != MPI_SUCCESS) { c->rc = rc; break; } if (!flag) { think_us(3L << (spins < 14 ? spins : 14)); spins++; } }
      } else {
        int rc = MPI_Wait(&c->req, MPI_STATUS_IGNORE);
        if (rc != MPI_SUCCESS) c->rc = rc;
      }
    }
  }
  double t_exit = MPI_Wtime();
  printf("T %d %d %a %a %d\n", c->idx, rank, c->t_enter, t_exit, c->rc);
  if (c->has_rb) {
    if (c->kind == K_EXSCAN && rank == 0) buf_wipe(&c->rb, c->rdt, 0, c->rcount); /* undefined by the standard */
    if ((c->kind == K_REDUCE || c->kind == K_GATHER || c->kind == K_GATHERV) && rank != c->root) /* not significant */
      for (long i = 0; i < c->rb.n; i++) buf_set(&c->rb, i, CANARY_I);
    if (c->inplace && (c->kind == K_REDUCE_SCATTER || c->kind == K_REDUCE_SCATTER_BLOCK)) /* input area beyond the result: unspecified */
      buf_wipe(&c->rb, c->rdt, c->mine, c->rb.n / dt_ext[c->rdt]);
    int sendmod = c->has_sb ? (buf_crc(&c->sb) != c->scrc) : 0;
    uint32_t crc = buf_crc(&c->rb);
    size_t cap = 256, len = 0;
    char* out = malloc(cap);
    len += sprintf(out, "R %d %d %ld %08x %d", c->idx, rank, c->rb.n, crc, sendmod);
    if (full || c->rb.n <= 96) buf_print(&out, &cap, &len, &c->rb);
    out[len++] = '\n';
    fwrite(out, 1, len, stdout);
    free(out);
    free(c->rb.raw);
  }
  if (c->has_sb) free(c->sb.raw);
  if (c->a_sd) { free(c->a_sd); free(c->a_rd); free(c->a_st); free(c->a_rt); c->a_sd = 0; }
  c->pending = 0;
}

static int* read_matrix(toks_t* t, long n)
{
  int* m = malloc((n > 0 ? n : 1) * sizeof(int));
  for (long i = 0; i < n; i++) m[i] = (int)tki(t);
  return m;
}

static int run_coll(toks_t* t, int rank, int np)
{
  types_t ty; make_types(&ty);
  MPI_Op user; MPI_Op_create(user_op, 1, &user);
  int full = getenv("MPICOLL_FULL") != 0;
  int ncalls = 0;
  if (tk_is(t, "ncalls")) { tk(t); ncalls = (int)tki(t); }
  call_t* calls = calloc(ncalls > 0 ? ncalls : 1, sizeof(call_t));
  for (int i = 0; i < ncalls; i++) {
    call_t* c = &calls[i];
    if (strcmp(tk(t), "call")) { fprintf(stderr, "mpicoll: expected 'call'\n"); exit(3); }
    c->idx = (int)tki(t);
    const char* kn = tk(t);
    c->kind = -1;
    for (int k = 0; k < K_NB; k++) if (!strcmp(kn, kind_names[k])) c->kind = k;
    if (c->kind < 0) { fprintf(stderr, "mpicoll: unknown collective %s\n", kn); exit(3); }
    c->nb = (int)tki(t); c->root = (int)tki(t);
    c->scount = tki(t); c->sdt = dt_code(tk(t)); c->rcount = tki(t); c->rdt = dt_code(tk(t));
    strncpy(c->opname, tk(t), 15);
    c->inplace = (int)tki(t); c->vc = (int)tki(t); c->seed = (uint32_t)strtoul(tk(t), 0, 10); c->period = (int)tki(t);
    c->defer = (int)tki(t); c->usetest = (int)tki(t);
    while (tk_is(t, "arr")) {
      tk(t);
      const char* name = tk(t);
      long n = tki(t);
      if (!strcmp(name, "skew")) for (long k = 0; k < n; k++) { long v = tki(t); if (k < MAXNP) c->skew[k] = v; }
      else if (!strcmp(name, "wskew")) for (long k = 0; k < n; k++) { long v = tki(t); if (k < MAXNP) c->wskew[k] = v; }
      else if (!strcmp(name, "scounts")) c->scounts = read_matrix(t, n);
      else if (!strcmp(name, "sdispls")) c->sdispls = read_matrix(t, n);
      else if (!strcmp(name, "rcounts")) c->rcounts = read_matrix(t, n);
      else if (!strcmp(name, "rdispls")) c->rdispls = read_matrix(t, n);
      else if (!strcmp(name, "stypes")) c->stypes = read_matrix(t, n);
      else if (!strcmp(name, "rtypes")) c->rtypes = read_matrix(t, n);
      else { fprintf(stderr, "mpicoll: unknown array %s\n", name); exit(3); }
    }
  }
  for (int i = 0; i < ncalls; i++) {
    /* complete the deferred non-blocking calls that are due */
    for (int j = 0; j < i; j++)
      if (calls[j].pending && j + calls[j].defer < i) coll_finish(&calls[j], rank, full);
    think_us(calls[i].skew[rank]);
    coll_start(&calls[i], rank, np, &ty, user);
    if (!calls[i].nb || calls[i].defer == 0) coll_finish(&calls[i], rank, full);
  }
  for (int j = 0; j < ncalls; j++)
    if (calls[j].pending) coll_finish(&calls[j], rank, full);
  MPI_Op_free(&user);
  return 0;
}

/* ================================================================== rma mode */
/* plan:
 *   wsize W                            window of W ints per rank
 *   nphases P
 *   phase <p> <kind>                   kind: fence | lock | lockall | pscw
 *   fassert <0|1>                      (fence) 1: MPI_MODE_NOPRECEDE on the opening and MPI_MODE_NOSUCCEED on the closing fence
 *   init <p> <seed>                    every rank re-initialises its window from the seed before the phase (then barrier)
 *   arr group <n> r...                 (pscw) for every rank: 0/1 target flags matrix np*np [origin][target]
 *   nops <rank> <n>                    then n ops of this rank:
 *   op <id> <think_us> <what> ...      what:
 *        lock <target> <excl 0/1> | unlock <target> | flush <target> | flushall | lockall | unlockall
 *        put <target> <disp> <count> <seed>
 *        get <target> <disp> <count>
 *        acc <target> <disp> <count> <opname> <seed>
 *        gacc <target> <disp> <count> <opname> <seed>
 *        fop <target> <disp> <opname> <seed>
 *        cas <target> <disp> <compare> <newval>
 *        fence                          (fence phases: intermediate fences are separate phases; not used inside)
 *   Results of get-type ops are printed after the closing synchronisation of the phase part they belong to.
 */
typedef struct { int id; long think; char what[12]; int target; long disp, count; char opname[12]; uint32_t seed; long cmp, newv; int excl;
                 int* origin; int* result; } rop_t;

static MPI_Op rma_op_of(const char* s)
{
  if (!strcmp(s, "replace")) return MPI_REPLACE;
  if (!strcmp(s, "noop")) return MPI_NO_OP;
  return op_of(s, MPI_OP_NULL);
}
static int rma_vc(const char* s)
{
  if (!strcmp(s, "sum")) return VC_SUM;
  if (!strcmp(s, "prod")) return VC_PROD;
  if (!strcmp(s, "max") || !strcmp(s, "min")) return VC_MINMAX;
  if (!strcmp(s, "band")) return VC_BAND;
  if (!strcmp(s, "bxor") || !strcmp(s, "bor")) return VC_BITS;
  return VC_MOVE;
}

static void rma_flush_results(int phase, int rank, rop_t* ops, int from, int to)
{
  for (int i = from; i < to; i++) {
    rop_t* o = &ops[i];
    if (o->result) {
      char line[64 + 16 * 64]; int len = sprintf(line, "G %d %d %d", phase, rank, o->id);
      for (long k = 0; k < o->count && k < 64; k++) len += sprintf(line + len, " %d", o->result[k]);
      line[len++] = '\n'; fwrite(line, 1, len, stdout);
      free(o->result); o->result = 0;
    }
    if (o->origin) { free(o->origin); o->origin = 0; }
  }
}

static int run_rma(toks_t* t, int rank, int np)
{
  long W = 16; int nph = 0;
  if (tk_is(t, "wsize")) { tk(t); W = tki(t); }
  if (tk_is(t, "nphases")) { tk(t); nph = (int)tki(t); }
  int* base = 0; MPI_Win win;
  int alloc_mode = 0;
  if (tk_is(t, "winalloc")) { tk(t); alloc_mode = (int)tki(t); }
  if (alloc_mode) MPI_Win_allocate(W * sizeof(int), sizeof(int), MPI_INFO_NULL, MPI_COMM_WORLD, &base, &win);
  else { base = malloc((W + 2 * GUARD) * sizeof(int)); for (long i = 0; i < W + 2 * GUARD; i++) base[i] = CANARY_I; base += GUARD;
         MPI_Win_create(base, W * sizeof(int), sizeof(int), MPI_INFO_NULL, MPI_COMM_WORLD, &win); }
  MPI_Group wgroup; MPI_Comm_group(MPI_COMM_WORLD, &wgroup);
  for (int p = 0; p < nph; p++) {
    if (strcmp(tk(t), "phase")) { fprintf(stderr, "mpicoll: expected 'phase'\n"); exit(3); }
    int ph = (int)tki(t);
    const char* kind = tk(t);
    int is_fence = !strcmp(kind, "fence"), is_pscw = !strcmp(kind, "pscw");
    uint32_t iseed = 0; int* grp = 0; int fassert = 0;
    if (tk_is(t, "fassert")) { tk(t); fassert = (int)tki(t); }
    if (tk_is(t, "init")) { tk(t); tki(t); iseed = (uint32_t)strtoul(tk(t), 0, 10); }
    if (tk_is(t, "arr")) { tk(t); tk(t); long n = tki(t); grp = read_matrix(t, n); }
    rop_t* mine = 0; int nmine = 0;
    while (tk_is(t, "nops")) {
      tk(t);
      int r = (int)tki(t); int n = (int)tki(t);
      rop_t* ops = calloc(n > 0 ? n : 1, sizeof(rop_t));
      for (int i = 0; i < n; i++) {
        rop_t* o = &ops[i];
        if (strcmp(tk(t), "op")) { fprintf(stderr, "mpicoll: expected 'op'\n"); exit(3); }
        o->id = (int)tki(t); o->think = tki(t); strncpy(o->what, tk(t), 11);
        const char* w = o->what;
        if (!strcmp(w, "lock")) { o->target = (int)tki(t); o->excl = (int)tki(t); }
        else if (!strcmp(w, "unlock") || !strcmp(w, "flush") || !strcmp(w, "flushl")) o->target = (int)tki(t);
        else if (!strcmp(w, "put")) { o->target = (int)tki(t); o->disp = tki(t); o->count = tki(t); o->seed = (uint32_t)strtoul(tk(t), 0, 10); }
        else if (!strcmp(w, "get")) { o->target = (int)tki(t); o->disp = tki(t); o->count = tki(t); }
        else if (!strcmp(w, "acc") || !strcmp(w, "gacc")) { o->target = (int)tki(t); o->disp = tki(t); o->count = tki(t); strncpy(o->opname, tk(t), 11); o->seed = (uint32_t)strtoul(tk(t), 0, 10); }
        else if (!strcmp(w, "fop")) { o->target = (int)tki(t); o->disp = tki(t); o->count = 1; strncpy(o->opname, tk(t), 11); o->seed = (uint32_t)strtoul(tk(t), 0, 10); }
        else if (!strcmp(w, "cas")) { o->target = (int)tki(t); o->disp = tki(t); o->count = 1; o->cmp = tki(t); o->newv = tki(t); }
        /* flushall, lockall, unlockall, think: no argument */
      }
      if (r == rank) { mine = ops; nmine = n; } else free(ops);
    }
    /* (re)initialise the window, all ranks, then synchronise */
    if (iseed) for (long i = 0; i < W; i++) base[i] = (int)value_of(VC_SUM, iseed, rank, i, 1 << 20) + 10;
    MPI_Barrier(MPI_COMM_WORLD);
    MPI_Group og = MPI_GROUP_NULL, tg = MPI_GROUP_NULL; int n_og = 0, n_tg = 0;
    if (is_fence) MPI_Win_fence(fassert ? MPI_MODE_NOPRECEDE : 0, win);
    if (is_pscw) {
      int ranks[MAXNP];
      n_og = 0; for (int o = 0; o < np; o++) if (grp[o * np + rank]) ranks[n_og++] = o;        /* my origins (I am target) */
      if (n_og) { MPI_Group_incl(wgroup, n_og, ranks, &og); MPI_Win_post(og, 0, win); }
      n_tg = 0; for (int q = 0; q < np; q++) if (grp[rank * np + q]) ranks[n_tg++] = q;        /* my targets */
      if (n_tg) { MPI_Group_incl(wgroup, n_tg, ranks, &tg); MPI_Win_start(tg, 0, win); }
    }
    int from = 0;
    for (int i = 0; i < nmine; i++) {
      rop_t* o = &mine[i];
      think_us(o->think);
      const char* w = o->what; int rc = MPI_SUCCESS; int sync = 0;
      if (!strcmp(w, "lock")) rc = MPI_Win_lock(o->excl ? MPI_LOCK_EXCLUSIVE : MPI_LOCK_SHARED, o->target, 0, win);
      else if (!strcmp(w, "unlock")) { rc = MPI_Win_unlock(o->target, win); sync = 1; }
      else if (!strcmp(w, "lockall")) rc = MPI_Win_lock_all(0, win);
      else if (!strcmp(w, "unlockall")) { rc = MPI_Win_unlock_all(win); sync = 1; }
      else if (!strcmp(w, "flush")) rc = MPI_Win_flush(o->target, win);
      else if (!strcmp(w, "flushl")) rc = MPI_Win_flush_local(o->target, win);
      else if (!strcmp(w, "flushall")) rc = MPI_Win_flush_all(win);
      else if (!strcmp(w, "think")) ;
      else if (!strcmp(w, "put")) {
        o->origin = malloc((o->count + 1) * sizeof(int));
        for (long k = 0; k < o->count; k++) o->origin[k] = (int)value_of(VC_MOVE, o->seed, rank, k, 1 << 20);
        rc = MPI_Put(o->origin, (int)o->count, MPI_INT, o->target, o->disp, (int)o->count, MPI_INT, win);
      } else if (!strcmp(w, "get")) {
        o->result = malloc((o->count + 1) * sizeof(int));
        for (long k = 0; k < o->count; k++) o->result[k] = CANARY_I;
        rc = MPI_Get(o->result, (int)o->count, MPI_INT, o->target, o->disp, (int)o->count, MPI_INT, win);
      } else if (!strcmp(w, "acc") || !strcmp(w, "gacc") || !strcmp(w, "fop")) {
        int vc = rma_vc(o->opname);
        o->origin = malloc((o->count + 1) * sizeof(int));
        for (long k = 0; k < o->count; k++) o->origin[k] = (int)value_of(vc, o->seed, rank, k, 1 << 20);
        MPI_Op op = rma_op_of(o->opname);
        if (!strcmp(w, "acc")) rc = MPI_Accumulate(o->origin, (int)o->count, MPI_INT, o->target, o->disp, (int)o->count, MPI_INT, op, win);
        else {
          o->result = malloc((o->count + 1) * sizeof(int));
          for (long k = 0; k < o->count; k++) o->result[k] = CANARY_I;
          if (!strcmp(w, "gacc")) rc = MPI_Get_accumulate(o->origin, (int)o->count, MPI_INT, o->result, (int)o->count, MPI_INT, o->target, o->disp, (int)o->count, MPI_INT, op, win);
          else rc = MPI_Fetch_and_op(o->origin, o->result, MPI_INT, o->target, o->disp, op, win);
        }
      } else if (!strcmp(w, "cas")) {
        o->origin = malloc(2 * sizeof(int)); o->origin[0] = (int)o->newv; o->origin[1] = (int)o->cmp;
        o->result = malloc(2 * sizeof(int)); o->result[0] = CANARY_I;
        rc = MPI_Compare_and_swap(&o->origin[0], &o->origin[1], o->result, MPI_INT, o->target, o->disp, win);
      }
      if (rc != MPI_SUCCESS) printf("E %d %d %d %d\n", ph, rank, o->id, rc);
      if (sync) { rma_flush_results(ph, rank, mine, from, i + 1); from = i + 1; }
    }
    if (is_fence) MPI_Win_fence(fassert ? MPI_MODE_NOSUCCEED : 0, win);
    if (is_pscw) {
      if (n_tg) { MPI_Win_complete(win); MPI_Group_free(&tg); }
      if (n_og) { MPI_Win_wait(win); MPI_Group_free(&og); }
    }
    rma_flush_results(ph, rank, mine, from, nmine);
    MPI_Barrier(MPI_COMM_WORLD);
    {
      char* line = malloc(64 + 16 * (W + 2 * GUARD)); int len = sprintf(line, "W %d %d", ph, rank);
      long lo = alloc_mode ? 0 : -GUARD, hi = alloc_mode ? W : W + GUARD;
      for (long k = lo; k < hi; k++) len += sprintf(line + len, " %d", base[k]);
      line[len++] = '\n'; fwrite(line, 1, len, stdout); free(line);
    }
    if (mine) free(mine);
    if (grp) free(grp);
  }
  MPI_Group_free(&wgroup);
  MPI_Win_free(&win);
  return 0;
}

/* ================================================================== replay mode: programs over the calls smpi_replay supports */
/* plan:  nops <rank> <n> then lines
 *   compute <flops> | sleep <usec> | send <dst> <tag> <count> | isend <dst> <tag> <count> | recv <src> <tag> <count> |
 *   irecv <src> <tag> <count> | wait <slot> | waitall | test <slot> | barrier | bcast <count> <root> | reduce <count> <root> |
 *   allreduce <count> | alltoall <count> | gather <count> <root> | scatter <count> <root> | allgather <count> |
 *   alltoallv <np counts>| allgatherv <np counts> | gatherv <root> <np counts> | scatterv <root> <np counts> |
 *   reducescatter <np counts> | scan <count> | exscan <count> | sendrecv <dst> <scount> <src> <rcount>
 * datatype: one code per program (dt i|d) */
static int run_replay(toks_t* t, int rank, int np)
{
  int isd = 0;
  if (tk_is(t, "dt")) { tk(t); isd = !strcmp(tk(t), "d"); }
  MPI_Datatype dt = isd ? MPI_DOUBLE : MPI_INT;
  size_t es = isd ? 8 : 4;
  long maxbuf = 1;
  if (tk_is(t, "maxbuf")) { tk(t); maxbuf = tki(t); }
  char* sbuf = calloc(maxbuf + 1, es); char* rbuf = calloc(maxbuf + 1, es);
  MPI_Request reqs[64]; int nreq = 0;
  int* cnts = malloc(np * sizeof(int)); int* dsp = malloc(np * sizeof(int)); int* cnts2 = malloc(np * sizeof(int)); int* dsp2 = malloc(np * sizeof(int));
  while (tk_is(t, "nops")) {
    tk(t);
    int r = (int)tki(t); int n = (int)tki(t);
    for (int i = 0; i < n; i++) {
      const char* w = tk(t);
      int me = (r == rank);
#define A() tki(t)
      if (!strcmp(w, "compute")) { double f = strtod(tk(t), 0); if (me) smpi_execute_flops(f); }
      else if (!strcmp(w, "sleep")) { long us = A(); if (me) smpi_usleep(us); }
      else if (!strcmp(w, "send")) { int d = A(), tag = A(); long c = A(); if (me) MPI_Send(sbuf, c, dt, d, tag, MPI_COMM_WORLD); }
      else if (!strcmp(w, "isend")) { int d = A(), tag = A(); long c = A(); if (me) MPI_Isend(sbuf, c, dt, d, tag, MPI_COMM_WORLD, &reqs[nreq++]); }
      else if (!strcmp(w, "recv")) { int s = A(), tag = A(); long c = A(); if (me) MPI_Recv(rbuf, c, dt, s, tag, MPI_COMM_WORLD, MPI_STATUS_IGNORE); }
      else if (!strcmp(w, "irecv")) { int s = A(), tag = A(); long c = A(); if (me) MPI_Irecv(rbuf, c, dt, s, tag, MPI_COMM_WORLD, &reqs[nreq++]); }
      else if (!strcmp(w, "wait")) { int s = A(); if (me) { MPI_Wait(&reqs[s], MPI_STATUS_IGNORE); } }
      else if (!strcmp(w, "test")) { int s = A(); if (me) { int flag; MPI_Test(&reqs[s], &flag, MPI_STATUS_IGNORE); } }
      else if (!strcmp(w, "waitall")) { if (me) { MPI_Waitall(nreq, reqs, MPI_STATUSES_IGNORE); nreq = 0; } }
      else if (!strcmp(w, "resetreq")) { if (me) nreq = 0; }
      else if (!strcmp(w, "barrier")) { if (me) MPI_Barrier(MPI_COMM_WORLD); }
      else if (!strcmp(w, "bcast")) { long c = A(); int root = A(); if (me) MPI_Bcast(rbuf, c, dt, root, MPI_COMM_WORLD); }
      else if (!strcmp(w, "reduce")) { long c = A(); int root = A(); if (me) MPI_Reduce(sbuf, rbuf, c, dt, MPI_SUM, root, MPI_COMM_WORLD); }
      else if (!strcmp(w, "allreduce")) { long c = A(); if (me) MPI_Allreduce(sbuf, rbuf, c, dt, MPI_SUM, MPI_COMM_WORLD); }
      else if (!strcmp(w, "scan")) { long c = A(); if (me) MPI_Scan(sbuf, rbuf, c, dt, MPI_SUM, MPI_COMM_WORLD); }
      else if (!strcmp(w, "exscan")) { long c = A(); if (me) MPI_Exscan(sbuf, rbuf, c, dt, MPI_SUM, MPI_COMM_WORLD); }
      else if (!strcmp(w, "alltoall")) { long c = A(); if (me) MPI_Alltoall(sbuf, c, dt, rbuf, c, dt, MPI_COMM_WORLD); }
      else if (!strcmp(w, "allgather")) { long c = A(); if (me) MPI_Allgather(sbuf, c, dt, rbuf, c, dt, MPI_COMM_WORLD); }
      else if (!strcmp(w, "gather")) { long c = A(); int root = A(); if (me) MPI_Gather(sbuf, c, dt, rbuf, c, dt, root, MPI_COMM_WORLD); }
      else if (!strcmp(w, "scatter")) { long c = A(); int root = A(); if (me) MPI_Scatter(sbuf, c, dt, rbuf, c, dt, root, MPI_COMM_WORLD); }
      else if (!strcmp(w, "sendrecv")) { int d = A(); long sc = A(); int s = A(); long rc2 = A(); if (me) MPI_Sendrecv(sbuf, sc, dt, d, 7, rbuf, rc2, dt, s, 7, MPI_COMM_WORLD, MPI_STATUS_IGNORE); }
      else if (!strcmp(w, "allgatherv") || !strcmp(w, "reducescatter") || !strcmp(w, "gatherv") || !strcmp(w, "scatterv")) {
        int root = 0;
        if (!strcmp(w, "gatherv") || !strcmp(w, "scatterv")) root = A();
        int* cc = malloc(np * sizeof(int)); int* dd = malloc(np * sizeof(int)); long tot = 0;
        for (int k = 0; k < np; k++) { cc[k] = A(); dd[k] = tot; tot += cc[k]; }
        if (me) {
          if (!strcmp(w, "allgatherv")) MPI_Allgatherv(sbuf, cc[rank], dt, rbuf, cc, dd, dt, MPI_COMM_WORLD);
          else if (!strcmp(w, "gatherv")) MPI_Gatherv(sbuf, cc[rank], dt, rbuf, cc, dd, dt, root, MPI_COMM_WORLD);
          else if (!strcmp(w, "scatterv")) MPI_Scatterv(sbuf, cc, dd, dt, rbuf, cc[rank], dt, root, MPI_COMM_WORLD);
          else MPI_Reduce_scatter(sbuf, rbuf, cc, dt, MPI_SUM, MPI_COMM_WORLD);
        }
        free(cc); free(dd);
      } else if (!strcmp(w, "alltoallv")) { /* np send counts then np recv counts for this rank */
        long ts = 0, tr = 0;
        for (int k = 0; k < np; k++) { cnts[k] = A(); dsp[k] = ts; ts += cnts[k]; }
        for (int k = 0; k < np; k++) { cnts2[k] = A(); dsp2[k] = tr; tr += cnts2[k]; }
        if (me) MPI_Alltoallv(sbuf, cnts, dsp, dt, rbuf, cnts2, dsp2, dt, MPI_COMM_WORLD);
      } else { fprintf(stderr, "mpicoll: unknown replay op %s\n", w); exit(3); }
      if (me) printf("A %d %d %a\n", rank, i, MPI_Wtime());      /* completion date of every op, to locate a divergence */
    }
  }
  printf("F %d %a\n", rank, MPI_Wtime());
  free(sbuf); free(rbuf); free(cnts); free(dsp); free(cnts2); free(dsp2);
  return 0;
}

/* Fatal signals: say which rank was running (the handler executes in the context of the crashing actor), then die
 * with the original signal.  Lets the oracle blame the call that rank was in instead of the last call entered. */
#include <signal.h>
#include <unistd.h>
#include <simgrid/actor.h>
static void fatal_signal(int sig)
{
  int r = -1;
  signal(sig, SIG_DFL);
  r = (int)sg_actor_self_get_pid() - 1;      /* ranks are actors 1..np; no MPI call in here */
  char line[64];
  int len = snprintf(line, sizeof line, "\nK %d %d\n", r, sig);
  if (write(1, line, len) < 0) {}
  raise(sig);
}

int main(int argc, char** argv)
{
  setvbuf(stdout, 0, _IOLBF, 1 << 16); /* an abort must not lose the observations of completed calls */
  MPI_Init(&argc, &argv);
  int rank, np;
  {
    struct sigaction sa;
    memset(&sa, 0, sizeof sa);
    sa.sa_handler = fatal_signal;
    sa.sa_flags = SA_ONSTACK | SA_NODEFER;
    sigaction(SIGSEGV, &sa, 0); sigaction(SIGBUS, &sa, 0); sigaction(SIGFPE, &sa, 0); sigaction(SIGABRT, &sa, 0);
  }
  MPI_Comm_rank(MPI_COMM_WORLD, &rank);
  MPI_Comm_size(MPI_COMM_WORLD, &np);
  if (argc < 2) { fprintf(stderr, "usage: mpicoll <plan>\n"); MPI_Abort(MPI_COMM_WORLD, 3); }
  toks_t t = load_tokens(argv[1]);
  if (strcmp(tk(&t), "mode")) { fprintf(stderr, "mpicoll: plan must start with mode\n"); exit(3); }
  const char* mode = tk(&t);
  if (strcmp(tk(&t), "np") || tki(&t) != np) { fprintf(stderr, "mpicoll: np mismatch\n"); exit(3); }
  if (np > MAXNP) { fprintf(stderr, "mpicoll: np too large\n"); exit(3); }
  if (!strcmp(mode, "coll")) run_coll(&t, rank, np);
  else if (!strcmp(mode, "rma")) run_rma(&t, rank, np);
  else if (!strcmp(mode, "replay")) run_replay(&t, rank, np);
  else { fprintf(stderr, "mpicoll: unknown mode %s\n", mode); exit(3); }
  printf("D %d\n", rank);
  fflush(stdout);
  MPI_Finalize();
  return 0;
}
