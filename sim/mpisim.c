/* mpisim: generated-plan MPI interpreter (engine C of /verif).
 *
 * usage (under smpimain / smpirun):  mpisim <plan-file>
 *
 * Plan (text):   np <N>
 *                rank <r>
 *                <op> <int args...>          one op per line, see the big switch in run_op()
 *                end
 * Every rank parses only its own section. The interpreter draws nothing at random and reads no real clock.
 *
 * Log (stdout, line buffered, one line per executed op, written when the op returns):
 *                <rank> <opidx> <opname> <MPI_Wtime as %a> <results...>
 * Lines of all ranks interleave in execution order (= simulated-time order: the kernel runs ranks one at a time).
 * Pointers are never logged.
 *
 * Slots: comm c (0 = MPI_COMM_WORLD, 1 = MPI_COMM_SELF), group g (-1 = MPI_GROUP_EMPTY), datatype t (0..6 predefined:
 * BYTE CHAR SHORT INT DOUBLE LONG_LONG FLOAT), buffer b, request q.
 *
 * Byte patterns (shared with lib/mpicommon.py): TAB is an LCG byte table of prime period M;
 *   message m:  P(m,pos) = TAB[(m*7919 + pos) % M] ^ (m*31 & 255)
 *   canary:     C(rank,b,pos) = TAB[(pos + 977*b + 131*rank + 7) % M] ^ 0x5a
 *   poison:     Q(pos) = TAB[(pos + 31337) % M] ^ 0xff
 */
#include <mpi.h>
#include <stdio.h>
#include <stdlib.h>
#include <string.h>
#include <stdarg.h>
#include <unistd.h>
#include <time.h>

#define TABM 65521
#define MAXC 48
#define MAXG 96
#define MAXT 256
#define MAXB 48
#define MAXQ 96
#define MAXARGS 80
#define NPOOL 4
#define POOLSZ 4096

/* ---- privatised globals under test (C36) ------------------------------------------------------------- */
int g_i               = 12345;          /* .data  */
static long long s_ll = -7;             /* .data, static */
double g_d;                             /* .bss   */
static unsigned char s_arr[64];         /* .bss, static */
int g_tab[32] = {1, 2, 3};              /* .data  */
unsigned char g_pool[NPOOL][POOLSZ];    /* global message buffers (buffer kind 1, even pool index) */
static unsigned char s_pool[NPOOL][POOLSZ]; /* static message buffers (odd pool index) */

typedef struct {
  char name[20];
  int n;
  long long a[MAXARGS];
} op_t;

typedef struct {
  int rank, np;
  MPI_Comm comm[MAXC];
  MPI_Group grp[MAXG];
  MPI_Datatype typ[MAXT];
  unsigned char* buf[MAXB];
  size_t bsz[MAXB];
  int bkind[MAXB];
  int nsh[MAXB];
  size_t* sh[MAXB]; /* shared block offsets for kind 2 */
  MPI_Request req[MAXQ];
  int reqtype[MAXQ];
  int probe_flag, probe_src, probe_tag;
  char* line;
  size_t len, cap;
  unsigned char* tab;
  void* battach;
  int gvars;      /* C36: snapshot the privatised globals right after every MPI communication call returns */
  int snapped;
  char snap[256];
} st_t;

static void die(const char* fmt, ...)
{
  va_list ap;
  va_start(ap, fmt);
  fprintf(stderr, "MPISIM-FATAL: ");
  vfprintf(stderr, fmt, ap);
  fprintf(stderr, "\n");
  va_end(ap);
  fflush(stderr);
  _exit(97);
}

static void lg(st_t* s, const char* fmt, ...)
{
  for (;;) {
    va_list ap;
    va_start(ap, fmt);
    int n = vsnprintf(s->line + s->len, s->cap - s->len, fmt, ap);
    va_end(ap);
    if (n < 0)
      die("vsnprintf");
    if ((size_t)n < s->cap - s->len) {
      s->len += (size_t)n;
      return;
    }
    s->cap = (s->cap + (size_t)n) * 2;
    s->line = realloc(s->line, s->cap);
    if (!s->line)
      die("oom");
  }
}

static void lg_reserve(st_t* s, size_t extra)
{
  if (s->cap - s->len < extra + 1) {
    s->cap = (s->cap + extra) * 2;
    s->line = realloc(s->line, s->cap);
    if (!s->line)
      die("oom");
  }
}

static void flushline(st_t* s)
{
  lg(s, "\n");
  size_t off = 0;
  while (off < s->len) {
    ssize_t w = write(1, s->line + off, s->len - off);
    if (w <= 0)
      die("write failed");
    off += (size_t)w;
  }
  s->len = 0;
}

static inline unsigned char pat_msg(const st_t* s, long long m, size_t pos)
{
  return (unsigned char)(s->tab[((size_t)((m * 7919) % TABM) + pos % TABM) % TABM] ^ (unsigned char)((m * 31) & 255));
}
static inline unsigned char pat_canary(const st_t* s, int b, size_t pos)
{
  return (unsigned char)(s->tab[(pos % TABM + 977u * (unsigned)b + 131u * (unsigned)s->rank + 7u) % TABM] ^ 0x5a);
}
static inline unsigned char pat_poison(const st_t* s, size_t pos)
{
  return (unsigned char)(s->tab[(pos % TABM + 31337u) % TABM] ^ 0xff);
}

static int is_shared_byte(const st_t* s, int b, size_t pos)
{
  for (int i = 0; i < s->nsh[b]; i++)
    if (pos >= s->sh[b][2 * i] && pos < s->sh[b][2 * i + 1])
      return 1;
  return 0;
}

static MPI_Datatype T(st_t* s, long long t)
{
  if (t < 0 || t >= MAXT || s->typ[t] == MPI_DATATYPE_NULL)
    die("bad type slot %lld", t);
  return s->typ[t];
}
static MPI_Comm C(st_t* s, long long c)
{
  if (c < 0 || c >= MAXC)
    die("bad comm slot %lld", c);
  return s->comm[c];
}
static MPI_Group G(st_t* s, long long g)
{
  if (g == -1)
    return MPI_GROUP_EMPTY;
  if (g < 0 || g >= MAXG)
    die("bad group slot %lld", g);
  return s->grp[g];
}
static unsigned char* B(st_t* s, long long b, long long off)
{
  if (b < 0 || b >= MAXB || !s->buf[b] || off < 0 || (size_t)off > s->bsz[b])
    die("bad buffer %lld+%lld", b, off);
  return s->buf[b] + off;
}
static int SRC(long long v) { return v == -1 ? MPI_ANY_SOURCE : (v == -2 ? MPI_PROC_NULL : (int)v); }
static int TAG(long long v) { return v == -1 ? MPI_ANY_TAG : (int)v; }
static long long usrc(int v) { return v == MPI_ANY_SOURCE ? -1 : (v == MPI_PROC_NULL ? -2 : (v == MPI_UNDEFINED ? -3 : v)); }
static long long utag(int v) { return v == MPI_ANY_TAG ? -1 : (v == MPI_UNDEFINED ? -3 : v); }

/* error codes -> small stable names */
static const char* ecls(int rc)
{
  if (rc == MPI_SUCCESS)
    return "ok";
  if (rc == MPI_ERR_TRUNCATE)
    return "trunc";
  if (rc == MPI_ERR_IN_STATUS)
    return "instatus";
  if (rc == MPI_ERR_PENDING)
    return "pending";
  if (rc == MPI_ERR_TYPE)
    return "type";
  if (rc == MPI_ERR_OTHER)
    return "other";
  static char b[8][24];
  static int k;
  k = (k + 1) & 7;
  snprintf(b[k], sizeof b[k], "err%d", rc);
  return b[k];
}

/* status -> " S <source> <tag> <error> <count_bytes> <count_in_type|u|-> <cancelled>" */
static void lg_status(st_t* s, MPI_Status* st, int tslot)
{
  int cb = -9, ct = -9, canc = 0;
  MPI_Get_count(st, MPI_BYTE, &cb);
  if (tslot >= 0 && s->typ[tslot] != MPI_DATATYPE_NULL) {
    int sz = 0;
    MPI_Type_size(s->typ[tslot], &sz);
    if (sz > 0)
      MPI_Get_count(st, s->typ[tslot], &ct);
  }
  MPI_Test_cancelled(st, &canc);
  lg(s, " S %lld %lld %s %d", usrc(st->MPI_SOURCE), utag(st->MPI_TAG), ecls(st->MPI_ERROR), cb);
  if (ct == -9)
    lg(s, " -");
  else if (ct == MPI_UNDEFINED)
    lg(s, " u");
  else
    lg(s, " %d", ct);
  lg(s, " %d", canc);
}

static void clear_status(MPI_Status* st)
{
  memset(st, 0, sizeof *st);
  st->MPI_SOURCE = -77;
  st->MPI_TAG    = -77;
  st->MPI_ERROR  = MPI_SUCCESS;
}

/* members of a group as world ranks: " [n r0 r1 ...]" */
static void lg_group(st_t* s, MPI_Group g)
{
  int n = 0;
  MPI_Group_size(g, &n);
  lg(s, " [%d", n);
  if (n > 0) {
    MPI_Group wg;
    MPI_Comm_group(MPI_COMM_WORLD, &wg);
    int* in  = malloc(sizeof(int) * (size_t)n);
    int* out = malloc(sizeof(int) * (size_t)n);
    for (int i = 0; i < n; i++)
      in[i] = i;
    MPI_Group_translate_ranks(g, n, in, wg, out);
    for (int i = 0; i < n; i++)
      lg(s, " %lld", usrc(out[i]));
    free(in);
    free(out);
    MPI_Group_free(&wg);
  }
  lg(s, "]");
}

static void lg_comm(st_t* s, MPI_Comm c)
{
  if (c == MPI_COMM_NULL) {
    lg(s, " null");
    return;
  }
  int sz = -1, rk = -1;
  MPI_Comm_size(c, &sz);
  MPI_Comm_rank(c, &rk);
  MPI_Group g;
  MPI_Comm_group(c, &g);
  lg(s, " %d %d", sz, rk);
  lg_group(s, g);
  MPI_Group_free(&g);
  MPI_Comm_set_errhandler(c, MPI_ERRORS_RETURN);
}

static void set_globals(st_t* s, long long k)
{
  long long r = s->rank;
  g_i         = (int)(r * 100003 + k * 17 + 1);
  s_ll        = r * 1000000007LL + k * 31 + 2;
  g_d         = (double)(r * 4096 + k) + 0.5;
  for (int i = 0; i < 64; i++)
    s_arr[i] = (unsigned char)(r * 37 + k * 11 + i);
  for (int i = 0; i < 32; i++)
    g_tab[i] = (int)(r * 7919 + k * 13 + i);
}

static int* fn_static(void)
{
  static int fs = 99;
  return &fs;
}

static void lg_globals(st_t* s)
{
  unsigned h = 2166136261u;
  for (int i = 0; i < 64; i++)
    h = (h ^ s_arr[i]) * 16777619u;
  unsigned h2 = 2166136261u;
  for (int i = 0; i < 32; i++)
    h2 = (h2 ^ (unsigned)g_tab[i]) * 16777619u;
  lg(s, " %d %lld %a %u %u %d %u %d", g_i, s_ll, g_d, h, h2, *fn_static(), (unsigned)s_arr[0], g_tab[0]);
}

static void snap_globals(st_t* s)
{
  if (!s->gvars)
    return;
  unsigned h = 2166136261u;
  for (int i = 0; i < 64; i++)
    h = (h ^ s_arr[i]) * 16777619u;
  unsigned h2 = 2166136261u;
  for (int i = 0; i < 32; i++)
    h2 = (h2 ^ (unsigned)g_tab[i]) * 16777619u;
  snprintf(s->snap, sizeof s->snap, " G %d %lld %a %u %u %d %u %d", g_i, s_ll, g_d, h, h2, *fn_static(), (unsigned)s_arr[0], g_tab[0]);
  s->snapped = 1;
}
#define SNAP snap_globals(s)

static void run_op(st_t* s, int idx, op_t* o)
{
  const char* nm = o->name;
  long long* a   = o->a;
  int rc         = 0;
  MPI_Status st;
  clear_status(&st);
#define NEED(k)                                                                                                        \
  if (o->n < (k))                                                                                                      \
  die("op %d %s: need %d args, got %d", idx, nm, (k), o->n)
#define IS(x) (strcmp(nm, x) == 0)
  /* ------------------------------------------------------------------ buffers */
  if (IS("alloc")) { /* alloc b kind size [nblocks o0 o1 ...]   kind 0 heap, 1 global/static pool, 2 partial shared */
    NEED(3);
    int b         = (int)a[0];
    size_t size   = (size_t)a[2];
    s->bkind[b]   = (int)a[1];
    s->bsz[b]     = size;
    s->nsh[b]     = 0;
    if (a[1] == 0) {
      s->buf[b] = malloc(size ? size : 1);
    } else if (a[1] == 1) {
      if (size > POOLSZ)
        die("pool buffer too large");
      int p     = (b / 2) % NPOOL;
      s->buf[b] = (b & 1) ? s_pool[p] : g_pool[p];
    } else {
      NEED(4);
      int nb = (int)a[3];
      NEED(4 + 2 * nb);
      s->nsh[b] = nb;
      s->sh[b]  = malloc(sizeof(size_t) * 2 * (size_t)(nb ? nb : 1));
      for (int i = 0; i < 2 * nb; i++)
        s->sh[b][i] = (size_t)a[4 + i];
      s->buf[b] = SMPI_PARTIAL_SHARED_MALLOC(size, s->sh[b], nb);
    }
    if (!s->buf[b])
      die("alloc failed");
    for (size_t i = 0; i < size; i++)
      if (!is_shared_byte(s, b, i))
        s->buf[b][i] = pat_canary(s, b, i);
  } else if (IS("free")) {
    NEED(1);
    int b = (int)a[0];
    if (s->bkind[b] == 0)
      free(s->buf[b]);
    else if (s->bkind[b] == 2)
      SMPI_SHARED_FREE(s->buf[b]);
    s->buf[b] = NULL;
  } else if (IS("fill")) { /* fill b off len msgid */
    NEED(4);
    unsigned char* p = B(s, a[0], a[1]);
    for (size_t i = 0; i < (size_t)a[2]; i++)
      p[i] = pat_msg(s, a[3], i);
  } else if (IS("poison")) {
    NEED(3);
    unsigned char* p = B(s, a[0], a[1]);
    for (size_t i = 0; i < (size_t)a[2]; i++)
      p[i] = pat_poison(s, i);
  } else if (IS("canary")) { /* shared bytes of partial-shared buffers are written too (content irrelevant) */
    NEED(3);
    unsigned char* p = B(s, a[0], a[1]);
    for (size_t i = 0; i < (size_t)a[2]; i++)
      p[i] = pat_canary(s, (int)a[0], (size_t)a[1] + i);
  } else if (IS("dump")) { /* dump b off len -> runs differing from the canary: " D <n> <pos>:<hex> ..." (shared bytes skipped) */
    NEED(3);
    int b            = (int)a[0];
    unsigned char* p = B(s, a[0], a[1]);
    size_t off = (size_t)a[1], len = (size_t)a[2];
    if (off + len > s->bsz[b])
      die("dump out of range");
    static const char hx[] = "0123456789abcdef";
    size_t nruns = 0, i = 0;
    size_t mark = s->len;
    lg(s, " D          ");
    while (i < len) {
      if (is_shared_byte(s, b, off + i) || p[i] == pat_canary(s, b, off + i)) {
        i++;
        continue;
      }
      size_t j = i;
      while (j < len && !is_shared_byte(s, b, off + j) && p[j] != pat_canary(s, b, off + j))
        j++;
      lg(s, " %zu:", off + i);
      lg_reserve(s, 2 * (j - i) + 2);
      for (size_t k = i; k < j; k++) {
        s->line[s->len++] = hx[p[k] >> 4];
        s->line[s->len++] = hx[p[k] & 15];
      }
      s->line[s->len] = 0;
      nruns++;
      i = j;
    }
    char tmp[16];
    int w = snprintf(tmp, sizeof tmp, "%zu", nruns);
    memcpy(s->line + mark + 3, tmp, (size_t)w);
  }
  /* ------------------------------------------------------------------ point to point */
  else if (IS("send")) { /* send mode b off count t dst tag c q   mode 0 Send 1 Ssend 2 Bsend 3 Rsend 4 Isend 5 Issend 6 Ibsend 7 Irsend */
    NEED(9);
    void* p        = B(s, a[1], a[2]);
    int cnt        = (int)a[3];
    MPI_Datatype t = T(s, a[4]);
    int dst = SRC(a[5]), tag = (int)a[6];
    MPI_Comm c = C(s, a[7]);
    int q      = (int)a[8];
    switch (a[0]) {
      case 0: rc = MPI_Send(p, cnt, t, dst, tag, c); SNAP; break;
      case 1: rc = MPI_Ssend(p, cnt, t, dst, tag, c); SNAP; break;
      case 2: rc = MPI_Bsend(p, cnt, t, dst, tag, c); SNAP; break;
      case 3: rc = MPI_Rsend(p, cnt, t, dst, tag, c); SNAP; break;
      case 4: rc = MPI_Isend(p, cnt, t, dst, tag, c, &s->req[q]); SNAP; break;
      case 5: rc = MPI_Issend(p, cnt, t, dst, tag, c, &s->req[q]); SNAP; break;
      case 6: rc = MPI_Ibsend(p, cnt, t, dst, tag, c, &s->req[q]); SNAP; break;
      case 7: rc = MPI_Irsend(p, cnt, t, dst, tag, c, &s->req[q]); SNAP; break;
      default: die("bad send mode");
    }
    if (a[0] >= 4)
      s->reqtype[q] = -1;
    lg(s, " %s", ecls(rc));
  } else if (IS("recv")) { /* recv mode b off count t src tag c q flags   mode 0 Recv 1 Irecv; flags&1: take (src,tag) from last successful probe */
    NEED(10);
    void* p        = B(s, a[1], a[2]);
    int cnt        = (int)a[3];
    MPI_Datatype t = T(s, a[4]);
    int src = SRC(a[5]), tag = TAG(a[6]);
    MPI_Comm c = C(s, a[7]);
    int q      = (int)a[8];
    if ((a[9] & 1) && s->probe_flag) {
      src = s->probe_src;
      tag = s->probe_tag;
    }
    lg(s, " %lld %lld", usrc(src), utag(tag));
    if (a[0] == 0) {
      rc = MPI_Recv(p, cnt, t, src, tag, c, &st);
    SNAP;
      lg(s, " %s", ecls(rc));
      lg_status(s, &st, (int)a[4]);
    } else {
      rc            = MPI_Irecv(p, cnt, t, src, tag, c, &s->req[q]);
    SNAP;
      s->reqtype[q] = (int)a[4];
      lg(s, " %s", ecls(rc));
    }
    s->probe_flag = 0;
  } else if (IS("sendrecv")) { /* sendrecv sb soff scount st dst stag rb roff rcount rt src rtag c */
    NEED(13);
    rc = MPI_Sendrecv(B(s, a[0], a[1]), (int)a[2], T(s, a[3]), SRC(a[4]), (int)a[5], B(s, a[6], a[7]), (int)a[8],
                      T(s, a[9]), SRC(a[10]), TAG(a[11]), C(s, a[12]), &st);
    SNAP;
    lg(s, " %s", ecls(rc));
    lg_status(s, &st, (int)a[9]);
  } else if (IS("probe")) { /* probe src tag c */
    NEED(3);
    rc = MPI_Probe(SRC(a[0]), TAG(a[1]), C(s, a[2]), &st);
    SNAP;
    lg(s, " %s 1", ecls(rc));
    lg_status(s, &st, -1);
    s->probe_flag = 1;
    s->probe_src  = st.MPI_SOURCE;
    s->probe_tag  = st.MPI_TAG;
  } else if (IS("iprobe")) {
    NEED(3);
    int flag = 0;
    rc       = MPI_Iprobe(SRC(a[0]), TAG(a[1]), C(s, a[2]), &flag, &st);
    SNAP;
    lg(s, " %s %d", ecls(rc), flag);
    if (flag) {
      lg_status(s, &st, -1);
      s->probe_flag = 1;
      s->probe_src  = st.MPI_SOURCE;
      s->probe_tag  = st.MPI_TAG;
    } else
      s->probe_flag = 0;
  } else if (IS("wait")) {
    NEED(1);
    int q   = (int)a[0];
    int was = s->req[q] != MPI_REQUEST_NULL;
    rc      = MPI_Wait(&s->req[q], &st);
    SNAP;
    lg(s, " %s %d", ecls(rc), was);
    lg_status(s, &st, s->reqtype[q]);
  } else if (IS("test")) {
    NEED(1);
    int q = (int)a[0], flag = 0;
    int was = s->req[q] != MPI_REQUEST_NULL;
    rc      = MPI_Test(&s->req[q], &flag, &st);
    SNAP;
    lg(s, " %s %d %d", ecls(rc), was, flag);
    if (flag)
      lg_status(s, &st, s->reqtype[q]);
  } else if (IS("waitall") || IS("testall") || IS("waitany") || IS("waitsome")) { /* <op> n q0 q1 ... */
    NEED(1);
    int n = (int)a[0];
    NEED(1 + n);
    MPI_Request* rq = malloc(sizeof(MPI_Request) * (size_t)(n ? n : 1));
    MPI_Status* sts = malloc(sizeof(MPI_Status) * (size_t)(n ? n : 1));
    int* idxs       = malloc(sizeof(int) * (size_t)(n ? n : 1));
    for (int i = 0; i < n; i++) {
      rq[i] = s->req[a[1 + i]];
      clear_status(&sts[i]);
    }
    if (IS("waitall")) {
      rc = MPI_Waitall(n, rq, sts);
    SNAP;
      lg(s, " %s", ecls(rc));
      for (int i = 0; i < n; i++)
        lg_status(s, &sts[i], s->reqtype[a[1 + i]]);
    } else if (IS("testall")) {
      int flag = 0;
      rc       = MPI_Testall(n, rq, &flag, sts);
    SNAP;
      lg(s, " %s %d", ecls(rc), flag);
      if (flag)
        for (int i = 0; i < n; i++)
          lg_status(s, &sts[i], s->reqtype[a[1 + i]]);
    } else if (IS("waitany")) {
      int ix = -5;
      rc     = MPI_Waitany(n, rq, &ix, &st);
    SNAP;
      lg(s, " %s %lld", ecls(rc), utag(ix));
      if (ix >= 0 && ix < n)
        lg_status(s, &st, s->reqtype[a[1 + ix]]);
    } else {
      int outc = -5;
      rc       = MPI_Waitsome(n, rq, &outc, idxs, sts);
    SNAP;
      lg(s, " %s %lld", ecls(rc), utag(outc));
      for (int i = 0; i < outc && outc <= n; i++) {
        lg(s, " @%d", idxs[i]);
        lg_status(s, &sts[i], s->reqtype[a[1 + idxs[i]]]);
      }
    }
    for (int i = 0; i < n; i++)
      s->req[a[1 + i]] = rq[i];
    free(rq);
    free(sts);
    free(idxs);
  } else if (IS("battach")) {
    NEED(1);
    s->battach = malloc((size_t)a[0] + MPI_BSEND_OVERHEAD);
    rc         = MPI_Buffer_attach(s->battach, (int)a[0] + MPI_BSEND_OVERHEAD);
    lg(s, " %s", ecls(rc));
  } else if (IS("bdetach")) {
    void* p = NULL;
    int sz  = 0;
    rc      = MPI_Buffer_detach(&p, &sz);
    free(s->battach);
    s->battach = NULL;
    lg(s, " %s", ecls(rc));
  } else if (IS("barrier")) {
    NEED(1);
    rc = MPI_Barrier(C(s, a[0]));
    SNAP;
    lg(s, " %s", ecls(rc));
  } else if (IS("exec")) { /* exec flops */
    NEED(1);
    smpi_execute_flops((double)a[0]);
    SNAP;
  } else if (IS("sleep")) { /* sleep nanoseconds (simulated) */
    NEED(1);
    struct timespec ts;
    ts.tv_sec  = (time_t)(a[0] / 1000000000LL);
    ts.tv_nsec = (long)(a[0] % 1000000000LL);
    nanosleep(&ts, NULL);
    SNAP;
  }
  /* ------------------------------------------------------------------ communicators and groups */
  else if (IS("csplit")) { /* csplit cnew cold color key   (color -1 = MPI_UNDEFINED) */
    NEED(4);
    rc = MPI_Comm_split(C(s, a[1]), a[2] == -1 ? MPI_UNDEFINED : (int)a[2], (int)a[3], &s->comm[a[0]]);
    SNAP;
    lg(s, " %s", ecls(rc));
    lg_comm(s, s->comm[a[0]]);
  } else if (IS("cdup")) {
    NEED(2);
    rc = MPI_Comm_dup(C(s, a[1]), &s->comm[a[0]]);
    SNAP;
    lg(s, " %s", ecls(rc));
    lg_comm(s, s->comm[a[0]]);
  } else if (IS("ccreate")) { /* ccreate cnew cold g */
    NEED(3);
    rc = MPI_Comm_create(C(s, a[1]), G(s, a[2]), &s->comm[a[0]]);
    SNAP;
    lg(s, " %s", ecls(rc));
    lg_comm(s, s->comm[a[0]]);
  } else if (IS("cfree")) {
    NEED(1);
    rc = MPI_Comm_free(&s->comm[a[0]]);
    lg(s, " %s", ecls(rc));
  } else if (IS("cinfo")) {
    NEED(1);
    lg_comm(s, C(s, a[0]));
  } else if (IS("ccmp")) {
    NEED(2);
    int res = -9;
    rc      = MPI_Comm_compare(C(s, a[0]), C(s, a[1]), &res);
    lg(s, " %s %s", ecls(rc),
       res == MPI_IDENT ? "ident" : res == MPI_CONGRUENT ? "congruent" : res == MPI_SIMILAR ? "similar" : res == MPI_UNEQUAL ? "unequal" : "?");
  } else if (IS("cgroup")) { /* cgroup gnew c */
    NEED(2);
    rc = MPI_Comm_group(C(s, a[1]), &s->grp[a[0]]);
    lg(s, " %s", ecls(rc));
    lg_group(s, s->grp[a[0]]);
  } else if (IS("gincl") || IS("gexcl")) { /* gincl gnew g n r... */
    NEED(3);
    int n = (int)a[2];
    NEED(3 + n);
    int* r = malloc(sizeof(int) * (size_t)(n ? n : 1));
    for (int i = 0; i < n; i++)
      r[i] = (int)a[3 + i];
    rc = IS("gincl") ? MPI_Group_incl(G(s, a[1]), n, r, &s->grp[a[0]]) : MPI_Group_excl(G(s, a[1]), n, r, &s->grp[a[0]]);
    free(r);
    lg(s, " %s", ecls(rc));
    lg_group(s, s->grp[a[0]]);
  } else if (IS("grincl") || IS("grexcl")) { /* grincl gnew g n f l s ... */
    NEED(3);
    int n = (int)a[2];
    NEED(3 + 3 * n);
    int(*r)[3] = malloc(sizeof(int[3]) * (size_t)(n ? n : 1));
    for (int i = 0; i < n; i++)
      for (int k = 0; k < 3; k++)
        r[i][k] = (int)a[3 + 3 * i + k];
    rc = IS("grincl") ? MPI_Group_range_incl(G(s, a[1]), n, r, &s->grp[a[0]])
                      : MPI_Group_range_excl(G(s, a[1]), n, r, &s->grp[a[0]]);
    free(r);
    lg(s, " %s", ecls(rc));
    lg_group(s, s->grp[a[0]]);
  } else if (IS("gunion") || IS("ginter") || IS("gdiff")) { /* gunion gnew g1 g2 */
    NEED(3);
    if (IS("gunion"))
      rc = MPI_Group_union(G(s, a[1]), G(s, a[2]), &s->grp[a[0]]);
    else if (IS("ginter"))
      rc = MPI_Group_intersection(G(s, a[1]), G(s, a[2]), &s->grp[a[0]]);
    else
      rc = MPI_Group_difference(G(s, a[1]), G(s, a[2]), &s->grp[a[0]]);
    lg(s, " %s", ecls(rc));
    lg_group(s, s->grp[a[0]]);
  } else if (IS("gtrans")) { /* gtrans g1 g2 n r... */
    NEED(3);
    int n = (int)a[2];
    NEED(3 + n);
    int* r   = malloc(sizeof(int) * (size_t)(n ? n : 1));
    int* out = malloc(sizeof(int) * (size_t)(n ? n : 1));
    for (int i = 0; i < n; i++) {
      r[i]   = (int)a[3 + i];
      out[i] = -99;
    }
    rc = MPI_Group_translate_ranks(G(s, a[0]), n, r, G(s, a[1]), out);
    lg(s, " %s", ecls(rc));
    for (int i = 0; i < n; i++)
      lg(s, " %lld", usrc(out[i]));
    free(r);
    free(out);
  } else if (IS("gcmp")) {
    NEED(2);
    int res = -9;
    rc      = MPI_Group_compare(G(s, a[0]), G(s, a[1]), &res);
    lg(s, " %s %s", ecls(rc), res == MPI_IDENT ? "ident" : res == MPI_SIMILAR ? "similar" : res == MPI_UNEQUAL ? "unequal" : "?");
  } else if (IS("ginfo")) {
    NEED(1);
    int sz = -9, rk = -9;
    MPI_Group_size(G(s, a[0]), &sz);
    MPI_Group_rank(G(s, a[0]), &rk);
    lg(s, " %d %lld", sz, usrc(rk));
    lg_group(s, G(s, a[0]));
  } else if (IS("gfree")) {
    NEED(1);
    if (s->grp[a[0]] != MPI_GROUP_EMPTY && s->grp[a[0]] != MPI_GROUP_NULL)
      rc = MPI_Group_free(&s->grp[a[0]]);
    lg(s, " %s", ecls(rc));
  }
  /* ------------------------------------------------------------------ datatypes */
  else if (IS("tcontig")) { /* tcontig tnew count told */
    NEED(3);
    rc = MPI_Type_contiguous((int)a[1], T(s, a[2]), &s->typ[a[0]]);
    goto newtype;
  } else if (IS("tvector")) { /* tvector tnew count bl stride told */
    NEED(5);
    rc = MPI_Type_vector((int)a[1], (int)a[2], (int)a[3], T(s, a[4]), &s->typ[a[0]]);
    goto newtype;
  } else if (IS("thvector")) {
    NEED(5);
    rc = MPI_Type_create_hvector((int)a[1], (int)a[2], (MPI_Aint)a[3], T(s, a[4]), &s->typ[a[0]]);
    goto newtype;
  } else if (IS("tindexed") || IS("thindexed")) { /* tindexed tnew n bl... disp... told */
    NEED(2);
    int n = (int)a[1];
    NEED(3 + 2 * n);
    int* bl      = malloc(sizeof(int) * (size_t)(n ? n : 1));
    int* di      = malloc(sizeof(int) * (size_t)(n ? n : 1));
    MPI_Aint* da = malloc(sizeof(MPI_Aint) * (size_t)(n ? n : 1));
    for (int i = 0; i < n; i++) {
      bl[i] = (int)a[2 + i];
      di[i] = (int)a[2 + n + i];
      da[i] = (MPI_Aint)a[2 + n + i];
    }
    if (IS("tindexed"))
      rc = MPI_Type_indexed(n, bl, di, T(s, a[2 + 2 * n]), &s->typ[a[0]]);
    else
      rc = MPI_Type_create_hindexed(n, bl, da, T(s, a[2 + 2 * n]), &s->typ[a[0]]);
    free(bl);
    free(di);
    free(da);
    goto newtype;
  } else if (IS("tindexed_block")) { /* tindexed_block tnew n bl disp... told */
    NEED(3);
    int n = (int)a[1];
    NEED(4 + n);
    int* di = malloc(sizeof(int) * (size_t)(n ? n : 1));
    for (int i = 0; i < n; i++)
      di[i] = (int)a[3 + i];
    rc = MPI_Type_create_indexed_block(n, (int)a[2], di, T(s, a[3 + n]), &s->typ[a[0]]);
    free(di);
    goto newtype;
  } else if (IS("tstruct")) { /* tstruct tnew n bl... disp... types... */
    NEED(2);
    int n = (int)a[1];
    NEED(2 + 3 * n);
    int* bl          = malloc(sizeof(int) * (size_t)(n ? n : 1));
    MPI_Aint* da     = malloc(sizeof(MPI_Aint) * (size_t)(n ? n : 1));
    MPI_Datatype* ty = malloc(sizeof(MPI_Datatype) * (size_t)(n ? n : 1));
    for (int i = 0; i < n; i++) {
      bl[i] = (int)a[2 + i];
      da[i] = (MPI_Aint)a[2 + n + i];
      ty[i] = T(s, a[2 + 2 * n + i]);
    }
    rc = MPI_Type_create_struct(n, bl, da, ty, &s->typ[a[0]]);
    free(bl);
    free(da);
    free(ty);
    goto newtype;
  } else if (IS("tresized")) { /* tresized tnew told lb extent */
    NEED(4);
    rc = MPI_Type_create_resized(T(s, a[1]), (MPI_Aint)a[2], (MPI_Aint)a[3], &s->typ[a[0]]);
    goto newtype;
  } else if (IS("tsubarray")) { /* tsubarray tnew ndims sizes... subsizes... starts... order(0=C,1=F) told */
    NEED(2);
    int n = (int)a[1];
    NEED(4 + 3 * n);
    int* sz = malloc(sizeof(int) * 3 * (size_t)(n ? n : 1));
    for (int i = 0; i < 3 * n; i++)
      sz[i] = (int)a[2 + i];
    rc = MPI_Type_create_subarray(n, sz, sz + n, sz + 2 * n, a[2 + 3 * n] ? MPI_ORDER_FORTRAN : MPI_ORDER_C,
                                  T(s, a[3 + 3 * n]), &s->typ[a[0]]);
    free(sz);
    goto newtype;
  } else if (IS("tfree")) {
    NEED(1);
    rc = MPI_Type_free(&s->typ[a[0]]);
    lg(s, " %s", ecls(rc));
  } else if (IS("tinfo")) { /* tinfo t -> size lb extent true_lb true_extent type_lb type_ub */
    NEED(1);
  tinfo:;
    MPI_Datatype t = T(s, a[0]);
    int size       = -9;
    MPI_Aint lb = -9, ext = -9, tlb = -9, text = -9, dlb = -9, dub = -9;
    MPI_Type_size(t, &size);
    MPI_Type_get_extent(t, &lb, &ext);
    MPI_Type_get_true_extent(t, &tlb, &text);
    MPI_Type_lb(t, &dlb);
    MPI_Type_ub(t, &dub);
    lg(s, " %d %ld %ld %ld %ld %ld %ld", size, (long)lb, (long)ext, (long)tlb, (long)text, (long)dlb, (long)dub);
  } else if (IS("packsize")) { /* packsize count t c */
    NEED(3);
    int sz = -9;
    rc     = MPI_Pack_size((int)a[0], T(s, a[1]), C(s, a[2]), &sz);
    lg(s, " %s %d", ecls(rc), sz);
  } else if (IS("pack")) { /* pack b off count t pb poff psize pos c */
    NEED(9);
    int pos = (int)a[7];
    rc      = MPI_Pack(B(s, a[0], a[1]), (int)a[2], T(s, a[3]), B(s, a[4], a[5]), (int)a[6], &pos, C(s, a[8]));
    lg(s, " %s %d", ecls(rc), pos);
  } else if (IS("unpack")) { /* unpack pb poff psize pos b off count t c */
    NEED(9);
    int pos = (int)a[3];
    rc      = MPI_Unpack(B(s, a[0], a[1]), (int)a[2], &pos, B(s, a[4], a[5]), (int)a[6], T(s, a[7]), C(s, a[8]));
    lg(s, " %s %d", ecls(rc), pos);
  }
  /* ------------------------------------------------------------------ privatised globals */
  else if (IS("gset")) { /* gset k */
    NEED(1);
    set_globals(s, a[0]);
    *fn_static() = (int)(s->rank * 1009 + a[0]);
  } else if (IS("gchk")) {
    lg_globals(s);
  } else if (IS("nop")) {
  } else
    die("unknown op '%s' (rank %d op %d)", nm, s->rank, idx);
  return;
newtype:
  lg(s, " %s", ecls(rc));
  if (rc == MPI_SUCCESS && s->typ[a[0]] != MPI_DATATYPE_NULL) {
    MPI_Type_commit(&s->typ[a[0]]);
    goto tinfo;
  }
  lg(s, " null");
}

int main(int argc, char** argv)
{
  MPI_Init(&argc, &argv);
  if (argc < 2)
    die("usage: mpisim <plan>");
  st_t* s = calloc(1, sizeof *s);
  s->cap  = 1 << 16;
  s->line = malloc(s->cap);
  MPI_Comm_rank(MPI_COMM_WORLD, &s->rank);
  MPI_Comm_size(MPI_COMM_WORLD, &s->np);
  s->tab = malloc(TABM);
  {
    unsigned x = 12345u;
    for (int i = 0; i < TABM; i++) {
      x         = x * 1103515245u + 12345u;
      s->tab[i] = (unsigned char)((x >> 16) & 0xff);
    }
  }
  for (int i = 0; i < MAXC; i++)
    s->comm[i] = MPI_COMM_NULL;
  for (int i = 0; i < MAXG; i++)
    s->grp[i] = MPI_GROUP_NULL;
  for (int i = 0; i < MAXT; i++)
    s->typ[i] = MPI_DATATYPE_NULL;
  for (int i = 0; i < MAXQ; i++) {
    s->req[i]     = MPI_REQUEST_NULL;
    s->reqtype[i] = -1;
  }
  s->comm[0] = MPI_COMM_WORLD;
  s->comm[1] = MPI_COMM_SELF;
  s->typ[0]  = MPI_BYTE;
  s->typ[1]  = MPI_CHAR;
  s->typ[2]  = MPI_SHORT;
  s->typ[3]  = MPI_INT;
  s->typ[4]  = MPI_DOUBLE;
  s->typ[5]  = MPI_LONG_LONG;
  s->typ[6]  = MPI_FLOAT;
  MPI_Comm_set_errhandler(MPI_COMM_WORLD, MPI_ERRORS_RETURN);
  MPI_Comm_set_errhandler(MPI_COMM_SELF, MPI_ERRORS_RETURN);

  /* ---- parse my section */
  FILE* f = fopen(argv[1], "r");
  if (!f)
    die("cannot open plan %s", argv[1]);
  size_t lcap = 1 << 16;
  char* lbuf  = malloc(lcap);
  op_t* ops   = NULL;
  int nops = 0, capops = 0, mine = 0, np_plan = -1;
  ssize_t got;
  while ((got = getline(&lbuf, &lcap, f)) >= 0) {
    char* p = lbuf;
    while (*p == ' ')
      p++;
    if (*p == '#' || *p == '\n' || *p == 0)
      continue;
    char name[20];
    int used = 0;
    if (sscanf(p, "%19s%n", name, &used) != 1)
      continue;
    p += used;
    if (!strcmp(name, "np")) {
      np_plan = atoi(p);
      continue;
    }
    if (!strcmp(name, "gvars")) {
      s->gvars = atoi(p);
      continue;
    }
    if (!strcmp(name, "rank")) {
      mine = (atoi(p) == s->rank);
      continue;
    }
    if (!strcmp(name, "end")) {
      mine = 0;
      continue;
    }
    if (!mine)
      continue;
    if (nops == capops) {
      capops = capops ? capops * 2 : 64;
      ops    = realloc(ops, sizeof(op_t) * (size_t)capops);
    }
    op_t* o = &ops[nops++];
    memset(o, 0, sizeof *o);
    strcpy(o->name, name);
    for (;;) {
      char* e;
      long long v = strtoll(p, &e, 10);
      if (e == p)
        break;
      if (o->n >= MAXARGS)
        die("too many args");
      o->a[o->n++] = v;
      p            = e;
    }
  }
  fclose(f);
  free(lbuf);
  if (np_plan != s->np)
    die("plan is for %d ranks, running %d", np_plan, s->np);

  lg(s, "%d -1 init %a %d", s->rank, MPI_Wtime(), s->np);
  lg_globals(s);
  flushline(s);
  for (int i = 0; i < nops; i++) {
    /* results are formatted first; the header (with the completion time) is prepended afterwards */
    s->len = 0;
    s->snapped = 0;
    run_op(s, i, &ops[i]);
    if (s->snapped)
      lg(s, "%s", s->snap);
    double t = MPI_Wtime();
    char hdr[96];
    int hl = snprintf(hdr, sizeof hdr, "%d %d %s %a", s->rank, i, ops[i].name, t);
    lg_reserve(s, (size_t)hl + 2);
    memmove(s->line + hl, s->line, s->len + 1);
    memcpy(s->line, hdr, (size_t)hl);
    s->len += (size_t)hl;
    flushline(s);
  }
  lg(s, "%d %d fini %a", s->rank, nops, MPI_Wtime());
  lg_globals(s);
  flushline(s);
  MPI_Finalize();
  return 0;
}
