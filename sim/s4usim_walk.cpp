// Engine A': in-process seeded scheduler in the model checker's computational model. The application runs with
// MC_record_replay_is_active() (cfg model-check/replay set), Engine::run() is never called: this loop plays the
// role of the checker, picking one enabled actor per step from the plan's schedule list / PRNG. No hook needed.
#include "s4usim.hpp"

#include "src/mc/explo/odpor/Execution.hpp"
#include "src/mc/mc_replay.hpp"
#include "src/mc/remote/Channel.hpp"
#include "src/mc/transition/Transition.hpp"
#include <sys/socket.h>

namespace vs {
using simgrid::kernel::actor::ActorImpl;

static void execute_actors()
{
  auto* engine = simgrid::kernel::EngineImpl::get_instance();
  while (engine->has_actors_to_run()) {
    engine->run_all_actors();
    for (auto const& actor : engine->get_actors_that_ran()) {
      auto* req = &actor->simcall_;
      if (req->call_ != simgrid::kernel::actor::Simcall::Type::NONE && !(req->observer_ && req->observer_->is_visible()))
        actor->simcall_handle(0);
    }
  }
}

static bool actor_is_enabled(ActorImpl* a)
{
  auto* req = &a->simcall_;
  if (req->call_ == simgrid::kernel::actor::Simcall::Type::NONE)
    return false;
  if (req->observer_)
    return req->observer_->is_enabled();
  return true;
}

static uint64_t sm64(uint64_t& s)
{
  s += 0x9E3779B97F4A7C15ull;
  uint64_t z = s;
  z          = (z ^ (z >> 30)) * 0xBF58476D1CE4E5B9ull;
  z          = (z ^ (z >> 27)) * 0x94D049BB133111EBull;
  return z ^ (z >> 31);
}

static std::string nospace(std::string s)
{
  for (auto& ch : s)
    if (ch == ' ' || ch == '\n' || ch == '\t')
      ch = '_';
  return s;
}

static void fingerprint()
{
  // kernel-state fingerprint from harness handles: used by the commutation oracle (C39)
  for (auto& [n, m] : mutexes)
    emit("F mutex %s owner=%s", n.c_str(), aid_of(m->get_owner()).c_str());
  for (auto& [n, s] : sems)
    emit("F sem %s cap=%d", n.c_str(), s->get_capacity());
  for (auto& [n, m] : mboxes)
    emit("F mbox %s size=%zu", n.c_str(), m->size());
  for (auto& [n, m] : mqs)
    emit("F mq %s size=%zu", n.c_str(), m->size());
  auto* eng = simgrid::kernel::EngineImpl::get_instance();
  for (auto& [pid, a] : eng->get_actor_list()) {
    std::string sc = a->simcall_.observer_ ? a->simcall_.observer_->to_string() : std::string("-");
    auto it        = curop.find(aid_of(a->get_ciface()));
    emit("F actor %s op=%d enabled=%d simcall=%s", aid_of(a->get_ciface()).c_str(), it == curop.end() ? -1 : it->second.idx,
         (int)actor_is_enabled(a), nospace(sc).c_str());
  }
}

int run_walk(sg4::Engine& e)
{
  auto* eng = simgrid::kernel::EngineImpl::get_instance();
  eng->seal_platform();
  std::vector<long> sched;
  if (opts.count("sched")) {
    std::istringstream is(opts["sched"]);
    long x;
    while (is >> x)
      sched.push_back(x);
  }
  size_t spos      = 0;
  // exact path replay ("pid/tc;pid/tc;...", the format of the walk_end record and of model-check/replay): the
  // commutation oracle (C39) re-executes a prefix and then two transitions in both orders
  std::vector<std::pair<long, int>> path_in;
  if (opts.count("path") && opts["path"] != "-") {
    std::string ps = opts["path"];
    size_t b       = 0;
    while (b < ps.size()) {
      size_t e = ps.find(';', b);
      if (e == std::string::npos)
        e = ps.size();
      std::string it = ps.substr(b, e - b);
      size_t sl      = it.find('/');
      if (!it.empty())
        path_in.emplace_back(atol(it.substr(0, sl).c_str()), sl == std::string::npos ? 0 : atoi(it.substr(sl + 1).c_str()));
      b = e + 1;
    }
  }
  size_t ppos          = 0;
  bool stop_at_path_end = opts.count("stopatpathend") && opts["stopatpathend"] == "1";
  bool fp              = opts.count("fingerprint") && opts["fingerprint"] == "1";
  uint64_t rng     = opts.count("walkseed") ? strtoull(opts["walkseed"].c_str(), nullptr, 10) : 1;
  std::string strat = opts.count("walk") ? opts["walk"] : "uniform";
  long maxsteps    = opts.count("maxsteps") ? atol(opts["maxsteps"].c_str()) : 2000;
  bool mcinfo      = opts.count("mcinfo") && opts["mcinfo"] == "1";
  bool stop_at_sched_end = opts.count("stopatschedend") && opts["stopatschedend"] == "1";
  // PCT: priorities per pid, d change points
  std::map<long, long> prio;
  std::vector<long> chg;
  long lowp = 0;
  if (strat.rfind("pct", 0) == 0) {
    int d    = atoi(strat.substr(3).c_str());
    long est = opts.count("pctlen") ? atol(opts["pctlen"].c_str()) : 60;
    for (int i = 0; i < d; i++)
      chg.push_back(sm64(rng) % est);
  }
  long last_pid = -1;

  int sk[2];
  std::unique_ptr<simgrid::mc::Channel> appc, chk;
  std::vector<simgrid::mc::TransitionPtr> exec;
  simgrid::mc::odpor::Execution E;
  if (mcinfo) {
    if (socketpair(AF_UNIX, SOCK_STREAM, 0, sk) != 0)
      return 5;
    appc = std::make_unique<simgrid::mc::Channel>(sk[0]);
    chk  = std::make_unique<simgrid::mc::Channel>(sk[1]);
  }

  execute_actors();
  std::string path;
  long step = 0;
  bool stopped = false;
  while (true) {
    std::vector<ActorImpl*> en;
    for (auto& [pid, a] : eng->get_actor_list())
      if (actor_is_enabled(a))
        en.push_back(a);
    if (en.empty())
      break;
    if (!path_in.empty() && ppos == path_in.size()) {
      emit("S %ld %a path_end n=%ld", SEQ++, now(), step);
      if (fp)
        fingerprint();
      ppos++; // once
      if (stop_at_path_end) {
        stopped = true;
        break;
      }
    }
    if (step >= maxsteps || (stop_at_sched_end && spos >= sched.size())) {
      stopped = true;
      break;
    }
    ActorImpl* a = nullptr;
    int forced_tc = -1;
    if (ppos < path_in.size()) {
      for (auto* x : en)
        if (x->get_pid() == path_in[ppos].first)
          a = x;
      if (a == nullptr) {
        emit("S %ld %a path_blocked n=%ld pid=%ld", SEQ++, now(), step, path_in[ppos].first);
        stopped = true;
        break;
      }
      forced_tc = path_in[ppos].second;
      ppos++;
    } else if (spos < sched.size()) {
      a = en[(size_t)(sched[spos++] % (long)en.size())];
    } else if (strat == "uniform") {
      a = en[sm64(rng) % en.size()];
    } else if (strat == "sticky") {
      for (auto* x : en)
        if (x->get_pid() == last_pid && sm64(rng) % 4 != 0)
          a = x;
      if (a == nullptr)
        a = en[sm64(rng) % en.size()];
    } else { // pct
      for (long c : chg)
        if (c == step && last_pid >= 0)
          prio[last_pid] = --lowp;
      for (auto* x : en) {
        if (!prio.count(x->get_pid()))
          prio[x->get_pid()] = 1 + (long)(sm64(rng) % 1000);
        if (a == nullptr || prio[x->get_pid()] > prio[a->get_pid()])
          a = x;
      }
    }
    int maxc = a->simcall_.observer_ ? a->simcall_.observer_->get_max_consider() : 1;
    int tc   = 0;
    if (forced_tc >= 0) {
      tc = forced_tc < maxc ? forced_tc : maxc - 1;
    } else if (maxc > 1) {
      if (spos < sched.size())
        tc = (int)(sched[spos++] % maxc);
      else
        tc = (int)(sm64(rng) % maxc);
    }
    std::string enl, encl, entl;
    for (auto* x : en) {
      enl += (enl.empty() ? "" : ",") + std::to_string(x->get_pid());
      encl += (encl.empty() ? "" : ",") + std::to_string(x->get_pid()) + ":" +
              std::to_string(x->simcall_.observer_ ? x->simcall_.observer_->get_max_consider() : 1);
      // kind of the pending transition of every enabled actor (what the commutation oracle chooses its pairs from)
      std::string kind = x->simcall_.observer_ ? x->simcall_.observer_->to_string() : std::string("-");
      kind             = kind.substr(0, kind.find('('));
      entl += (entl.empty() ? "" : ",") + std::to_string(x->get_pid()) + ":" + nospace(kind);
    }
    std::string trs = a->simcall_.observer_ ? a->simcall_.observer_->to_string() : std::string("-");
    emit("S %ld %a step n=%ld pid=%ld aid=%s tc=%d maxc=%d en=%s enc=%s ent=%s tr=%s", SEQ++, now(), step, a->get_pid(),
         aid_of(a->get_ciface()).c_str(), tc, maxc, enl.c_str(), encl.c_str(), entl.c_str(), nospace(trs).c_str());
    path += std::to_string(a->get_pid()) + "/" + std::to_string(tc) + ";";
    last_pid = a->get_pid();
    a->simcall_handle(tc);
    if (mcinfo && a->simcall_.observer_) {
      a->simcall_.observer_->serialize(*appc);
      a->get_memory_trace()->serialize(*appc);
      if (appc->send() != 0)
        return 5;
      auto* t = simgrid::mc::deserialize_transition((unsigned)a->get_pid(), tc, *chk);
      t->deserialize_memory_tracker(*chk);
      exec.push_back(simgrid::mc::TransitionPtr(t));
      E.push_transition(exec.back());
      emit("T %ld aid=%ld type=%s str=%s", step, (long)t->aid_.value(), simgrid::mc::Transition::to_c_str(t->type_),
           nospace(t->to_string(true)).c_str());
    }
    execute_actors();
    step++;
  }
  if (!path_in.empty() && ppos == path_in.size()) { // the path led to a state without enabled actor
    emit("S %ld %a path_end n=%ld", SEQ++, now(), step);
    if (fp)
      fingerprint();
  }
  size_t remaining = eng->get_actor_list().size();
  emit("S %ld %a walk_end steps=%ld remaining=%zu stopped=%d path=%s", SEQ++, now(), step, remaining, (int)stopped,
       path.empty() ? "-" : path.c_str());
  if (!stopped && remaining > 0) {
    emit("S %ld %a deadlock", SEQ++, now());
    dump_blocked();
  }
  if (fp) {
    emit("S %ld %a final_state", SEQ++, now());
    fingerprint();
  }
  if (mcinfo) {
    size_t n = exec.size();
    for (size_t i = 0; i < n; i++) {
      std::string d, d2, hb;
      for (size_t j = 0; j < n; j++) {
        if (j <= i) {
          d += '.';
          hb += '.';
        } else {
          d += exec[i]->dispatch_depends(exec[j].get()) ? '1' : '0';
          hb += E.happens_before(i, j) ? '1' : '0';
        }
        d2 += (j != i && exec[j]->dispatch_depends(exec[i].get())) ? '1' : (j == i ? '.' : '0');
      }
      emit("D %zu dep=%s rdep=%s hb=%s", i, d.c_str(), d2.c_str(), hb.c_str());
      std::string rc;
      for (auto r : E.get_racing_events_of(i))
        rc += (rc.empty() ? "" : ",") + std::to_string(r);
      emit("RACE %zu %s", i, rc.empty() ? "-" : rc.c_str());
    }
  }
  return 0;
}
} // namespace vs
