/* detsched: deterministic scheduler for REAL threads (engine E of /verif).
 *
 * Link detsched.o into the harness EXECUTABLE with `-rdynamic -ldl -lpthread`: its definitions of
 * pthread_create/join/..., pthread_mutex_*, pthread_cond_*, sem_*, sched_yield and syscall() then pre-empt
 * libc's for every DSO of the process (libsimgrid.so, libstdc++.so...). Dormant (pure forwarding) until
 * detsched_enable*(). Once enabled, every thread created through pthread_create is parked on a private real
 * futex; exactly one thread holds the token; at every intercepted point a seeded strategy decides who goes on.
 * The schedule is a pure function of (seed, strategy/params, code under test). */
#ifndef VERIF_DETSCHED_H
#define VERIF_DETSCHED_H
#include <stdint.h>
#include <stdio.h>

#ifdef __cplusplus
extern "C" {
#endif

enum detsched_strategy {
  DETSCHED_UNIFORM = 0, /* uniform choice among runnable threads at every point */
  DETSCHED_STICKY  = 1, /* keep the running thread with probability sticky_p, else uniform among the others */
  DETSCHED_PCT     = 2, /* PCT: random priorities, pct_d priority-change points over pct_steps steps */
  DETSCHED_RR      = 3  /* round-robin with quantum rr_quantum (0: drawn from the seed in 1..6) */
};

/* fault kinds (index of detsched_fault_fired) */
enum detsched_fault {
  DETSCHED_F_SPURIOUS   = 0, /* pthread_cond_*wait returns without signal (immediately or a few steps later) */
  DETSCHED_F_FUTEX_EINTR = 1, /* FUTEX_WAIT returns -1/EINTR although the value matched */
  DETSCHED_F_FUTEX_EAGAIN = 2, /* FUTEX_WAIT returns -1/EAGAIN although the value matched (ABA-style) */
  DETSCHED_F_FUTEX_SPUR0 = 3, /* FUTEX_WAIT blocks, then returns 0 without any FUTEX_WAKE */
  DETSCHED_F_LATE_START = 4, /* new thread not scheduled for up to late_max steps */
  DETSCHED_F_STARVE     = 5, /* some thread not scheduled for starve_k steps */
  DETSCHED_F_COUNT      = 6
};

struct detsched_params {
  double sticky_p;   /* STICKY: default 0.85 */
  int pct_d;         /* PCT: number of priority-change points (default 3) */
  long pct_steps;    /* PCT: estimated number of steps of the run (default 2000) */
  int rr_quantum;    /* RR */
  long step_cap;     /* abort with DETSCHED STEPCAP (exit 43) beyond that many steps (default 5e6) */
  long fair_k;       /* fairness fallback: after fair_k consecutive picks of the same thread while others are
                        runnable, the least recently run one is forced (default 20000; 0 = off) */
  double f_spurious; /* probability per cond wait */
  double f_futex;    /* probability per FUTEX_WAIT whose value matched (split evenly on the three kinds) */
  double f_late;     /* probability per pthread_create */
  int late_max;      /* max delay in steps (default 60) */
  int starve_n;      /* number of starvation episodes, at steps drawn in [1, pct_steps] */
  int starve_k;      /* length of an episode in steps (default 40) */
  FILE* trace;       /* when non-null: one line per scheduling point (replay debugging) */
  int pin_cpu;       /* >=0: pin the process (and its future threads) to that CPU: the token hand-over is then a plain
                        context switch (6x faster than cross-core wake-ups); -2: the CPU we are on; -1: no pinning.
                        Never influences the schedule. */
};

void detsched_default_params(struct detsched_params* p);
/* The calling thread becomes thread 0 and holds the token. Threads that already exist stay unmanaged. */
void detsched_enable(uint64_t seed, int strategy, const struct detsched_params* params /* may be NULL */);
/* spec: comma/space separated key=value: strategy=uniform|sticky|pct|rr sticky=0.85 d=3 steps=2000 quantum=2
 * cap=N fair=N spur=P futex=P late=P latemax=N starve=N starvek=N trace=PATH cpu=N|auto ; returns 0 or -1 (bad key) */
int detsched_enable_spec(uint64_t seed, const char* spec);
/* Stop scheduling: every parked runnable thread is released and runs free. Threads blocked in a simulated
 * wait stay blocked for ever: call it only when no managed thread is blocked, or never (use _exit/exit). */
void detsched_disable(void);
int detsched_enabled(void);

/* explicit scheduling point (instrumented atomics, hook H3: simgrid_verif_yield = detsched_yield) */
void detsched_yield(void);

unsigned long long detsched_hash(void); /* FNV-1a over (thread, kind, chosen thread) of every step */
long detsched_steps(void);
long detsched_fault_fired(int kind);
const char* detsched_fault_name(int kind);
long detsched_choice_points(void);  /* steps at which more than one thread was runnable */
long detsched_switches(void);       /* steps at which the token changed hands */
long detsched_fair_forced(void);    /* times the fairness fallback overrode the strategy */
int detsched_max_runnable(void);
int detsched_thread_id(void);       /* 0 = enabling thread, 1.. in creation order; -1 unmanaged */
int detsched_threads_created(void); /* including thread 0 */
int detsched_threads_live(void);    /* managed threads not finished (including thread 0) */
/* called (on the reporting thread) just before _exit(42 deadlock | 43 step cap) */
void detsched_set_abort_hook(void (*hook)(int code));

#ifdef __cplusplus
}
#endif
#endif
