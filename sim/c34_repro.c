/* c34_repro: standalone reproducers of the C34 (RMA) findings, independent of mpicoll.c and of the Python oracle.
 *   smpirun -np N -platform P [--cfg=...] c34_repro <scenario>
 * scenarios (each prints OK or WRONG with what was observed):
 *   cas_then_fetch   np>=2: rank 1, fence epoch: CAS(loc0, compare=10, new=6) then Fetch_and_op(NO_OP, loc0): must fetch 6
 *   cas_twice        np>=2: rank 1, lock epoch: the same CAS(compare=10,new=6) twice: the second must see 6 (not swap again)
 *   acc_vs_fop       np>=3: lock_all; rank 1 Fetch_and_op(REPLACE,111) early, rank 2 Accumulate(REPLACE,222) while rank 1's
 *                    fetch is in flight: fetched value and final content must match one serial order
 *   excl_vs_shared   np>=3: rank 1 holds a SHARED lock for a long time; rank 2 takes an EXCLUSIVE lock meanwhile and reads the
 *                    location twice around a pause, rank 1 accumulates in between: the two reads must be equal
 *   unlock_flush     np>=3: rank 1 EXCLUSIVE epoch puts loc1 then (big) loc0..; rank 2's EXCLUSIVE epoch right after must see
 *                    either none or all of rank 1's puts
 *   fence_then_pscw  np>=2: fence; fence (no assert); then post/start/Put/complete/wait: legal, must not abort
 *   post_blocks      np>=2 with --cfg=smpi/send-is-detached-thresh:0: both ranks post then start towards each other */
#include <mpi.h>
#include <stdio.h>
#include <string.h>
#define N 20000
int main(int argc, char** argv)
{
  MPI_Init(&argc, &argv);
  int r, n; MPI_Comm_rank(MPI_COMM_WORLD, &r); MPI_Comm_size(MPI_COMM_WORLD, &n);
  const char* k = argc > 1 ? argv[1] : "cas_then_fetch";
  static int win_mem[N]; for (int i = 0; i < N; i++) win_mem[i] = 10;
  MPI_Win w; MPI_Win_create(win_mem, N * sizeof(int), sizeof(int), MPI_INFO_NULL, MPI_COMM_WORLD, &w);
  MPI_Group wg; MPI_Comm_group(MPI_COMM_WORLD, &wg);
  int bad = 0;
  if (!strcmp(k, "cas_then_fetch")) {
    int cmp = 10, nv = 6, got = -1, dummy = 0, fetched = -1;
    MPI_Win_fence(0, w);
    if (r == 1) { MPI_Compare_and_swap(&nv, &cmp, &got, MPI_INT, 0, 0, w); MPI_Fetch_and_op(&dummy, &fetched, MPI_INT, 0, 0, MPI_NO_OP, w); }
    MPI_Win_fence(0, w);
    if (r == 1 && !(got == 10 && fetched == 6)) { bad = 1; printf("rank 1 WRONG: CAS returned %d, the following fetch returned %d (expected 10 then 6)\n", got, fetched); }
  } else if (!strcmp(k, "cas_twice")) {
    int cmp = 10, nv = 6, g1 = -1, g2 = -1;
    if (r == 1) { MPI_Win_lock(MPI_LOCK_EXCLUSIVE, 0, 0, w); MPI_Compare_and_swap(&nv, &cmp, &g1, MPI_INT, 0, 0, w);
                  MPI_Compare_and_swap(&nv, &cmp, &g2, MPI_INT, 0, 0, w); MPI_Win_unlock(0, w);
                  if (!(g1 == 10 && g2 == 6)) { bad = 1; printf("rank 1 WRONG: two successive CAS returned %d and %d (expected 10 then 6)\n", g1, g2); } }
  } else if (!strcmp(k, "acc_vs_fop")) {
    int v1 = 111, v2 = 222, f = -1;
    MPI_Win_lock_all(0, w);
    if (r == 1) MPI_Fetch_and_op(&v1, &f, MPI_INT, 0, 0, MPI_REPLACE, w);
    if (r == 2) MPI_Accumulate(&v2, 1, MPI_INT, 0, 0, 1, MPI_INT, MPI_REPLACE, w);
    MPI_Win_unlock_all(w);
    MPI_Barrier(MPI_COMM_WORLD);
    int fin = win_mem[0], ff = f; MPI_Bcast(&fin, 1, MPI_INT, 0, MPI_COMM_WORLD); MPI_Bcast(&ff, 1, MPI_INT, 1, MPI_COMM_WORLD);
    /* serial orders: fop then acc: fetched 10, final 222;  acc then fop: fetched 222, final 111 */
    if (r == 0 && !((ff == 10 && fin == 222) || (ff == 222 && fin == 111))) { bad = 1; printf("rank 0 WRONG: fetched %d, final %d: no serial order of Fetch_and_op(REPLACE 111) and Accumulate(REPLACE 222)\n", ff, fin); }
  } else if (!strcmp(k, "excl_vs_shared")) {
    int one = 1, a = -1, b = -1;
    if (r == 1) { MPI_Win_lock(MPI_LOCK_SHARED, 0, 0, w); smpi_execute_flops(2e6); MPI_Accumulate(&one, 1, MPI_INT, 0, 0, 1, MPI_INT, MPI_SUM, w); smpi_execute_flops(2e6); MPI_Win_unlock(0, w); }
    if (r == 2) { smpi_execute_flops(1e6); MPI_Win_lock(MPI_LOCK_EXCLUSIVE, 0, 0, w); MPI_Get(&a, 1, MPI_INT, 0, 0, 1, MPI_INT, w); MPI_Win_flush(0, w);
                  smpi_execute_flops(2e6); MPI_Get(&b, 1, MPI_INT, 0, 0, 1, MPI_INT, w); MPI_Win_unlock(0, w);
                  if (a != b) { bad = 1; printf("rank 2 WRONG: inside ONE exclusive epoch location 0 read %d then %d\n", a, b); } }
  } else if (!strcmp(k, "unlock_flush")) {
    static int src[N]; for (int i = 0; i < N; i++) src[i] = 77;
    int g[2] = {-1, -1};
    if (r == 1) { MPI_Win_lock(MPI_LOCK_EXCLUSIVE, 0, 0, w); MPI_Put(src, 1, MPI_INT, 0, 1, 1, MPI_INT, w); MPI_Win_flush(0, w);
                  MPI_Put(src, N - 2, MPI_INT, 0, 2, N - 2, MPI_INT, w); MPI_Put(src, 1, MPI_INT, 0, 0, 1, MPI_INT, w); MPI_Win_unlock(0, w); }
    if (r == 2) { smpi_execute_flops(2e4); MPI_Win_lock(MPI_LOCK_EXCLUSIVE, 0, 0, w); MPI_Get(g, 2, MPI_INT, 0, 0, 2, MPI_INT, w); MPI_Win_unlock(0, w);
                  if (g[0] != g[1]) { bad = 1; printf("rank 2 WRONG: exclusive epoch saw location 0 = %d and location 1 = %d: half of the previous exclusive epoch\n", g[0], g[1]); } }
  } else if (!strcmp(k, "fence_then_pscw")) {
    int v = 5, peer = 1 - r;
    MPI_Win_fence(0, w); MPI_Win_fence(0, w);
    if (r < 2) { MPI_Group g; MPI_Group_incl(wg, 1, &peer, &g); MPI_Win_post(g, 0, w); MPI_Win_start(g, 0, w);
                 MPI_Put(&v, 1, MPI_INT, peer, 3, 1, MPI_INT, w); MPI_Win_complete(w); MPI_Win_wait(w); MPI_Group_free(&g);
                 if (win_mem[3] != 5) { bad = 1; printf("rank %d WRONG: put not delivered\n", r); } }
  } else if (!strcmp(k, "post_blocks")) {
    int peer = 1 - r;
    if (r < 2) { MPI_Group g; MPI_Group_incl(wg, 1, &peer, &g); MPI_Win_post(g, 0, w); MPI_Win_start(g, 0, w); MPI_Win_complete(w); MPI_Win_wait(w); MPI_Group_free(&g); }
  }
  MPI_Barrier(MPI_COMM_WORLD);
  if (!bad) printf("rank %d OK\n", r);
  MPI_Group_free(&wg);
  MPI_Win_free(&w);
  MPI_Finalize();
  return 0;
}
