#pragma once
#include <simgrid/Exception.hpp>
#include <simgrid/kernel/ProfileBuilder.hpp>
#include <simgrid/plugins/energy.h>
#include <simgrid/plugins/file_system.h>
#include <simgrid/s4u.hpp>

#include "src/kernel/EngineImpl.hpp"
#include "src/kernel/actor/ActorImpl.hpp"
#include "src/kernel/actor/SimcallObserver.hpp"
#include "src/kernel/resource/LinkImpl.hpp"
#include "src/verif_hooks.hpp"

#include <csignal>
#include <cstdarg>
#include <cstdio>
#include <cstdlib>
#include <cstring>
#include <fstream>
#include <iostream>
#include <map>
#include <set>
#include <sstream>
#include <string>
#include <sys/personality.h>
#include <unistd.h>
#include <vector>

namespace sg4 = simgrid::s4u;

namespace vs {
struct Op {
  std::string kind;
  std::vector<std::string> a;
};
struct ActorSpec {
  std::string id, host;
  bool daemon = false, autorestart = false, tmpl = false;
  double killtime = -1;
  int onexit      = 0;
  int stack       = 0;
  int created     = 0;
  std::vector<Op> ops;
};
struct Payload {
  uint64_t magic;
  char id[48];
  double size;
  uint64_t check;
};
constexpr uint64_t PMAGIC = 0x5041594c4f414421ull;
struct Slot {
  sg4::ActivityPtr act;
  void* recv = nullptr; // destination of a get_async
  std::string kind;     // exec comm_s comm_r mess_s mess_r io
  std::string owner;
};
struct CurOp {
  int idx;
  int inc;
  bool active;
};
struct Ctx {
  ActorSpec* sp;
  std::string aid;
  int inc;
  sg4::Actor* self;
};

extern std::string LOG;
extern long SEQ;
extern std::map<std::string, sg4::Host*> hosts;
extern std::map<std::string, sg4::Link*> links;
extern std::map<std::string, sg4::Disk*> disks;
extern std::map<std::string, sg4::MutexPtr> mutexes;
extern std::map<std::string, sg4::SemaphorePtr> sems;
extern std::map<std::string, sg4::ConditionVariablePtr> cvs;
extern std::map<std::string, sg4::BarrierPtr> bars;
extern std::map<std::string, sg4::Mailbox*> mboxes;
extern std::map<std::string, sg4::MessageQueue*> mqs;
extern std::map<std::string, Slot> slots;
extern std::map<std::string, ActorSpec> specs;
extern std::vector<std::string> spec_order;
extern std::map<std::string, sg4::ActorPtr> actors;
extern std::map<std::string, std::string> opts;
extern std::map<long, std::string> pid2aid;
extern std::map<std::string, CurOp> curop;
extern std::set<long> deadpids;

void emit(const char* fmt, ...) __attribute__((format(printf, 1, 2)));
void flush_log();
double now();
double num(const std::string& s);
std::string aid_of(sg4::Actor* a);
sg4::ActorPtr spawn(const std::string& id);
void actor_body(ActorSpec* sp, const std::string& aid);
void do_op(Ctx& c, int idx, const Op& op);
void dump_blocked();
int run_walk(sg4::Engine& e);
// engine D (s4usim_mcd.cpp): side file of terminal outcomes under simgrid-mc, reference walker with exact path replay
extern bool mcd_assert_failed;
void mcd_init();
void mcd_assert_fail(const Ctx& c, int idx);
int run_walk_d(sg4::Engine& e);
// monitors / plugins (s4usim_mon.cpp)
void time_advance_monitor(double delta);
void init_plugin(const std::string& name);
void post_platform_init();
void final_report();
void lmm_monitor_start();
bool fs_op(Ctx& c, int idx, const Op& op, std::string& r, std::string& exc, bool& skip);
void track_activity(const std::string& slot, sg4::ActivityPtr a, double amount, const std::string& kind);
} // namespace vs
