# engine C (collectives / RMA / replay): plan interpreter compiled with the tree's smpicc
TARGETS += $(OUT)/mpicoll
$(OUT)/mpicoll: /verif/sim/mpicoll.c $(SG)/lib/libsimgrid.so
	$(SMPICC) -O1 -g -Wall -Wno-unused-function /verif/sim/mpicoll.c -o $@
