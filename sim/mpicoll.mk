# engine C (collectives / RMA / replay): plan interpreter compiled with the tree's smpicc,
# plus the small standalone reproducer programs used to confirm C29 / C34 findings by hand
TARGETS += $(OUT)/mpicoll $(OUT)/c29_repro $(OUT)/c34_repro
$(OUT)/mpicoll: /verif/sim/mpicoll.c $(SG)/lib/libsimgrid.so
	$(SMPICC) -O1 -g -Wall -Wno-unused-function /verif/sim/mpicoll.c -o $@
$(OUT)/c29_repro: /verif/sim/c29_repro.c $(SG)/lib/libsimgrid.so
	$(SMPICC) -O1 -g -Wall /verif/sim/c29_repro.c -o $@
$(OUT)/c34_repro: /verif/sim/c34_repro.c $(SG)/lib/libsimgrid.so
	$(SMPICC) -O1 -g -Wall /verif/sim/c34_repro.c -o $@
