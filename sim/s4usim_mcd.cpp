// Engine D support inside s4usim (the program verified by the real simgrid-mc, and the in-process reference walker).
//
//  * `opt mcout FILE`: every time an actor terminates, one self-contained line is appended to FILE (O_APPEND, one
//    write() per line): `O <getpid> alive=<n> <R records so far, without seq and clock, joined by '|'>`. Under
//    simgrid-mc the application is forked for every explored path and the log held in memory is inherited by the
//    children, so the line written when alive=0 is the terminal outcome of one complete execution. Set semantics:
//    duplicates written by replayed prefixes are harmless. `A` lines are written by a failing `assert_last` op.
//  * walker D (`opt mode walk` + `opt walker d`): same record format as the walker of s4usim_walk.cpp (step / T / D /
//    RACE / walk_end / deadlock / blocked records, so that lib/refwalk.py can drive the reference model from the log),
//    plus: `opt path pid/tc;pid/tc;...` replays a checker path exactly (any deviation is reported in a `path_invalid`
//    record), `ob=` in T lines is the application-side observer string taken at serialisation time (after the simcall
//    was handled), `stopatpathend 1` stops at the end of the path, the status of the blocked actors is printed through
//    EngineImpl::display_all_actor_status() (stderr) when the walk ends in a deadlock, and a failing `assert_last`
//    ends the walk (`assert=1` in walk_end).
#include "s4usim.hpp"

#include "src/mc/explo/odpor/Execution.hpp"
#include "src/mc/mc_replay.hpp"
#include "src/mc/remote/Channel.hpp"
#include "src/mc/transition/Transition.hpp"
#include <fcntl.h>
#include <simgrid/modelchecker.h>
#include <sys/socket.h>
#include <sys/wait.h>

namespace vs {
using simgrid::kernel::actor::ActorImpl;

bool mcd_assert_failed = false;
static int mcd_fd      = -1;
static long mcd_spawned = 0;

static std::string outcome_so_far()
{
  // R records of the in-memory log without seq and clock: "aid inc idx kind k=v ..." joined by '|'
  std::string out;
  size_t pos = 0;
  while (pos < LOG.size()) {
    size_t e = LOG.find('\n', pos);
    if (e == std::string::npos)
      e = LOG.size();
    if (e > pos + 2 && LOG[pos] == 'R' && LOG[pos + 1] == ' ') {
      size_t p = pos + 2;
      p        = LOG.find(' ', p); // end of seq
      if (p != std::string::npos && p < e) {
        p = LOG.find(' ', p + 1); // end of clock
        if (p != std::string::npos && p < e) {
          if (!out.empty())
            out += '|';
          out.append(LOG, p + 1, e - p - 1);
        }
      }
    }
    pos = e + 1;
  }
  return out;
}

static void mcd_write(const std::string& line)
{
  if (mcd_fd < 0)
    return;
  ssize_t w = write(mcd_fd, line.data(), line.size());
  (void)w;
}

void mcd_init()
{
  if (!opts.count("mcout"))
    return;
  mcd_fd = open(opts["mcout"].c_str(), O_WRONLY | O_APPEND | O_CREAT, 0644);
  if (mcd_fd < 0) {
    fprintf(stderr, "cannot open mcout file %s\n", opts["mcout"].c_str());
    _exit(3);
  }
  sg4::Actor::on_creation_cb([](sg4::Actor&) { mcd_spawned++; });
  sg4::Actor::on_termination_cb([](sg4::Actor const&) {
    // called after the harness' own callback (registered earlier), so deadpids is up to date
    long alive = mcd_spawned - (long)deadpids.size();
    char head[96];
    snprintf(head, sizeof head, "O %d alive=%ld ", (int)getpid(), alive);
    mcd_write(std::string(head) + outcome_so_far() + "\n");
  });
}

// called by the assert_last op when the asserted result differs
void mcd_assert_fail(const Ctx& c, int idx)
{
  if (mcd_fd >= 0) {
    char head[160];
    snprintf(head, sizeof head, "A %d aid=%s idx=%d ", (int)getpid(), c.aid.c_str(), idx);
    mcd_write(std::string(head) + outcome_so_far() + "\n");
  }
  bool walk = opts.count("mode") && opts["mode"] == "walk";
  if (walk) {
    mcd_assert_failed = true;
    sg4::this_actor::sleep_for(1e30); // never scheduled again: the walker stops as soon as it sees the flag
    return;
  }
  if (!MC_is_active()) {
    // replay of a checker path out of simgrid-mc (or plain run): make the log visible before the abort
    emit("S %ld %a assert_failed aid=%s idx=%d", SEQ++, now(), c.aid.c_str(), idx);
    flush_log();
  }
  MC_assert(0);
}

// ---------------------------------------------------------------------------------------------------------------
static void execute_actors()
{
  auto* engine = simgrid::kernel::EngineImpl::get_instance();
  while (engine->has_actors_to_run()) {
    engine->run_all_actors();
    for (auto const& actor : engine->get_actors_that_ran()) {
      auto* req = &actor->simcall_;
      if (req->call_ != simgrid::kernel::actor::Simcall::Type::NONE && !(req->observer_ && req->observer_->is_visible()))
        actor->simcall_handle(0);
    }
  }
}

static bool actor_is_enabled(ActorImpl* a)
{
  auto* req = &a->simcall_;
  if (req->call_ == simgrid::kernel::actor::Simcall::Type::NONE)
    return false;
  if (req->observer_)
    return req->observer_->is_enabled();
  return true;
}

static uint64_t sm64(uint64_t& s)
{
  s += 0x9E3779B97F4A7C15ull;
  uint64_t z = s;
  z          = (z ^ (z >> 30)) * 0xBF58476D1CE4E5B9ull;
  z          = (z ^ (z >> 27)) * 0x94D049BB133111EBull;
  return z ^ (z >> 31);
}

static std::string nospace(std::string s)
{
  for (auto& ch : s)
    if (ch == ' ' || ch == '\n' || ch == '\t')
      ch = '_';
  return s;
}

static void raw_write(int fd, const std::string& s)
{
  ssize_t w = write(fd, s.data(), s.size());
  (void)w;
}

int run_walk_d(sg4::Engine& e)
{
  auto* eng = simgrid::kernel::EngineImpl::get_instance();
  eng->seal_platform();
  if (opts.count("multi")) {
    // many walks of the same program in one process: one forked child per line of the file (key=value overrides of
    // the plan options: walk= walkseed= path= mcinfo= ...). Each child prints its own complete log; the parent only
    // prints the separators, on stdout and stderr.
    std::ifstream f(opts["multi"]);
    std::string line;
    std::vector<std::string> lines;
    while (std::getline(f, line))
      if (!line.empty())
        lines.push_back(line);
    opts.erase("multi");
    bool child = false;
    for (size_t i = 0; i < lines.size() && !child; i++) {
      std::string sep = "#RUN " + std::to_string(i) + "\n";
      raw_write(1, sep);
      raw_write(2, sep);
      pid_t pid = fork();
      if (pid < 0)
        _exit(6);
      if (pid == 0) {
        std::istringstream is(lines[i]);
        std::string tok;
        while (is >> tok) {
          size_t eq = tok.find('=');
          if (eq != std::string::npos)
            opts[tok.substr(0, eq)] = tok.substr(eq + 1);
        }
        child = true;
      } else {
        int status = 0;
        waitpid(pid, &status, 0);
        if (WIFSIGNALED(status))
          raw_write(1, "#CRASH " + std::to_string(i) + " signal=" + std::to_string(WTERMSIG(status)) + "\n");
        else if (WEXITSTATUS(status) != 0)
          raw_write(1, "#EXIT " + std::to_string(i) + " rc=" + std::to_string(WEXITSTATUS(status)) + "\n");
      }
    }
    if (!child) {
      raw_write(1, "#DONE\n");
      _exit(0);
    }
  }
  // path to replay exactly
  std::vector<std::pair<long, int>> path;
  if (opts.count("path") && opts["path"] != "-") {
    const std::string& p = opts["path"];
    size_t pos           = 0;
    while (pos < p.size()) {
      size_t e2 = p.find(';', pos);
      if (e2 == std::string::npos)
        e2 = p.size();
      std::string chunk = p.substr(pos, e2 - pos);
      if (!chunk.empty()) {
        long pid = 0;
        int tc   = 0;
        sscanf(chunk.c_str(), "%ld/%d", &pid, &tc);
        path.emplace_back(pid, tc);
      }
      pos = e2 + 1;
    }
  }
  size_t ppos            = 0;
  uint64_t rng           = opts.count("walkseed") ? strtoull(opts["walkseed"].c_str(), nullptr, 10) : 1;
  std::string strat      = opts.count("walk") ? opts["walk"] : "uniform";
  long maxsteps          = opts.count("maxsteps") ? atol(opts["maxsteps"].c_str()) : 2000;
  bool mcinfo            = opts.count("mcinfo") && opts["mcinfo"] == "1";
  bool stop_at_path_end  = opts.count("stopatpathend") && opts["stopatpathend"] == "1";
  std::map<long, long> prio;
  std::vector<long> chg;
  long lowp = 0;
  if (strat.rfind("pct", 0) == 0) {
    int d    = atoi(strat.substr(3).c_str());
    long est = opts.count("pctlen") ? atol(opts["pctlen"].c_str()) : 60;
    for (int i = 0; i < d; i++)
      chg.push_back(sm64(rng) % est);
  }
  long last_pid = -1;

  int sk[2];
  std::unique_ptr<simgrid::mc::Channel> appc, chk;
  std::vector<simgrid::mc::TransitionPtr> exec;
  simgrid::mc::odpor::Execution E;
  if (mcinfo) {
    signal(SIGALRM, [](int) {
      const char m[] = "X 0 decode_blocked=1\n";
      LOG.append(m, sizeof m - 1);
      flush_log();
      _exit(14);
    });
    if (socketpair(AF_UNIX, SOCK_STREAM, 0, sk) != 0)
      return 5;
    appc = std::make_unique<simgrid::mc::Channel>(sk[0]);
    chk  = std::make_unique<simgrid::mc::Channel>(sk[1]);
  }

  execute_actors();
  std::string pathstr;
  long step         = 0;
  bool stopped      = false;
  bool path_invalid = false;
  while (!mcd_assert_failed) {
    std::vector<ActorImpl*> en;
    for (auto& [pid, a] : eng->get_actor_list())
      if (actor_is_enabled(a))
        en.push_back(a);
    if (en.empty()) {
      if (ppos < path.size()) {
        emit("S %ld %a path_invalid n=%ld pid=%ld reason=nothing_enabled left=%zu", SEQ++, now(), step, path[ppos].first,
             path.size() - ppos);
        path_invalid = true;
      }
      break;
    }
    if (step >= maxsteps || (stop_at_path_end && ppos >= path.size())) {
      stopped = true;
      break;
    }
    ActorImpl* a = nullptr;
    int tc       = -1;
    if (ppos < path.size()) {
      for (auto* x : en)
        if (x->get_pid() == path[ppos].first)
          a = x;
      if (a == nullptr) {
        bool exists = eng->get_actor_by_pid(path[ppos].first) != nullptr;
        emit("S %ld %a path_invalid n=%ld pid=%ld reason=%s left=%zu", SEQ++, now(), step, path[ppos].first,
             exists ? "not_enabled" : "no_such_actor", path.size() - ppos);
        path_invalid = true;
        stopped      = true;
        break;
      }
      tc = path[ppos].second;
      ppos++;
    } else if (strat == "uniform") {
      a = en[sm64(rng) % en.size()];
    } else if (strat == "first") {
      a = en[0];
    } else if (strat == "sticky") {
      for (auto* x : en)
        if (x->get_pid() == last_pid && sm64(rng) % 4 != 0)
          a = x;
      if (a == nullptr)
        a = en[sm64(rng) % en.size()];
    } else { // pct
      for (long c : chg)
        if (c == step && last_pid >= 0)
          prio[last_pid] = --lowp;
      for (auto* x : en) {
        if (!prio.count(x->get_pid()))
          prio[x->get_pid()] = 1 + (long)(sm64(rng) % 1000);
        if (a == nullptr || prio[x->get_pid()] > prio[a->get_pid()])
          a = x;
      }
    }
    int maxc = a->simcall_.observer_ ? a->simcall_.observer_->get_max_consider() : 1;
    if (tc < 0)
      tc = maxc > 1 ? (int)(sm64(rng) % maxc) : 0;
    if (tc >= maxc) {
      emit("S %ld %a path_invalid n=%ld pid=%ld reason=times_considered_%d_of_%d left=%zu", SEQ++, now(), step,
           a->get_pid(), tc, maxc, path.size() - ppos);
      path_invalid = true;
      stopped      = true;
      break;
    }
    std::string enl;
    for (auto* x : en)
      enl += (enl.empty() ? "" : ",") + std::to_string(x->get_pid());
    std::string trs = a->simcall_.observer_ ? a->simcall_.observer_->to_string() : std::string("-");
    emit("S %ld %a step n=%ld pid=%ld aid=%s tc=%d maxc=%d en=%s tr=%s", SEQ++, now(), step, a->get_pid(),
         aid_of(a->get_ciface()).c_str(), tc, maxc, enl.c_str(), nospace(trs).c_str());
    pathstr += std::to_string(a->get_pid()) + "/" + std::to_string(tc) + ";";
    last_pid = a->get_pid();
    a->simcall_handle(tc);
    if (mcinfo && a->simcall_.observer_) {
      std::string ob = a->simcall_.observer_->to_string();
      // a decoder that expects more bytes than the observer serialised would block for ever on the socket
      emit("S %ld %a decoding n=%ld ob=%s", SEQ++, now(), step, nospace(ob).c_str());
      alarm(opts.count("decodealarm") ? atoi(opts["decodealarm"].c_str()) : 10);
      a->simcall_.observer_->serialize(*appc);
      a->get_memory_trace()->serialize(*appc);
      if (appc->send() != 0)
        return 5;
      auto* t = simgrid::mc::deserialize_transition((unsigned)a->get_pid(), tc, *chk);
      t->deserialize_memory_tracker(*chk);
      alarm(0);
      exec.push_back(simgrid::mc::TransitionPtr(t));
      E.push_transition(exec.back());
      emit("T %ld aid=%ld tc=%d type=%s str=%s ob=%s", step, (long)t->aid_.value(), (int)t->times_considered_,
           simgrid::mc::Transition::to_c_str(t->type_), nospace(t->to_string(true)).c_str(), nospace(ob).c_str());
    }
    execute_actors();
    step++;
  }
  size_t remaining = eng->get_actor_list().size();
  emit("S %ld %a walk_end steps=%ld remaining=%zu stopped=%d assert=%d pathinvalid=%d path=%s", SEQ++, now(), step,
       remaining, (int)stopped, (int)mcd_assert_failed, (int)path_invalid, pathstr.empty() ? "-" : pathstr.c_str());
  if (!stopped && !mcd_assert_failed && remaining > 0) {
    emit("S %ld %a deadlock", SEQ++, now());
    dump_blocked();
    eng->display_all_actor_status(); // stderr, same text as the application prints for the checker
  }
  if (mcinfo) {
    size_t n = exec.size();
    for (size_t i = 0; i < n; i++) {
      std::string d, d2, hb;
      for (size_t j = 0; j < n; j++) {
        if (j <= i) {
          d += '.';
          hb += '.';
        } else {
          d += exec[i]->dispatch_depends(exec[j].get()) ? '1' : '0';
          hb += E.happens_before(i, j) ? '1' : '0';
        }
        d2 += (j != i && exec[j]->dispatch_depends(exec[i].get())) ? '1' : (j == i ? '.' : '0');
      }
      emit("D %zu dep=%s rdep=%s hb=%s", i, d.c_str(), d2.c_str(), hb.c_str());
    }
  }
  return 0;
}
} // namespace vs
