// Interpreter of plan ops. Every op logs a C(all) record before and an R(eturn) record after, with results.
#include "s4usim.hpp"
#include <deque>
#include <simgrid/modelchecker.h>

namespace vs {
// engine D: results of the last completed op of each actor (read by the assert_last op)
static std::map<std::string, std::string> last_result;

static std::string join(const std::vector<std::string>& a)
{
  std::string r;
  for (auto& x : a)
    r += " " + x;
  return r;
}

static void kv(std::string& r, const char* k, const std::string& v)
{
  r += " ";
  r += k;
  r += "=";
  r += v;
}
static void kvd(std::string& r, const char* k, double v)
{
  char b[64];
  snprintf(b, sizeof b, " %s=%a", k, v);
  r += b;
}
static void kvi(std::string& r, const char* k, long v)
{
  char b[64];
  snprintf(b, sizeof b, " %s=%ld", k, v);
  r += b;
}

template <class F> static std::string guarded(F f)
{
  try {
    f();
    return "";
  } catch (const simgrid::TimeoutException&) {
    return "Timeout";
  } catch (const simgrid::NetworkFailureException&) {
    return "NetworkFailure";
  } catch (const simgrid::HostFailureException&) {
    return "HostFailure";
  } catch (const simgrid::StorageFailureException&) {
    return "StorageFailure";
  } catch (const simgrid::CancelException&) {
    return "Cancel";
  } catch (const simgrid::VmFailureException&) {
    return "VmFailure";
  } catch (const simgrid::Exception&) {
    return "Other";
  } catch (const std::invalid_argument&) {
    return "InvalidArgument";
  }
}

static Payload* mkpayload(const Ctx& c, int idx, double size)
{
  auto* p  = new Payload();
  p->magic = PMAGIC;
  snprintf(p->id, sizeof p->id, "%s.%d.%d", c.aid.c_str(), c.inc, idx);
  p->size  = size;
  uint64_t h = 1469598103934665603ull;
  for (const char* s = p->id; *s; s++)
    h = (h ^ (uint64_t)*s) * 1099511628211ull;
  p->check = h ^ (uint64_t)size;
  return p;
}

static std::string plid(void* v)
{
  if (v == nullptr)
    return "null";
  auto* p = static_cast<Payload*>(v);
  if (p->magic != PMAGIC)
    return "corrupt";
  uint64_t h = 1469598103934665603ull;
  p->id[sizeof p->id - 1] = 0;
  for (const char* s = p->id; *s; s++)
    h = (h ^ (uint64_t)*s) * 1099511628211ull;
  if ((h ^ (uint64_t)p->size) != p->check)
    return "corrupt";
  return p->id;
}

static const char* actstate(sg4::Activity* a)
{
  return a->get_state_str();
}

static void obs_act(std::string& r, Slot& s)
{
  if (!s.act)
    return;
  kv(r, "state", actstate(s.act.get()));
  if (s.act->get_impl() != nullptr) {
    if (s.kind == "exec" || s.kind == "io" || s.kind == "comm_s" || s.kind == "comm_r" || s.kind == "sendto")
      kvd(r, "remaining", s.act->get_remaining());
    kvd(r, "start", s.act->get_start_time());
    kvd(r, "finish", s.act->get_finish_time());
  }
}

static void after_wait(std::string& r, Slot& s, const std::string& exc)
{
  if (exc.empty() && (s.kind == "comm_r" || s.kind == "mess_r"))
    kv(r, "payload", plid(s.recv ? *static_cast<void**>(s.recv) : nullptr));
  obs_act(r, s);
}

static sg4::ExecPtr mkexec(const std::vector<std::string>& a, size_t from, const std::string& name)
{
  // FLOPS [bound=B] [prio=P] [host=H] [threads=N]
  auto x = sg4::Exec::init();
  x->set_name(name);
  x->set_flops_amount(num(a[from]));
  for (size_t i = from + 1; i < a.size(); i++) {
    if (a[i].rfind("bound=", 0) == 0)
      x->set_bound(num(a[i].substr(6)));
    else if (a[i].rfind("prio=", 0) == 0)
      x->set_priority(num(a[i].substr(5)));
    else if (a[i].rfind("host=", 0) == 0)
      x->set_host(hosts.at(a[i].substr(5)));
    else if (a[i].rfind("threads=", 0) == 0)
      x->set_thread_count(atoi(a[i].substr(8).c_str()));
  }
  bool hostgiven = false, nohost = false;
  for (size_t i = from + 1; i < a.size(); i++) {
    hostgiven = hostgiven || a[i].rfind("host=", 0) == 0;
    nohost    = nohost || a[i] == "nohost";
  }
  if (!hostgiven && !nohost)
    x->set_host(sg4::this_actor::get_host());
  return x;
}

static std::string optarg(const std::vector<std::string>& a, const char* key, const char* dflt = "")
{
  size_t n = strlen(key);
  for (auto& x : a)
    if (x.compare(0, n, key) == 0 && x.size() > n && x[n] == '=')
      return x.substr(n + 1);
  return dflt;
}
static bool hasopt(const std::vector<std::string>& a, const char* key)
{
  return !optarg(a, key, "\x01").empty() && optarg(a, key, "\x01") != "\x01";
}

static void typed_wait_for(Slot& s, double t)
{
  // call through the typed handle, as user code does (Comm and Mess override wait_for)
  if (s.kind == "comm_s" || s.kind == "comm_r" || s.kind == "sendto")
    boost::static_pointer_cast<sg4::Comm>(s.act)->wait_for(t);
  else if (s.kind == "mess_s" || s.kind == "mess_r")
    boost::static_pointer_cast<sg4::Mess>(s.act)->wait_for(t);
  else if (s.kind == "exec")
    boost::static_pointer_cast<sg4::Exec>(s.act)->wait_for(t);
  else if (s.kind == "io")
    boost::static_pointer_cast<sg4::Io>(s.act)->wait_for(t);
  else
    s.act->wait_for(t);
}

void do_op(Ctx& c, int idx, const Op& op)
{
  const std::string& k = op.kind;
  const auto& a        = op.a;
  std::string r;
  std::string exc;
  bool skip = false;
  emit("C %ld %a %s %d %d %s%s", SEQ++, now(), c.aid.c_str(), c.inc, idx, k.c_str(), join(a).c_str());
  std::string slotname = c.aid + "." + std::to_string(c.inc) + "." + std::to_string(idx);

  auto need_slot = [&](const std::string& n) -> Slot* {
    auto it = slots.find(n);
    if (it == slots.end() || !it->second.act) {
      skip = true;
      return nullptr;
    }
    return &it->second;
  };

  // ---------------------------------------------------------------- time
  if (k == "sleep") {
    exc = guarded([&] { sg4::this_actor::sleep_for(num(a[0])); });
  } else if (k == "sleep_until") {
    exc = guarded([&] { sg4::this_actor::sleep_until(num(a[0])); });
  } else if (k == "yield") {
    sg4::this_actor::yield();
  } else if (k == "exec") { // blocking
    exc = guarded([&] {
      auto x = mkexec(a, 0, slotname);
      if (opts.count("track"))
        track_activity(slotname, x, num(a[0]), "exec");
      x->start();
      x->wait();
      kvd(r, "start", x->get_start_time());
      kvd(r, "finish", x->get_finish_time());
    });
  } else if (k == "exec_async" || k == "exec_init") { // SLOT FLOPS ...
    exc = guarded([&] {
      auto x = mkexec(a, 1, a[0]);
      if (opts.count("track"))
        track_activity(a[0], x, num(a[1]), "exec");
      if (k == "exec_async")
        x->start();
      slots[a[0]] = Slot{x, nullptr, "exec", c.aid};
    });
  } else if (k == "ptask") { // SLOT|- nhosts h1..hn f1..fn b11..bnn
    exc = guarded([&] {
      int n = atoi(a[1].c_str());
      std::vector<sg4::Host*> hs;
      std::vector<double> fl, by;
      for (int i = 0; i < n; i++)
        hs.push_back(hosts.at(a[2 + i]));
      for (int i = 0; i < n; i++)
        fl.push_back(num(a[2 + n + i]));
      for (int i = 0; i < n * n; i++)
        by.push_back(num(a[2 + 2 * n + i]));
      auto x = sg4::this_actor::exec_init(hs, fl, by);
      x->set_name(a[0] == "-" ? slotname : a[0]);
      x->start();
      if (a[0] == "-") {
        x->wait();
        kvd(r, "start", x->get_start_time());
        kvd(r, "finish", x->get_finish_time());
      } else
        slots[a[0]] = Slot{x, nullptr, "exec", c.aid};
    });
    // ---------------------------------------------------------------- mailboxes
  } else if (k == "put") { // MBOX SIZE [timeout=T] [rate=R]
    auto* p = mkpayload(c, idx, num(a[1]));
    kv(r, "payload", p->id);
    exc = guarded([&] {
      if (hasopt(a, "tag") || hasopt(a, "want")) { // [tag=T] [want=K]: match data / match filter (low-level s4u API)
        static std::deque<long> tagstore;        // match data must outlive the communication
        void* mydata = nullptr;
        if (hasopt(a, "tag")) {
          tagstore.push_back(atol(optarg(a, "tag").c_str()));
          mydata = &tagstore.back();
        }
        std::function<bool(void*, void*, simgrid::kernel::activity::CommImpl*)> filter;
        if (hasopt(a, "want")) {
          long want = atol(optarg(a, "want").c_str());
          filter    = [want](void*, void* theirs, simgrid::kernel::activity::CommImpl*) {
            return theirs != nullptr && *static_cast<long*>(theirs) == want;
          };
        }
        sg4::Comm::send(c.self->get_impl(), mboxes.at(a[0]), num(a[1]), -1, p, sizeof(void*), filter, nullptr, mydata,
                        hasopt(a, "timeout") ? num(optarg(a, "timeout")) : -1);
      } else if (hasopt(a, "rate") || hasopt(a, "onesimcall")) { // unstarted comm waited directly: one isend+wait simcall
        auto comm = mboxes.at(a[0])->put_init(p, (uint64_t)num(a[1]));
        comm->set_name(slotname);
        if (hasopt(a, "rate"))
          comm->set_rate(num(optarg(a, "rate")));
        if (hasopt(a, "timeout"))
          comm->wait_for(num(optarg(a, "timeout")));
        else
          comm->wait();
      } else if (hasopt(a, "timeout"))
        mboxes.at(a[0])->put(p, (uint64_t)num(a[1]), num(optarg(a, "timeout")));
      else
        mboxes.at(a[0])->put(p, (uint64_t)num(a[1]));
    });
  } else if (k == "put_async" || k == "put_init") { // SLOT MBOX SIZE [rate=R]
    auto* p = mkpayload(c, idx, num(a[2]));
    kv(r, "payload", p->id);
    exc = guarded([&] {
      auto comm = mboxes.at(a[1])->put_init(p, (uint64_t)num(a[2]));
      comm->set_name(a[0]);
      if (hasopt(a, "rate"))
        comm->set_rate(num(optarg(a, "rate")));
      if (k == "put_async")
        comm->start();
      slots[a[0]] = Slot{comm, nullptr, "comm_s", c.aid};
    });
  } else if (k == "put_detach") { // MBOX SIZE
    auto* p = mkpayload(c, idx, num(a[1]));
    kv(r, "payload", p->id);
    exc = guarded([&] {
      auto comm = mboxes.at(a[0])->put_init(p, (uint64_t)num(a[1]));
      comm->set_name(slotname);
      comm->detach([](void* data) { emit("S %ld %a detach_cleanup payload=%s", SEQ++, now(), plid(data).c_str()); });
    });
  } else if (k == "get") { // MBOX [timeout=T]
    exc = guarded([&] {
      Payload* p;
      if (hasopt(a, "tag") || hasopt(a, "want")) { // filtered receive (low-level s4u API)
        static std::deque<long> tagstore;
        void* mydata = nullptr;
        if (hasopt(a, "tag")) {
          tagstore.push_back(atol(optarg(a, "tag").c_str()));
          mydata = &tagstore.back();
        }
        std::function<bool(void*, void*, simgrid::kernel::activity::CommImpl*)> filter;
        if (hasopt(a, "want")) {
          long want = atol(optarg(a, "want").c_str());
          filter    = [want](void*, void* theirs, simgrid::kernel::activity::CommImpl*) {
            return theirs != nullptr && *static_cast<long*>(theirs) == want;
          };
        }
        void* buf   = nullptr;
        size_t size = sizeof(void*);
        sg4::Comm::recv(c.self->get_impl(), mboxes.at(a[0]), &buf, &size, filter, nullptr, mydata,
                        hasopt(a, "timeout") ? num(optarg(a, "timeout")) : -1, -1);
        p = static_cast<Payload*>(buf);
      } else if (hasopt(a, "timeout"))
        p = mboxes.at(a[0])->get<Payload>(num(optarg(a, "timeout")));
      else
        p = mboxes.at(a[0])->get<Payload>();
      kv(r, "payload", plid(p));
      if (p && plid(p) != "corrupt")
        kvd(r, "size", p->size);
    });
  } else if (k == "get_async" || k == "get_init") { // SLOT MBOX
    exc = guarded([&] {
      void** buf = new void*(nullptr);
      sg4::CommPtr comm;
      comm = mboxes.at(a[1])->get_init();
      comm->set_dst_data(buf, sizeof(void*));
      comm->set_name(a[0]);
      if (k == "get_async")
        comm->start();
      slots[a[0]] = Slot{comm, buf, "comm_r", c.aid};
    });
  } else if (k == "set_receiver") { // MBOX ACTOR|-
    if (a[1] == "-")
      mboxes.at(a[0])->set_receiver(nullptr);
    else if (actors.count(a[1]))
      mboxes.at(a[0])->set_receiver(actors.at(a[1]));
    else
      skip = true;
  } else if (k == "obs_mbox") {
    auto* m = mboxes.at(a[0]);
    kvi(r, "size", m->size());
    kvi(r, "listen", m->listen());
    kvi(r, "ready", m->ready());
    kvi(r, "listen_from", m->listen_from());
  } else if (k == "sendto") { // SLOT|- SRC DST SIZE
    exc = guarded([&] {
      auto comm = sg4::Comm::sendto_init(hosts.at(a[1]), hosts.at(a[2]));
      comm->set_payload_size((uint64_t)num(a[3]));
      comm->set_name(a[0] == "-" ? slotname : a[0]);
      if (opts.count("track"))
        track_activity(a[0] == "-" ? slotname : a[0], comm, num(a[3]), "comm");
      comm->start();
      if (a[0] == "-") {
        comm->wait();
        kvd(r, "start", comm->get_start_time());
        kvd(r, "finish", comm->get_finish_time());
      } else
        slots[a[0]] = Slot{comm, nullptr, "sendto", c.aid};
    });
    // ---------------------------------------------------------------- message queues
  } else if (k == "mput") { // MQ [timeout=T]
    auto* p = mkpayload(c, idx, 0);
    kv(r, "payload", p->id);
    exc = guarded([&] {
      if (hasopt(a, "timeout"))
        mqs.at(a[0])->put(p, num(optarg(a, "timeout")));
      else
        mqs.at(a[0])->put(p);
    });
  } else if (k == "mput_async") { // SLOT MQ
    auto* p = mkpayload(c, idx, 0);
    kv(r, "payload", p->id);
    exc = guarded([&] {
      auto m      = mqs.at(a[1])->put_async(p);
      slots[a[0]] = Slot{m, nullptr, "mess_s", c.aid};
    });
  } else if (k == "mget") { // MQ [timeout=T]
    exc = guarded([&] {
      Payload* p;
      if (hasopt(a, "timeout"))
        p = mqs.at(a[0])->get<Payload>(num(optarg(a, "timeout")));
      else
        p = mqs.at(a[0])->get<Payload>();
      kv(r, "payload", plid(p));
    });
  } else if (k == "mget_async") { // SLOT MQ
    exc = guarded([&] {
      void** buf  = new void*(nullptr);
      auto m      = mqs.at(a[1])->get_init();
      m->set_dst_data(buf, sizeof(void*));
      m->start();
      slots[a[0]] = Slot{m, buf, "mess_r", c.aid};
    });
  } else if (k == "obs_mq") {
    kvi(r, "size", mqs.at(a[0])->size());
    // ---------------------------------------------------------------- engine D (model-checker only simcalls)
  } else if (k == "iprobe") { // MBOX send|recv : is a matching communication of the other kind queued?
    // the observer reads an SMPI tag through the match data when SMPI is compiled in: give it zeroed storage
    static char fake_request[4096];
    auto kind  = (a.size() > 1 && a[1] == "send") ? sg4::Mailbox::IprobeKind::SEND : sg4::Mailbox::IprobeKind::RECV;
    auto found = mboxes.at(a[0])->iprobe(kind, {}, fake_request);
    kvi(r, "found", found != nullptr);
  } else if (k == "mc_random") { // LO HI
    kvi(r, "value", MC_random(atoi(a[0].c_str()), atoi(a[1].c_str())));
  } else if (k == "assert_last") { // KEY VALUE : MC_assert(result KEY of the previous op of this actor == VALUE)
    std::string seen = "-";
    auto it          = last_result.find(c.aid);
    if (it != last_result.end()) {
      std::string pat = " " + a[0] + "=";
      size_t p        = it->second.find(pat);
      if (p != std::string::npos) {
        size_t e = it->second.find(' ', p + pat.size());
        seen     = it->second.substr(p + pat.size(), e == std::string::npos ? std::string::npos : e - p - pat.size());
      }
    }
    if (seen != a[1]) {
      kv(r, "fail", "1");
      kv(r, "seen", seen);
      emit("R %ld %a %s %d %d %s%s", SEQ++, now(), c.aid.c_str(), c.inc, idx, k.c_str(), r.c_str());
      mcd_assert_fail(c, idx); // under simgrid-mc this never returns
      return;
    }
    // ---------------------------------------------------------------- io
  } else if (k == "io") { // DISK SIZE read|write
    exc = guarded([&] {
      auto* d = disks.at(a[0]);
      auto x  = d->io_init((sg_size_t)num(a[1]), a[2] == "read" ? sg4::Io::OpType::READ : sg4::Io::OpType::WRITE);
      x->set_name(slotname);
      if (opts.count("track"))
        track_activity(slotname, x, num(a[1]), "io");
      x->start();
      x->wait();
      kvi(r, "performed", x->get_performed_ioops());
      kvd(r, "start", x->get_start_time());
      kvd(r, "finish", x->get_finish_time());
    });
  } else if (k == "io_async" || k == "io_init") { // SLOT DISK SIZE read|write
    exc = guarded([&] {
      auto* d = disks.at(a[1]);
      auto x  = d->io_init((sg_size_t)num(a[2]), a[3] == "read" ? sg4::Io::OpType::READ : sg4::Io::OpType::WRITE);
      x->set_name(a[0]);
      if (opts.count("track"))
        track_activity(a[0], x, num(a[2]), "io");
      if (k == "io_async")
        x->start();
      slots[a[0]] = Slot{x, nullptr, "io", c.aid};
    });
    // ---------------------------------------------------------------- generic activity ops
  } else if (k == "start") {
    if (auto* s = need_slot(a[0]))
      exc = guarded([&] { s->act->start(); });
  } else if (k == "wait") {
    if (auto* s = need_slot(a[0])) {
      exc = guarded([&] { typed_wait_for(*s, -1.0); });
      after_wait(r, *s, exc);
    }
  } else if (k == "wait_for") {
    if (auto* s = need_slot(a[0])) {
      exc = guarded([&] { typed_wait_for(*s, num(a[1])); });
      after_wait(r, *s, exc);
    }
  } else if (k == "wait_for_or_cancel") {
    if (auto* s = need_slot(a[0])) {
      exc = guarded([&] { s->act->wait_for_or_cancel(num(a[1])); });
      after_wait(r, *s, exc);
    }
  } else if (k == "wait_until") {
    if (auto* s = need_slot(a[0])) {
      exc = guarded([&] { s->act->wait_until(num(a[1])); });
      after_wait(r, *s, exc);
    }
  } else if (k == "test") {
    if (auto* s = need_slot(a[0])) {
      bool done = false;
      exc       = guarded([&] { done = s->act->test(); });
      kvi(r, "done", done);
      if (done)
        after_wait(r, *s, exc);
      else
        obs_act(r, *s);
    }
  } else if (k == "cancel") {
    if (auto* s = need_slot(a[0])) {
      exc = guarded([&] { s->act->cancel(); });
      obs_act(r, *s);
    }
  } else if (k == "asuspend") {
    if (auto* s = need_slot(a[0])) {
      exc = guarded([&] { s->act->suspend(); });
      if (!(a.size() > 1 && a[1] == "noobs")) // (reading the remaining work forces a lazy update: an observation that
        obs_act(r, *s);                       //  repairs stale bookkeeping must be optional)
    }
  } else if (k == "aresume") {
    if (auto* s = need_slot(a[0])) {
      exc = guarded([&] { s->act->resume(); });
      if (!(a.size() > 1 && a[1] == "noobs"))
        obs_act(r, *s);
    }
  } else if (k == "obs_act") {
    if (auto* s = need_slot(a[0]))
      obs_act(r, *s);
  } else if (k == "set_bound") { // SLOT B  (exec only, before start)
    if (auto* s = need_slot(a[0]))
      exc = guarded([&] { boost::static_pointer_cast<sg4::Exec>(s->act)->set_bound(num(a[1])); });
  } else if (k == "set_prio") { // SLOT P (exec running: update_priority)
    auto* s = need_slot(a[0]);
    if (s && s->act->get_state() != sg4::Activity::State::STARTED)
      skip = true; // changing the priority of an activity that is over is a usage error
    else if (s)
      exc = guarded([&] {
        if (s->kind == "exec")
          boost::static_pointer_cast<sg4::Exec>(s->act)->update_priority(num(a[1]));
        else if (s->kind == "io")
          boost::static_pointer_cast<sg4::Io>(s->act)->update_priority(num(a[1]));
      });
  } else if (k == "wait_any" || k == "wait_all" || k == "test_any") { // [timeout=T] SLOTS...
    sg4::ActivitySet set;
    std::vector<std::string> names;
    for (auto& n : a) {
      if (n.find('=') != std::string::npos)
        continue;
      auto it = slots.find(n);
      if (it != slots.end() && it->second.act) {
        set.push(it->second.act);
        names.push_back(n);
      }
    }
    if (names.empty())
      skip = true;
    else {
      double to = hasopt(a, "timeout") ? num(optarg(a, "timeout")) : -1;
      sg4::ActivityPtr got;
      exc = guarded([&] {
        if (k == "wait_any")
          got = set.wait_any_for(to);
        else if (k == "wait_all")
          set.wait_all_for(to);
        else
          got = set.test_any();
      });
      if (got) {
        for (auto& n : names)
          if (slots[n].act == got) {
            kv(r, "got", n);
            after_wait(r, slots[n], "");
          }
      } else if (k != "wait_all")
        kv(r, "got", "-");
      if (k == "wait_any" && !exc.empty() && exc != "Timeout") {
        auto f = set.get_failed_activity();
        if (f)
          for (auto& n : names)
            if (slots[n].act == f)
              kv(r, "failed", n);
      }
      if (k == "wait_all")
        for (auto& n : names) {
          std::string st = actstate(slots[n].act.get());
          kv(r, ("st_" + n).c_str(), st);
        }
    }
    // ---------------------------------------------------------------- synchronisation
  } else if (k == "lock") {
    mutexes.at(a[0])->lock();
    kv(r, "owner", aid_of(mutexes.at(a[0])->get_owner()));
  } else if (k == "trylock") {
    bool ok = mutexes.at(a[0])->try_lock();
    kvi(r, "ok", ok);
    kv(r, "owner", aid_of(mutexes.at(a[0])->get_owner()));
  } else if (k == "unlock") { // M [force]
    auto& m = mutexes.at(a[0]);
    if (m->get_owner() != c.self && !(a.size() > 1 && a[1] == "force"))
      skip = true;
    else {
      m->unlock();
      kv(r, "owner", aid_of(m->get_owner()));
    }
  } else if (k == "obs_owner") {
    kv(r, "owner", aid_of(mutexes.at(a[0])->get_owner()));
  } else if (k == "acquire") {
    sems.at(a[0])->acquire();
    kvi(r, "cap", sems.at(a[0])->get_capacity());
  } else if (k == "acquire_timeout") {
    bool to = sems.at(a[0])->acquire_timeout(num(a[1]));
    kvi(r, "timeout", to);
    kvi(r, "cap", sems.at(a[0])->get_capacity());
  } else if (k == "release") {
    sems.at(a[0])->release();
    kvi(r, "cap", sems.at(a[0])->get_capacity());
  } else if (k == "obs_cap") {
    kvi(r, "cap", sems.at(a[0])->get_capacity());
    kvi(r, "would_block", sems.at(a[0])->would_block());
  } else if (k == "cvwait" || k == "cvwait_for" || k == "cvwait_until") { // CV M [T]
    auto& m = mutexes.at(a[1]);
    if (m->get_owner() != c.self)
      skip = true;
    else {
      if (k == "cvwait")
        cvs.at(a[0])->wait(m);
      else if (k == "cvwait_for")
        kvi(r, "timeout", cvs.at(a[0])->wait_for(m, num(a[2])) == std::cv_status::timeout);
      else
        kvi(r, "timeout", cvs.at(a[0])->wait_until(m, num(a[2])) == std::cv_status::timeout);
      kv(r, "owner", aid_of(m->get_owner()));
    }
  } else if (k == "notify_one") {
    cvs.at(a[0])->notify_one();
  } else if (k == "notify_all") {
    cvs.at(a[0])->notify_all();
  } else if (k == "barrier") {
    int v = bars.at(a[0])->wait();
    kvi(r, "ret", v);
    // ---------------------------------------------------------------- actors
  } else if (k == "create") {
    if (specs.count(a[0])) {
      exc = guarded([&] {
        auto x = spawn(a[0]);
        kvi(r, "pid", x->get_pid());
      });
    } else
      skip = true;
  } else if (k == "kill") {
    if (actors.count(a[0])) {
      kvi(r, "target", actors.at(a[0])->get_pid());
      actors.at(a[0])->kill();
    } else
      skip = true;
  } else if (k == "kill_all") {
    sg4::Actor::kill_all();
  } else if (k == "join") { // A [T]
    if (actors.count(a[0])) {
      sg4::ActorPtr tgt = actors.at(a[0]); // the incarnation known at call time
      kvi(r, "target", tgt->get_pid());
      if (a.size() > 1)
        tgt->join(num(a[1]));
      else
        tgt->join();
    } else
      skip = true;
  } else if (k == "daemonize") {
    c.self->daemonize();
  } else if (k == "set_kill_time") { // A T
    if (actors.count(a[0]) && !deadpids.count(actors.at(a[0])->get_pid())) {
      kvi(r, "target", actors.at(a[0])->get_pid());
      actors.at(a[0])->set_kill_time(num(a[1]));
    }
    else
      skip = true;
  } else if (k == "suspend") {
    if (actors.count(a[0]) && !deadpids.count(actors.at(a[0])->get_pid())) {
      kvi(r, "target", actors.at(a[0])->get_pid());
      actors.at(a[0])->suspend();
    } else
      skip = true;
  } else if (k == "resume") {
    if (actors.count(a[0]) && !deadpids.count(actors.at(a[0])->get_pid())) {
      kvi(r, "target", actors.at(a[0])->get_pid());
      actors.at(a[0])->resume();
    } else
      skip = true;
  } else if (k == "set_host") { // A H
    if (actors.count(a[0]) && !deadpids.count(actors.at(a[0])->get_pid()))
      exc = guarded([&] { actors.at(a[0])->set_host(hosts.at(a[1])); });
    else
      skip = true;
  } else if (k == "restart") {
    if (actors.count(a[0]) && actors.at(a[0]).get() != c.self) {
      auto* n = actors.at(a[0])->restart();
      kvi(r, "pid", n->get_pid());
    } else
      skip = true;
  } else if (k == "exit") {
    emit("R %ld %a %s %d %d %s", SEQ++, now(), c.aid.c_str(), c.inc, idx, k.c_str());
    sg4::this_actor::exit();
  } else if (k == "on_exit") { // K : register one more callback tagged K
    int kk          = atoi(a[0].c_str());
    std::string aid = c.aid;
    int inc         = c.inc;
    long mypid = c.self->get_pid();
    sg4::this_actor::on_exit([aid, inc, kk, mypid](bool failed) {
      emit("S %ld %a on_exit aid=%s inc=%d k=%d failed=%d regpid=%ld", SEQ++, now(), aid.c_str(), inc, kk, (int)failed, mypid);
    });
    emit("S %ld %a on_exit_registered aid=%s inc=%d k=%d regpid=%ld", SEQ++, now(), aid.c_str(), inc, kk, mypid);
  } else if (k == "obs_actor") { // A
    if (actors.count(a[0])) {
      auto& x = actors.at(a[0]);
      kvi(r, "suspended", x->is_suspended());
      kvi(r, "daemon", x->is_daemon());
      kv(r, "host", x->get_host() ? x->get_host()->get_cname() : "-");
      kvi(r, "restarts", x->get_restart_count());
      kvd(r, "kill_time", x->get_kill_time());
    } else
      skip = true;
    // ---------------------------------------------------------------- resources / faults
  } else if (k == "host_off") {
    hosts.at(a[0])->turn_off();
  } else if (k == "host_on") {
    hosts.at(a[0])->turn_on();
  } else if (k == "link_off") {
    links.at(a[0])->turn_off();
  } else if (k == "link_on") {
    links.at(a[0])->turn_on();
  } else if (k == "disk_off") {
    disks.at(a[0])->turn_off();
  } else if (k == "disk_on") {
    disks.at(a[0])->turn_on();
  } else if (k == "set_pstate") {
    hosts.at(a[0])->set_pstate(atoi(a[1].c_str()));
  } else if (k == "obs_host") {
    auto* h = hosts.at(a[0]);
    kvi(r, "on", h->is_on());
    kvd(r, "speed", h->get_speed());
    kvd(r, "avail", h->get_available_speed());
    kvd(r, "load", h->get_load());
    kvi(r, "pstate", h->get_pstate());
    if (opts.count("plugin") && opts["plugin"].find("host_energy") != std::string::npos &&
        h->get_property("wattage_per_state") != nullptr)
      kvd(r, "energy", sg_host_get_consumed_energy(h));
  } else if (k == "obs_link") {
    auto* l = links.at(a[0]);
    kvi(r, "on", l->is_on());
    kvd(r, "bw", l->get_bandwidth());
    kvd(r, "lat", l->get_latency());
    kvd(r, "load", l->get_load());
  } else if (k == "obs_clock") {
    // nothing more than the clock of the records
    // ---------------------------------------------------------------- DAG
  } else if (k == "dep") { // SLOT_PRED SLOT_SUCC
    auto* p = need_slot(a[0]);
    auto* s = need_slot(a[1]);
    if (p && s)
      exc = guarded([&] {
        if (p->kind == "exec")
          boost::static_pointer_cast<sg4::Exec>(p->act)->add_successor(s->act);
        else if (p->kind == "io")
          boost::static_pointer_cast<sg4::Io>(p->act)->add_successor(s->act);
        else
          boost::static_pointer_cast<sg4::Comm>(p->act)->add_successor(s->act);
      });
  } else if (k == "assign") { // SLOT HOST | SLOT SRC DST (comm) | SLOT DISK (io)
    if (auto* s = need_slot(a[0]))
      exc = guarded([&] {
        if (s->kind == "exec")
          boost::static_pointer_cast<sg4::Exec>(s->act)->set_host(hosts.at(a[1]));
        else if (s->kind == "sendto") {
          auto comm = boost::static_pointer_cast<sg4::Comm>(s->act);
          if (a[1] != "-")
            comm->set_source(hosts.at(a[1]));
          if (a.size() > 2 && a[2] != "-")
            comm->set_destination(hosts.at(a[2]));
        } else if (s->kind == "io")
          boost::static_pointer_cast<sg4::Io>(s->act)->set_disk(disks.at(a[1]));
      });
  } else if (k == "comm_init") { // SLOT SIZE : unassigned host-to-host comm (DAG node)
    exc = guarded([&] {
      auto comm = sg4::Comm::sendto_init();
      comm->set_payload_size((uint64_t)num(a[1]));
      comm->set_name(a[0]);
      slots[a[0]] = Slot{comm, nullptr, "sendto", c.aid};
    });
  } else if (k == "io_dag") { // SLOT SIZE read|write : unassigned I/O (DAG node)
    exc = guarded([&] {
      auto x = sg4::Io::init();
      x->set_size((sg_size_t)num(a[1]));
      x->set_op_type(a[2] == "read" ? sg4::Io::OpType::READ : sg4::Io::OpType::WRITE);
      x->set_name(a[0]);
      slots[a[0]] = Slot{x, nullptr, "io", c.aid};
    });
  } else {
    if (!fs_op(c, idx, op, r, exc, skip))
      skip = true;
  }
  if (skip)
    kv(r, "skip", "1");
  if (!exc.empty())
    kv(r, "exc", exc);
  if (k != "assert_last")
    last_result[c.aid] = r;
  emit("R %ld %a %s %d %d %s%s", SEQ++, now(), c.aid.c_str(), c.inc, idx, k.c_str(), r.c_str());
}

} // namespace vs
