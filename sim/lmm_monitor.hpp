/* In-process LMM monitor (engine B of /verif, also linked into the engine-A S4U harness).
 *
 * Installed through hook H1 (`simgrid_verif_lmm_post_solve`, see /repo/src/verif_hooks.hpp): after every
 * System::solve() it checks, on the live system,
 *   C15 capacities / value ranges, C16 max-min local fairness (MaxMin systems only), C17 selective == fresh
 *   (selective MaxMin systems only, <= max_vars_rebuild variables), C18 concurrency accounting and staging.
 * Violations are printed as single lines `LMMVIOL <property> <class> <details>`; the monitor never aborts.
 *
 * Everything here uses public members of lmm::System / Constraint / Variable / Element only. */
#ifndef VERIF_LMM_MONITOR_HPP
#define VERIF_LMM_MONITOR_HPP

#include <cstdio>
#include <utility>
#include <vector>

namespace simgrid::kernel::lmm {
class System;
class Variable;
} // namespace simgrid::kernel::lmm

struct VerifLmmMonitorOptions {
  /* relative tolerances; sg_precision_workamount (1e-5 by default) is what the solvers themselves use to decide
   * "saturated", so everything is expressed as a multiple of it (see the assumptions in /verif/lib/refmaxmin.py) */
  double cap_factor       = 2.0;  // C15: usage <= dyn * (1 + cap_factor * precision)
  double fair_factor      = 10.0; // C16: saturation and "largest share" slack
  double sel_factor       = 10.0; // C17: |selective - fresh| <= sel_factor * precision * scale
  size_t max_vars_rebuild = 200;  // C17 rebuild only for systems up to that many variables
  bool check_c15          = true;
  bool check_c16          = true;
  bool check_c17          = true;
  bool check_c18          = true;
  unsigned max_lines      = 200; // stop printing after that many LMMVIOL lines (still counted)
};

/** Install the monitor on hook H1. `out` receives the LMMVIOL lines (may be stdout/stderr/a file). */
void verif_lmm_monitor_install(FILE* out);
/** Remove the hook */
void verif_lmm_monitor_uninstall();
/** Tunables (valid before or after install) */
VerifLmmMonitorOptions& verif_lmm_monitor_options();
/** Print the counters as one line `LMMMON key=value ...` */
void verif_lmm_monitor_report(FILE* out);
/** Number of violations seen so far (all properties) */
unsigned long verif_lmm_monitor_violations();

/** Run the checks now on `sys` (what the hook does). Returns the number of violations found by this call. */
unsigned verif_lmm_monitor_check(simgrid::kernel::lmm::System* sys, FILE* out);

/** Build a FRESH non-selective MaxMin system holding the current constraints (bound, policy, callback), variables
 * (penalty, bound) and elements (weights) of `sys`, solve it from scratch and return its values, in the order of
 * `sys->variable_set`. Returns false if the rebuild was not possible (exception). Re-entrancy safe wrt. the hook. */
bool verif_lmm_fresh_values(simgrid::kernel::lmm::System* sys,
                            std::vector<std::pair<const simgrid::kernel::lmm::Variable*, double>>& out);

/** Kind of solver behind `sys`: 'M' MaxMin, 'F' FairBottleneck, 'B' BmfSystem, '?' unknown */
char verif_lmm_solver_kind(const simgrid::kernel::lmm::System* sys);
/** Capacity of a constraint "as adjusted by its sharing callback" (specification, not what the solver stored) */
namespace simgrid::kernel::lmm {
class Constraint;
}
double verif_lmm_expected_dynamic_bound(const simgrid::kernel::lmm::Constraint* cnst);

#endif
