/* c29_repro: minimal standalone reproducers for C29 findings, independent of mpicoll.c and of the Python reference.
 * One legal MPI collective call on MPI_COMM_WORLD with closed-form data, checked in place.
 *   smpirun -np N -platform P [-hostfile H] --cfg=smpi/<coll>:<algo> c29_repro <kind> <count> [root] [inplace] [more] [dtype]
 * kinds: bcast reduce allreduce allgather allgatherv alltoall alltoallv gather scatter reduce_scatter
 *        reduce_scatter_block barrier2 (two barriers; detects a rank leaving before the last one entered)
 *        ibarrier iexscan iscan ireduce_user iallreduce_user ireduce_scatter iscatter scatterv_inplace
 *        iscan_user irsb_user (user op on contiguous(3)) ialltoall bcast_seq (3 back-to-back broadcasts)
 *        reduce_user allreduce_user (blocking, user op; dtype 1 contiguous(3), 2 vector(2,1,2))
 * `more`: for the v kinds / reduce_scatter 1 = per-rank counts differ (count + rank % 3), 2 = even ranks get count 0;
 *         barrier kinds: skew in us.
 * `dtype`: 0 = MPI_INT, 1 = vector(2,1,2) of int (extent 12, size 8) for alltoallv, contiguous(3) for the *_user kinds.
 * Prints "rank R OK" or "rank R WRONG ..." ; exit code stays 0 (the verdict is the text). */
#include <mpi.h>
#include <stdio.h>
#include <stdlib.h>
#include <string.h>
#define V(r, i) ((r) * 1000 + (i) % 97 + 1)
static void addmod(void* in, void* io, int* n, MPI_Datatype* t)
{ /* MPI_INT, contiguous(3) or vector(2,1,2) (extent 3 ints, middle one is a gap and is left alone) */
  int* a = in; int* b = io; int k = (*t == MPI_INT) ? 1 : 3; int size; MPI_Type_size(*t, &size);
  for (int i = 0; i < *n * k; i++) if (!(size == 8 && i % 3 == 1)) b[i] = (a[i] + b[i]) % 10007; }
int main(int argc, char** argv)
{
  MPI_Init(&argc, &argv);
  int r, n; MPI_Comm_rank(MPI_COMM_WORLD, &r); MPI_Comm_size(MPI_COMM_WORLD, &n);
  const char* k = argc > 1 ? argv[1] : "bcast";
  int c = argc > 2 ? atoi(argv[2]) : 1, root = argc > 3 ? atoi(argv[3]) : 0, ip = argc > 4 ? atoi(argv[4]) : 0,
      more = argc > 5 ? atoi(argv[5]) : 0, dty = argc > 6 ? atoi(argv[6]) : 0;
  int bad = 0, first = -1, got = 0, want = 0;
#define CHECK(idx, g, w) do { if ((g) != (w)) { if (!bad) { first = (idx); got = (g); want = (w); } bad++; } } while (0)
  int* cnt = malloc(n * sizeof(int)); int* dsp = malloc(n * sizeof(int)); int tot = 0;
  for (int q = 0; q < n; q++) { cnt[q] = more == 2 ? (q % 2 ? c : 0) : c + (more ? q % 3 : 0); dsp[q] = tot; tot += cnt[q]; }
  int big = (tot > c * n ? tot : c * n) + 4;
  int* s = malloc((big + 4) * sizeof(int)); int* d = malloc((big + 4) * sizeof(int));
  for (int i = 0; i < big + 4; i++) { s[i] = -7; d[i] = -7; }
  if (!strcmp(k, "bcast")) {
    if (r == root) for (int i = 0; i < c; i++) d[i] = V(root, i);
    if (more && r == 1 % n) smpi_execute_flops(1000.0 * more);      /* `more`: rank 1 arrives that many us late */
    MPI_Bcast(d, c, MPI_INT, root, MPI_COMM_WORLD);
    for (int i = 0; i < c; i++) CHECK(i, d[i], V(root, i));
    CHECK(c, d[c], -7);
  } else if (!strcmp(k, "reduce") || !strcmp(k, "allreduce")) {
    int all = !strcmp(k, "allreduce");
    for (int i = 0; i < c; i++) s[i] = V(r, i);
    if (ip && (all || r == root)) { memcpy(d, s, c * sizeof(int)); }
    if (all) MPI_Allreduce(ip ? MPI_IN_PLACE : s, d, c, MPI_INT, MPI_SUM, MPI_COMM_WORLD);
    else MPI_Reduce(ip && r == root ? MPI_IN_PLACE : s, d, c, MPI_INT, MPI_SUM, root, MPI_COMM_WORLD);
    if (all || r == root) { for (int i = 0; i < c; i++) { int w = 0; for (int q = 0; q < n; q++) w += V(q, i); CHECK(i, d[i], w); } CHECK(c, d[c], -7); }
  } else if (!strcmp(k, "allgather") || !strcmp(k, "gather")) {
    int all = !strcmp(k, "allgather");
    for (int i = 0; i < c; i++) s[i] = V(r, i);
    if (ip && (all || r == root)) memcpy(d + r * c, s, c * sizeof(int));
    if (all) MPI_Allgather(ip ? MPI_IN_PLACE : s, c, MPI_INT, d, c, MPI_INT, MPI_COMM_WORLD);
    else MPI_Gather(ip && r == root ? MPI_IN_PLACE : s, c, MPI_INT, d, c, MPI_INT, root, MPI_COMM_WORLD);
    if (all || r == root) { for (int q = 0; q < n; q++) for (int i = 0; i < c; i++) CHECK(q * c + i, d[q * c + i], V(q, i)); CHECK(n * c, d[n * c], -7); }
  } else if (!strcmp(k, "allgatherv")) {
    for (int i = 0; i < cnt[r]; i++) s[i] = V(r, i);
    MPI_Allgatherv(s, cnt[r], MPI_INT, d, cnt, dsp, MPI_INT, MPI_COMM_WORLD);
    for (int q = 0; q < n; q++) for (int i = 0; i < cnt[q]; i++) CHECK(dsp[q] + i, d[dsp[q] + i], V(q, i));
    CHECK(tot, d[tot], -7);
  } else if (!strcmp(k, "scatter")) {
    if (r == root) for (int q = 0; q < n; q++) for (int i = 0; i < c; i++) s[q * c + i] = V(q, i);
    MPI_Scatter(s, c, MPI_INT, ip && r == root ? MPI_IN_PLACE : d, c, MPI_INT, root, MPI_COMM_WORLD);
    if (!(ip && r == root)) { for (int i = 0; i < c; i++) CHECK(i, d[i], V(r, i)); CHECK(c, d[c], -7); }
    if (r == root) for (int q = 0; q < n; q++) for (int i = 0; i < c; i++) CHECK(100000 + q * c + i, s[q * c + i], V(q, i)); /* send buffer intact */
  } else if (!strcmp(k, "scatterv_inplace")) {
    if (r == root) for (int q = 0; q < n; q++) for (int i = 0; i < cnt[q]; i++) s[dsp[q] + i] = V(q, i);
    MPI_Scatterv(s, cnt, dsp, MPI_INT, r == root ? MPI_IN_PLACE : d, cnt[r], MPI_INT, root, MPI_COMM_WORLD);
    if (r != root) for (int i = 0; i < cnt[r]; i++) CHECK(i, d[i], V(r, i));
  } else if (!strcmp(k, "alltoall")) {
    for (int q = 0; q < n; q++) for (int i = 0; i < c; i++) s[q * c + i] = V(r, q * 7 + i);
    if (ip) memcpy(d, s, n * c * sizeof(int));
    MPI_Alltoall(ip ? MPI_IN_PLACE : s, c, MPI_INT, d, c, MPI_INT, MPI_COMM_WORLD);
    for (int q = 0; q < n; q++) for (int i = 0; i < c; i++) CHECK(q * c + i, d[q * c + i], V(q, r * 7 + i));
    CHECK(n * c, d[n * c], -7);
  } else if (!strcmp(k, "alltoallv")) { /* symmetric counts c; dtype 1: vector(2,1,2) elements, 3 ints of extent each */
    MPI_Datatype t = MPI_INT; int ext = 1;
    if (dty) { MPI_Type_vector(2, 1, 2, MPI_INT, &t); MPI_Type_commit(&t); ext = 3; }
    int* S = malloc((n * c * ext + 8) * sizeof(int)); int* D = malloc((n * c * ext + 8) * sizeof(int));
    for (int i = 0; i < n * c * ext + 8; i++) { S[i] = -7; D[i] = -7; }
    for (int q = 0; q < n; q++) { cnt[q] = c; dsp[q] = q * c; for (int i = 0; i < c * ext; i++) if (!dty || i % 3 != 1) S[q * c * ext + i] = V(r, q * 7 + i); }
    if (ip) memcpy(D, S, (n * c * ext) * sizeof(int));
    MPI_Alltoallv(ip ? MPI_IN_PLACE : S, cnt, dsp, t, D, cnt, dsp, t, MPI_COMM_WORLD);
    for (int q = 0; q < n; q++) for (int i = 0; i < c * ext; i++) if (!dty || i % 3 != 1) CHECK(q * c * ext + i, D[q * c * ext + i], V(q, r * 7 + i));
  } else if (!strcmp(k, "reduce_scatter") || !strcmp(k, "reduce_scatter_block") || !strcmp(k, "ireduce_scatter")) {
    int blk = !strcmp(k, "reduce_scatter_block");
    if (blk) { tot = 0; for (int q = 0; q < n; q++) { cnt[q] = c; dsp[q] = tot; tot += c; } }
    for (int i = 0; i < tot; i++) s[i] = V(r, i);
    if (ip) memcpy(d, s, tot * sizeof(int));
    if (blk) MPI_Reduce_scatter_block(ip ? MPI_IN_PLACE : s, d, c, MPI_INT, MPI_SUM, MPI_COMM_WORLD);
    else if (k[0] == 'i') { MPI_Request q; MPI_Ireduce_scatter(ip ? MPI_IN_PLACE : s, d, cnt, MPI_INT, MPI_SUM, MPI_COMM_WORLD, &q); MPI_Wait(&q, MPI_STATUS_IGNORE); }
    else MPI_Reduce_scatter(ip ? MPI_IN_PLACE : s, d, cnt, MPI_INT, MPI_SUM, MPI_COMM_WORLD);
    for (int i = 0; i < cnt[r]; i++) { int w = 0; for (int q = 0; q < n; q++) w += V(q, dsp[r] + i); CHECK(i, d[i], w); }
  } else if (!strcmp(k, "barrier2") || !strcmp(k, "ibarrier")) {
    double t_in, t_out, max_in, min_out;
    MPI_Barrier(MPI_COMM_WORLD);
    if (r == n - 1) smpi_execute_flops(1000.0 * (more ? more : 500)); /* the last rank arrives late */
    t_in = MPI_Wtime();
    if (k[0] == 'i') { MPI_Request q; MPI_Ibarrier(MPI_COMM_WORLD, &q); MPI_Wait(&q, MPI_STATUS_IGNORE); } else MPI_Barrier(MPI_COMM_WORLD);
    t_out = MPI_Wtime();
    MPI_Allreduce(&t_in, &max_in, 1, MPI_DOUBLE, MPI_MAX, MPI_COMM_WORLD);
    MPI_Allreduce(&t_out, &min_out, 1, MPI_DOUBLE, MPI_MIN, MPI_COMM_WORLD);
    if (min_out < max_in) { bad = 1; printf("rank %d: somebody left the barrier at %.9f, last entry at %.9f\n", r, min_out, max_in); }
  } else if (!strcmp(k, "iexscan") || !strcmp(k, "iscan")) {
    int ex = k[1] == 'e'; MPI_Request q;
    for (int i = 0; i < c; i++) s[i] = (r + i) % 3 == 0 ? -1 : 2;      /* MPI_PROD of small values */
    if (ex) MPI_Iexscan(s, d, c, MPI_INT, MPI_PROD, MPI_COMM_WORLD, &q); else MPI_Iscan(s, d, c, MPI_INT, MPI_PROD, MPI_COMM_WORLD, &q);
    if (more) smpi_execute_flops(1000.0 * more);
    MPI_Wait(&q, MPI_STATUS_IGNORE);
    if (!(ex && r == 0)) for (int i = 0; i < c; i++) { int w = 1; for (int p = 0; p < (ex ? r : r + 1); p++) w *= (p + i) % 3 == 0 ? -1 : 2; CHECK(i, d[i], w); }
  } else if (!strcmp(k, "ireduce_user") || !strcmp(k, "iallreduce_user") || !strcmp(k, "allreduce_user") || !strcmp(k, "reduce_user")) {
    /* user op on a committed contiguous(3) type: c elements = 3c ints */
    MPI_Op op; MPI_Op_create(addmod, 1, &op); MPI_Request q = MPI_REQUEST_NULL;
    MPI_Datatype t3; MPI_Type_contiguous(3, MPI_INT, &t3); MPI_Type_commit(&t3);
    MPI_Datatype tv; MPI_Type_vector(2, 1, 2, MPI_INT, &tv); MPI_Type_commit(&tv);   /* dtype 2: {int, gap, int}; the op below then also
       combines the gap slot, harmless: what is checked for dtype 2 is that the gap of the RECEIVE buffer keeps its -7 */
    MPI_Datatype ty = dty == 2 ? tv : dty ? t3 : MPI_INT; int per = dty ? 3 : 1;      /* dtype 1: c elements of contiguous(3) = 3c ints */
    for (int i = 0; i < c * per; i++) s[i] = V(r, i) % 10007;
    if (!strcmp(k, "ireduce_user")) MPI_Ireduce(s, d, c, ty, op, root, MPI_COMM_WORLD, &q);
    else if (!strcmp(k, "iallreduce_user")) MPI_Iallreduce(s, d, c, ty, op, MPI_COMM_WORLD, &q);
    else if (!strcmp(k, "allreduce_user")) MPI_Allreduce(s, d, c, ty, op, MPI_COMM_WORLD);
    else MPI_Reduce(s, d, c, ty, op, root, MPI_COMM_WORLD);
    if (q != MPI_REQUEST_NULL) MPI_Wait(&q, MPI_STATUS_IGNORE);
    if (strstr(k, "allreduce") || r == root)
      for (int i = 0; i < c * per; i++) {
        if (dty == 2 && i % 3 == 1) { CHECK(i, d[i], -7); continue; }   /* gap of the vector type: not part of the receive buffer */
        int w = 0; for (int p = 0; p < n; p++) w = (w + V(p, i) % 10007) % 10007; CHECK(i, d[i], w); }
  } else if (!strcmp(k, "iscan_user") || !strcmp(k, "irsb_user")) {
    /* user op on contiguous(3): MPI_Iscan of c elements, or MPI_Ireduce_scatter_block of c elements per rank */
    MPI_Op op; MPI_Op_create(addmod, 1, &op); MPI_Request q;
    MPI_Datatype t3; MPI_Type_contiguous(3, MPI_INT, &t3); MPI_Type_commit(&t3);
    int sc = k[1] == 's';
    int items = (sc ? c : c * n) * 3;
    int* S = malloc((items + 8) * sizeof(int)); int* D = malloc((items + 8) * sizeof(int));
    for (int i = 0; i < items; i++) { S[i] = V(r, i) % 10007; D[i] = -7; }
    if (sc) MPI_Iscan(S, D, c, t3, op, MPI_COMM_WORLD, &q); else MPI_Ireduce_scatter_block(S, D, c, t3, op, MPI_COMM_WORLD, &q);
    if (more) smpi_execute_flops(1000.0 * more);
    MPI_Wait(&q, MPI_STATUS_IGNORE);
    for (int i = 0; i < c * 3; i++) {
      int w = 0, src = sc ? i : r * c * 3 + i;
      for (int p = 0; p < (sc ? r + 1 : n); p++) w = (w + V(p, src) % 10007) % 10007;
      CHECK(i, D[i], w);
    }
  } else if (!strcmp(k, "ialltoall")) {
    MPI_Request q;
    for (int p = 0; p < n; p++) for (int i = 0; i < c; i++) s[p * c + i] = V(r, p * 7 + i);
    if (ip) memcpy(d, s, n * c * sizeof(int));
    MPI_Ialltoall(ip ? MPI_IN_PLACE : s, c, MPI_INT, d, c, MPI_INT, MPI_COMM_WORLD, &q);
    if (more) smpi_execute_flops(1000.0 * more);
    MPI_Wait(&q, MPI_STATUS_IGNORE);
    for (int p = 0; p < n; p++) for (int i = 0; i < c; i++) CHECK(p * c + i, d[p * c + i], V(p, r * 7 + i));
  } else if (!strcmp(k, "bcast_seq")) { /* back-to-back broadcasts: count 0 from rank 1, barrier, 3 ints from rank 0, c ints from rank 1 */
    int roots[3] = {1 % n, 0, 1 % n}, cnts[3] = {0, 3, c};
    for (int j = 0; j < 3; j++) {
      for (int i = 0; i < cnts[j]; i++) d[i] = r == roots[j] ? V(roots[j], i + j) : -7;
      MPI_Bcast(d, cnts[j], MPI_INT, roots[j], MPI_COMM_WORLD);
      for (int i = 0; i < cnts[j]; i++) CHECK(j * 1000 + i, d[i], V(roots[j], i + j));
      if (j == 0) { if (r == n - 1) smpi_execute_flops(3e6); MPI_Barrier(MPI_COMM_WORLD); }
    }
  } else if (!strcmp(k, "iscatter")) {
    MPI_Request q;
    if (r == root) for (int p = 0; p < n; p++) for (int i = 0; i < c; i++) s[p * c + i] = V(p, i);
    MPI_Iscatter(s, c, MPI_INT, d, c, MPI_INT, root, MPI_COMM_WORLD, &q);
    MPI_Wait(&q, MPI_STATUS_IGNORE);
    for (int i = 0; i < c; i++) CHECK(i, d[i], V(r, i));
  } else {
    if (r == 0) printf("unknown kind %s\n", k);
  }
  if (bad) printf("rank %d WRONG: %d values differ, first at %d: got %d expected %d\n", r, bad, first, got, want);
  else printf("rank %d OK\n", r);
  MPI_Finalize();
  return 0;
}
