/* detsched_smoke: feasibility of property C02 part 2 under detsched. A small S4U program (8 actors: exec, mutex,
 * mailbox, sleep) runs on the context factory / nthreads / synchro given by --cfg, with the real worker threads
 * (library-internal Parmap of the raw/boost factories, or one thread per actor for the thread factory) driven by
 * detsched. Hook H3 (simgrid_verif_yield = detsched_yield) adds scheduling points inside Parmap::next()/work().
 * Prints the per-actor logs (each actor only writes its own buffer) and a final LOGHASH line: the hash must be
 * the same for every configuration and every seed.
 *
 * usage: detsched_smoke [--detsched=SEED:SPEC | --detsched=off] [--cfg=contexts/factory:raw ...]
 * order that matters:  Engine e(&argc, argv)  ->  detsched_enable*()  ->  create actors  ->  e.run()  -> _exit() */
#include <simgrid/s4u.hpp>
#include "src/verif_hooks.hpp"

#include <cstdio>
#include <cstdlib>
#include <cstring>
#include <string>
#include <unistd.h>
#include <vector>

#include "detsched.h"

namespace sg4 = simgrid::s4u;

static std::vector<std::string> logs(8);

static void logf(int me, const char* what, double v)
{
  char buf[128];
  snprintf(buf, sizeof buf, "[%.6f] %s %.3f;", sg4::Engine::get_clock(), what, v);
  logs[me] += buf;
}

static void actor(int me, sg4::MutexPtr mtx, int* shared)
{
  sg4::Mailbox* to   = sg4::Mailbox::by_name("mb" + std::to_string((me + 1) % 8));
  sg4::Mailbox* mine = sg4::Mailbox::by_name("mb" + std::to_string(me));
  for (int round = 0; round < 4; round++) {
    sg4::this_actor::execute(1e6 * (1 + (me * 7 + round * 3) % 5));
    logf(me, "exec", round);
    {
      mtx->lock();
      int v = ++*shared; /* synchronised by the simulated mutex: the order is decided by the simulation */
      sg4::this_actor::sleep_for(0.001 * (1 + me % 3));
      mtx->unlock();
      logf(me, "crit", v);
    }
    if (me % 2 == 0) {
      to->put(new double(me * 100 + round), 1000 * (1 + me));
      auto* r = mine->get<double>();
      logf(me, "got", *r);
      delete r;
    } else {
      auto* r = mine->get<double>();
      logf(me, "got", *r);
      delete r;
      to->put(new double(me * 100 + round), 1000 * (1 + me));
    }
    sg4::this_actor::sleep_for(0.01 * ((me + round) % 4));
  }
  logf(me, "end", 0);
}

int main(int argc, char** argv)
{
  std::string ds = "off";
  std::vector<char*> args;
  for (int i = 0; i < argc; i++) {
    if (strncmp(argv[i], "--detsched=", 11) == 0)
      ds = argv[i] + 11;
    else
      args.push_back(argv[i]);
  }
  int sg_argc = (int)args.size();
  args.push_back(nullptr);
  sg4::Engine e(&sg_argc, args.data());

  auto* zone = e.get_netzone_root();
  std::vector<sg4::Host*> hosts;
  for (int i = 0; i < 4; i++)
    hosts.push_back(zone->add_host("h" + std::to_string(i), 1e9 * (1 + i)));
  auto* link = zone->add_link("l", 1e8)->set_latency(1e-4);
  for (int i = 0; i < 4; i++)
    for (int j = i + 1; j < 4; j++)
      zone->add_route(hosts[i], hosts[j], {link});
  zone->seal();

  if (ds != "off") {
    /* after the Engine (no thread exists yet), before the first actor (thread factory: one thread per actor,
     * created in the actor's constructor; raw/boost: the Parmap workers are created at the first parallel round) */
    size_t c          = ds.find(':');
    uint64_t seed     = strtoull(ds.substr(0, c).c_str(), nullptr, 10);
    std::string spec  = c == std::string::npos ? "" : ds.substr(c + 1);
    if (detsched_enable_spec(seed, spec.c_str()) != 0) {
      fprintf(stderr, "bad detsched spec\n");
      return 2;
    }
    simgrid_verif_yield = detsched_yield; /* H3 */
  }

  auto mtx   = sg4::Mutex::create();
  int shared = 0;
  for (int i = 0; i < 8; i++)
    hosts[i % 4]->add_actor("a" + std::to_string(i), actor, i, mtx, &shared);
  e.run();

  unsigned long long h = 1469598103934665603ull;
  for (int i = 0; i < 8; i++) {
    printf("actor %d: %s\n", i, logs[i].c_str());
    for (char ch : logs[i])
      h = (h ^ (unsigned char)ch) * 1099511628211ull;
  }
  printf("LOGHASH %016llx clock=%.6f detsched=%s trace=%016llx steps=%ld switches=%ld threads=%d max_runnable=%d\n", h,
         sg4::Engine::get_clock(), ds.c_str(), detsched_hash(), detsched_steps(), detsched_switches(),
         detsched_threads_created(), detsched_max_runnable());
  fflush(stdout);
  _exit(0); /* detsched stays enabled up to the end: no static destruction with parked threads */
}
