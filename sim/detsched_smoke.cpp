int main() { return 0; } /* placeholder, replaced below */
