# engine C: generated-plan MPI interpreter, compiled with the tree's smpicc (dynamically linked to libsimgrid)
TARGETS += $(OUT)/mpisim
$(OUT)/mpisim: /verif/sim/mpisim.c $(SMPICC)
	$(SMPICC) -O1 -g -Wall -Wno-unused-function -o $@ /verif/sim/mpisim.c
