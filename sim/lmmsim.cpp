/* lmmsim: engine B of /verif. Executes a seeded *history* of modifications at the LMM API against the real
 * simgrid::kernel::lmm::System implementations (MaxMin, FairBottleneck, BmfSystem; with or without selective update)
 * and dumps the full state after every solve (optionally after every operation), machine-readably.
 *
 * Input (stdin), one item per line; numbers are decimal doubles (Python repr), ids are arbitrary ints chosen by the
 * generator. Operations that refer to an unknown/dropped id are *skipped* (so shrinking can delete lines freely).
 *
 *   solver maxmin|fairbottleneck|bmf       header (any order, all optional)
 *   selective 0|1
 *   dump_every 0|1                         dump the state after every operation, not only after solves
 *   monitor 0|1                            install the in-process monitor (lmm_monitor.cpp) on hook H1
 *   fresh 0|1                              after each solve also solve a FRESH non-selective MaxMin copy (C17)
 *   begin
 *   C <cid> <bound> <S|F|N|W> <cbkind> <limit>    constraint_new + set_sharing_policy + set_concurrency_limit
 *   V <vid> <penalty> <bound> <ncnst>             variable_new (with a real resource::Action as id)
 *   E <vid> <cid> <weight>                        expand
 *   B <vid> <bound>                               update_variable_bound
 *   P <vid> <penalty>                             update_variable_penalty (0 = suspend)
 *   K <cid> <bound>                               update_constraint_bound
 *   F <vid>                                       variable_free
 *   S                                             solve
 *
 * Output (stdout):
 *   OP <idx> <code> ok | skip <reason>
 *   STATE <idx> solve|op
 *   c <cid> <bound> <dynamic_bound_ field> <expected dynamic bound> <policy> <cbkind> <limit> <current> <slack>
 *     <#enabled elems> <#disabled elems>
 *   v <vid> <penalty> <staged> <bound> <value> <nelem> {<cid> <weight> <max_consumption_weight>}*
 *   f <vid> <value in the fresh system>           (only with fresh 1, after solves)
 *   END
 *   LMMVIOL ... / LMMMON ...                      (monitor)
 *   ABORT <idx> <code>                            the library aborted (xbt_die / xbt_assert / BMF give-up) in op idx;
 *                                                 the message is on stderr; exit status is SIGABRT
 *   CPULIMIT <idx> <code>                         op idx burnt 20 s of CPU time (a history takes milliseconds): the solver
 *                                                 does not return; exit status is SIGXCPU
 *   EXCEPTION <idx> <what>                        a C++ exception escaped the library; the run stops there
 *   DONE solves=<n> effective=<n> wrap=<0|1>
 *
 * No private member of /repo classes is accessed (no `#define private public`): the wrap of the private
 * visited_counter_ is inferred from VERIF_LMM_VISITED_START + the number of effective selective solves. */

#include "lmm_monitor.hpp"

#include "simgrid/kernel/resource/Action.hpp"
#include "simgrid/kernel/resource/Model.hpp"
#include "src/kernel/lmm/System.hpp"

#include <csignal>
#include <cstdio>
#include <cstdlib>
#include <cstring>
#include <map>
#include <string>
#include <sys/resource.h>
#include <unistd.h>
#include <unordered_map>
#include <vector>

namespace lmm = simgrid::kernel::lmm;
namespace res = simgrid::kernel::resource;
using Policy  = lmm::Constraint::SharingPolicy;

namespace {

class VModel : public res::Model {
public:
  VModel() : Model("verif-lmmsim") {}
};

class VAction : public res::Action {
public:
  explicit VAction(res::Model* m) : Action(m, 1.0, false) {}
  void update_remains_lazy(double) override {}
};

struct CnstRec {
  lmm::Constraint* cnst;
  int cbkind;
};
struct VarRec {
  lmm::Variable* var;
  VAction* action;
};

/* deterministic capacity callbacks for NONLINEAR / WIFI constraints */
double cb_eval(int kind, double cap, int n)
{
  switch (kind) {
    case 1:
      return cap * 0.5;
    case 2:
      return cap / (1 + n);
    case 3:
      return n <= 1 ? cap : cap * 0.75;
    case 4:
      return cap * (1 + 0.25 * n);
    case 5:
      return n >= 2 ? 0.0 : cap; // a resource that collapses under concurrency
    default:
      return cap;
  }
}

int g_cur_idx       = -1;
char g_cur_code     = '?';
volatile sig_atomic_t g_in_abort = 0;

void on_abort(int)
{
  if (g_in_abort)
    return;
  g_in_abort = 1;
  fflush(stdout); // we are in a synchronous abort() called by library code, never inside stdio
  char buf[64];
  int n = snprintf(buf, sizeof buf, "ABORT %d %c\n", g_cur_idx, g_cur_code);
  if (write(1, buf, n) < 0) {
  }
  // returning lets abort() finish with the default action: exit status = SIGABRT
}

void on_xcpu(int)
{
  fflush(stdout); // we interrupt a solver loop, never stdio
  char buf[64];
  int n = snprintf(buf, sizeof buf, "CPULIMIT %d %c\n", g_cur_idx, g_cur_code);
  if (write(1, buf, n) < 0) {
  }
  signal(SIGXCPU, SIG_DFL);
  raise(SIGXCPU);
}

const char* policy_name(Policy p)
{
  switch (p) {
    case Policy::SHARED:
      return "S";
    case Policy::FATPIPE:
      return "F";
    case Policy::NONLINEAR:
      return "N";
    case Policy::WIFI:
      return "W";
  }
  return "?";
}

} // namespace

int main(int argc, char** argv)
{
  struct rlimit rl = {0, 0};
  setrlimit(RLIMIT_CORE, &rl);
  signal(SIGABRT, on_abort);
  /* self-destruct: a solver that loops forever is killed by SIGXCPU after 20 s of CPU time (load independent; a normal
   * history takes a few ms), and by SIGALRM after 120 s of wall time whatever happens to the runner */
  struct rlimit cpu = {20, 25};
  setrlimit(RLIMIT_CPU, &cpu);
  signal(SIGXCPU, on_xcpu);
  alarm(120);
  static char outbuf[1 << 16];
  setvbuf(stdout, outbuf, _IOFBF, sizeof outbuf);

  std::string solver = "maxmin";
  bool selective = false, dump_every = false, monitor = false, fresh = false;

  char line[512];
  /* ---- header */
  while (fgets(line, sizeof line, stdin)) {
    char key[64], val[64];
    if (line[0] == '#' || line[0] == '\n')
      continue;
    if (strncmp(line, "begin", 5) == 0)
      break;
    if (sscanf(line, "%63s %63s", key, val) != 2)
      continue;
    if (strcmp(key, "solver") == 0)
      solver = val;
    else if (strcmp(key, "selective") == 0)
      selective = atoi(val) != 0;
    else if (strcmp(key, "dump_every") == 0)
      dump_every = atoi(val) != 0;
    else if (strcmp(key, "monitor") == 0)
      monitor = atoi(val) != 0;
    else if (strcmp(key, "fresh") == 0)
      fresh = atoi(val) != 0;
  }
  if (solver != "maxmin" && solver != "fairbottleneck" && solver != "bmf") {
    fprintf(stderr, "lmmsim: unknown solver %s\n", solver.c_str());
    return 3;
  }

  unsigned long long visited_start = 1;
  if (const char* s = getenv("VERIF_LMM_VISITED_START"))
    visited_start = static_cast<unsigned>(strtoul(s, nullptr, 0));

  auto* model = new VModel();
  lmm::System* sys = lmm::System::build(solver, selective);
  if (sys == nullptr) {
    fprintf(stderr, "lmmsim: solver %s not available in this build\n", solver.c_str());
    return 3;
  }
  model->set_maxmin_system(sys);
  if (monitor)
    verif_lmm_monitor_install(stdout);

  std::map<int, CnstRec> cnsts; // ordered: dumps are in id order
  std::map<int, VarRec> vars;
  std::unordered_map<const lmm::Constraint*, int> cid_of;
  std::unordered_map<const lmm::Variable*, int> vid_of;

  unsigned long solves = 0, effective = 0;

  auto dump = [&](int idx, const char* why, bool with_fresh) {
    printf("STATE %d %s\n", idx, why);
    for (auto const& [cid, rec] : cnsts) {
      const lmm::Constraint* c = rec.cnst;
      Policy p                 = c->get_sharing_policy();
      double dynexp            = c->bound_;
      if ((p == Policy::NONLINEAR || p == Policy::WIFI) && rec.cbkind > 0)
        dynexp = cb_eval(rec.cbkind, c->bound_, c->concurrency_current_);
      int limit = c->get_concurrency_limit();
      printf("c %d %.17g %.17g %.17g %s %d %d %d %d %zu %zu\n", cid, c->bound_, c->dynamic_bound_, dynexp,
             policy_name(p), rec.cbkind, limit, c->concurrency_current_, limit < 0 ? -1 : c->get_concurrency_slack(),
             c->enabled_element_set_.size(), c->disabled_element_set_.size());
    }
    for (auto const& [vid, rec] : vars) {
      const lmm::Variable* v = rec.var;
      printf("v %d %.17g %.17g %.17g %.17g %zu", vid, v->sharing_penalty_, v->staged_sharing_penalty_, v->bound_,
             v->value_, v->cnsts_.size());
      for (lmm::Element const& e : v->cnsts_)
        printf(" %d %.17g %.17g", cid_of[e.constraint], e.consumption_weight, e.max_consumption_weight);
      printf("\n");
    }
    if (with_fresh) {
      std::vector<std::pair<const lmm::Variable*, double>> fv;
      if (verif_lmm_fresh_values(sys, fv)) {
        for (auto const& [var, val] : fv)
          printf("f %d %.17g\n", vid_of[var], val);
      } else {
        printf("freshfail\n");
      }
    }
    printf("END\n");
  };

  int idx = -1;
  try {
    while (fgets(line, sizeof line, stdin)) {
      if (line[0] == '#' || line[0] == '\n')
        continue;
      idx++;
      char code  = line[0];
      g_cur_idx  = idx;
      g_cur_code = code;
      const char* skip = nullptr;
      bool is_solve    = false;
      switch (code) {
        case 'C': {
          int cid, cbkind, limit;
          double bound;
          char pol;
          if (sscanf(line + 1, "%d %lf %c %d %d", &cid, &bound, &pol, &cbkind, &limit) != 5) {
            skip = "parse";
            break;
          }
          if (cnsts.count(cid)) {
            skip = "dup";
            break;
          }
          lmm::Constraint* c = sys->constraint_new(nullptr, bound);
          Policy p = pol == 'F' ? Policy::FATPIPE : pol == 'N' ? Policy::NONLINEAR : pol == 'W' ? Policy::WIFI
                                                                                               : Policy::SHARED;
          if ((p == Policy::NONLINEAR || p == Policy::WIFI) && cbkind > 0)
            c->set_sharing_policy(p, [cbkind](double cap, int n) { return cb_eval(cbkind, cap, n); });
          else {
            c->set_sharing_policy(p, {});
            cbkind = 0;
          }
          c->set_concurrency_limit(limit);
          cnsts[cid] = CnstRec{c, cbkind};
          cid_of[c]  = cid;
          break;
        }
        case 'V': {
          int vid, ncap;
          double pen, bound;
          if (sscanf(line + 1, "%d %lf %lf %d", &vid, &pen, &bound, &ncap) != 4 || ncap < 0 || pen < 0) {
            skip = "parse";
            break;
          }
          if (vars.count(vid)) {
            skip = "dup";
            break;
          }
          auto* act          = new VAction(model);
          lmm::Variable* var = sys->variable_new(act, pen, bound, ncap);
          act->set_variable(var);
          vars[vid]   = VarRec{var, act};
          vid_of[var] = vid;
          break;
        }
        case 'E': {
          int vid, cid;
          double w;
          if (sscanf(line + 1, "%d %d %lf", &vid, &cid, &w) != 3 || w < 0) {
            skip = "parse";
            break;
          }
          auto vi = vars.find(vid);
          auto ci = cnsts.find(cid);
          if (vi == vars.end() || ci == cnsts.end()) {
            skip = "noid";
            break;
          }
          lmm::Variable* var = vi->second.var;
          bool already       = false;
          for (lmm::Element const& e : var->cnsts_)
            already = already || e.constraint == ci->second.cnst;
          if (not already && var->cnsts_.size() >= var->cnsts_.capacity()) {
            skip = "full";
            break;
          }
          sys->expand(ci->second.cnst, var, w);
          break;
        }
        case 'B': {
          int vid;
          double b;
          if (sscanf(line + 1, "%d %lf", &vid, &b) != 2) {
            skip = "parse";
            break;
          }
          auto vi = vars.find(vid);
          if (vi == vars.end()) {
            skip = "noid";
            break;
          }
          sys->update_variable_bound(vi->second.var, b);
          break;
        }
        case 'P': {
          int vid;
          double p;
          if (sscanf(line + 1, "%d %lf", &vid, &p) != 2 || p < 0) {
            skip = "parse";
            break;
          }
          auto vi = vars.find(vid);
          if (vi == vars.end()) {
            skip = "noid";
            break;
          }
          sys->update_variable_penalty(vi->second.var, p);
          break;
        }
        case 'K': {
          int cid;
          double b;
          if (sscanf(line + 1, "%d %lf", &cid, &b) != 2) {
            skip = "parse";
            break;
          }
          auto ci = cnsts.find(cid);
          if (ci == cnsts.end()) {
            skip = "noid";
            break;
          }
          sys->update_constraint_bound(ci->second.cnst, b);
          break;
        }
        case 'F': {
          int vid;
          if (sscanf(line + 1, "%d", &vid) != 1) {
            skip = "parse";
            break;
          }
          auto vi = vars.find(vid);
          if (vi == vars.end()) {
            skip = "noid";
            break;
          }
          vid_of.erase(vi->second.var);
          sys->variable_free(vi->second.var);
          vi->second.action->set_variable(nullptr);
          delete vi->second.action;
          vars.erase(vi);
          break;
        }
        case 'S': {
          is_solve = true;
          solves++;
          if (sys->modified_)
            effective++;
          fflush(stdout); // whatever happens in the solver, what precedes is on the pipe
          sys->solve();
          if (auto* ms = sys->get_modified_action_set())
            ms->clear(); // what a lazy model does after reading it
          break;
        }
        default:
          skip = "unknown";
      }
      if (skip)
        printf("OP %d %c skip %s\n", idx, code, skip);
      else
        printf("OP %d %c ok\n", idx, code);
      if (is_solve)
        dump(idx, "solve", fresh);
      else if (dump_every && not skip)
        dump(idx, "op", false);
    }
  } catch (std::exception const& e) {
    printf("EXCEPTION %d %s\n", idx, e.what());
    fflush(stdout);
    _exit(4);
  } catch (...) {
    printf("EXCEPTION %d unknown\n", idx);
    fflush(stdout);
    _exit(4);
  }

  bool wrap = selective && (visited_start + effective >= (1ULL << 32));
  if (monitor)
    verif_lmm_monitor_report(stdout);
  printf("DONE solves=%lu effective=%lu wrap=%d\n", solves, effective, wrap ? 1 : 0);
  fflush(stdout);

  g_cur_idx  = idx + 1;
  g_cur_code = 'X';
  /* tear down cleanly: free the variables so the System destructor does not warn */
  for (auto& [vid, rec] : vars) {
    sys->variable_free(rec.var);
    rec.action->set_variable(nullptr);
    delete rec.action;
  }
  vars.clear();
  delete model; // owns the system
  return 0;
}
