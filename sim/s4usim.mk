S4U_OBJS := $(OBJ)/s4usim.o $(OBJ)/s4usim_ops.o $(OBJ)/s4usim_walk.o $(OBJ)/s4usim_mon.o
TARGETS += $(OUT)/s4usim
$(OUT)/s4usim: $(S4U_OBJS) $(wildcard $(OBJ)/lmm_monitor.o)
	$(CXX) -o $@ $^ $(LDLIBS)

# engine A under engine E (C02): same harness, real context-factory threads driven by detsched
TARGETS += $(OUT)/s4usim_ds
$(OBJ)/s4usim_ds.o: /verif/sim/s4usim.cpp /verif/sim/s4usim.hpp /verif/sim/detsched.h
	$(CXX) $(CXXFLAGS) -DS4USIM_DETSCHED -c $< -o $@
$(OUT)/s4usim_ds: $(OBJ)/s4usim_ds.o $(OBJ)/s4usim_ops.o $(OBJ)/s4usim_walk.o $(OBJ)/s4usim_mon.o $(OBJ)/detsched.o
	$(CXX) -rdynamic -o $@ $^ $(LDLIBS)
