S4U_OBJS := $(OBJ)/s4usim.o $(OBJ)/s4usim_ops.o $(OBJ)/s4usim_walk.o $(OBJ)/s4usim_mon.o
TARGETS += $(OUT)/s4usim
$(OUT)/s4usim: $(S4U_OBJS) $(wildcard $(OBJ)/lmm_monitor.o)
	$(CXX) -o $@ $^ $(LDLIBS)
