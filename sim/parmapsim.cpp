/* parmapsim: simgrid::xbt::Parmap<int> (the CURRENT /repo/src/xbt/parmap.hpp, compiled in this TU) on real
 * threads under detsched; every atomic access of the header is a scheduling point. Property C49.
 *
 * usage: parmapsim key=value ...   (or one line of key=value on stdin when no argument is given)
 *   seed=N strat=uniform|sticky|pct|rr [sticky=P d=N est=N quantum=N] mode=posix|futex|busy_wait workers=1..16
 *   applies=L1,L2,... (each 0..500; empty list allowed: applies=) destroy=0|1
 *        parmapsim server      (fork server: one plan per stdin line, output ends with an END line)
 *   spur=P futex=P late=P latemax=N starve=N starvek=N  cap=N fair=N trace=PATH cpu=N|auto|-1
 * output: APPLY lines, at most one VIOLATION line, then
 *   RESULT verdict=ok|count|early_return|join|deadlock|stepcap hash=H steps=N ... (one line, key=value) */
#include <atomic>
#include <cstdint>
#include <cstdio>
#include <cstdlib>
#include <cstring>
#include <map>
#include <string>
#include <csignal>
#include <sys/prctl.h>
#include <sys/wait.h>
#include <unistd.h>
#include <vector>

#include "detsched.h"

/* seam: every atomic op of parmap.hpp becomes a scheduling point (sequentially consistent semantics) */
namespace std {
struct verif_atomic_uint {
  std::atomic<unsigned> v;
  verif_atomic_uint(unsigned x = 0) : v(x) {}
  verif_atomic_uint(const verif_atomic_uint&)            = delete;
  verif_atomic_uint& operator=(const verif_atomic_uint&) = delete;
  unsigned load(std::memory_order = std::memory_order_seq_cst) const
  {
    detsched_yield();
    return v.load();
  }
  void store(unsigned x, std::memory_order = std::memory_order_seq_cst)
  {
    detsched_yield();
    v.store(x);
  }
  unsigned fetch_add(unsigned x, std::memory_order = std::memory_order_seq_cst)
  {
    detsched_yield();
    return v.fetch_add(x);
  }
  unsigned fetch_sub(unsigned x, std::memory_order = std::memory_order_seq_cst)
  {
    detsched_yield();
    return v.fetch_sub(x);
  }
  unsigned exchange(unsigned x, std::memory_order = std::memory_order_seq_cst)
  {
    detsched_yield();
    return v.exchange(x);
  }
  bool compare_exchange_strong(unsigned& e, unsigned d, std::memory_order = std::memory_order_seq_cst,
                               std::memory_order = std::memory_order_seq_cst)
  {
    detsched_yield();
    return v.compare_exchange_strong(e, d);
  }
  bool compare_exchange_weak(unsigned& e, unsigned d, std::memory_order = std::memory_order_seq_cst,
                             std::memory_order = std::memory_order_seq_cst)
  {
    detsched_yield();
    return v.compare_exchange_strong(e, d);
  }
  unsigned operator++(int)
  {
    detsched_yield();
    return v++;
  }
  unsigned operator++()
  {
    detsched_yield();
    return ++v;
  }
  unsigned operator--(int)
  {
    detsched_yield();
    return v--;
  }
  unsigned operator--()
  {
    detsched_yield();
    return --v;
  }
  unsigned operator+=(unsigned x)
  {
    detsched_yield();
    return v += x;
  }
  unsigned operator=(unsigned x)
  {
    detsched_yield();
    v.store(x);
    return x;
  }
  operator unsigned() const
  {
    detsched_yield();
    return v.load();
  }
};
} // namespace std

/* everything parmap.hpp includes is included first, so that the macro below only rewrites parmap.hpp itself */
#include <simgrid/s4u.hpp>
#include "src/internal_config.h"
#include "src/kernel/EngineImpl.hpp"
#include "src/kernel/context/Context.hpp"
#include "src/verif_hooks.hpp"
#include <boost/optional.hpp>
#include <condition_variable>
#include <cstdarg>
#include <functional>
#include <limits>
#include <linux/futex.h>
#include <mutex>
#include <sys/syscall.h>
#include <thread>
#define atomic_uint verif_atomic_uint
#include "src/xbt/parmap.hpp"
#undef atomic_uint

XBT_LOG_NEW_DEFAULT_CATEGORY(parmapsim, "C49 harness");

namespace {
std::map<std::string, std::string> kv;
std::string get(const char* k, const char* def)
{
  auto it = kv.find(k);
  return it == kv.end() ? std::string(def) : it->second;
}

bool server_mode = false;

/* state observed by the oracle; plain memory: threads are serialised by detsched */
struct Obs {
  int napplies       = 0;
  int cur_apply      = -1;
  const char* phase  = "init";
  std::vector<int> cnt;
  int inflight       = 0;
  int nworkers       = 1;
  std::vector<long> per_thread_total; /* by detsched thread id */
  std::vector<long> per_thread_apply;
  long maestro_elems    = 0;
  long idle_worker_rounds = 0; /* (apply, thread) pairs with zero element */
  long applies_done     = 0;
  long elems            = 0;
  std::string violation; /* first one */
  std::string verdict = "ok";
  bool done           = false; /* RESULT already printed: what follows is clean-up */
};
Obs obs;

void print_result(const char* verdict)
{
  int active_workers = 0;
  for (long n : obs.per_thread_total)
    if (n > 0)
      active_workers++;
  printf("RESULT verdict=%s hash=%016llx steps=%ld switches=%ld choice_points=%ld fair_forced=%ld threads=%d live=%d "
         "applies_done=%ld elems=%ld active_workers=%d maestro_elems=%ld idle_worker_rounds=%ld phase=%s apply=%d",
         verdict, detsched_hash(), detsched_steps(), detsched_switches(), detsched_choice_points(),
         detsched_fair_forced(), detsched_threads_created(), detsched_threads_live(), obs.applies_done, obs.elems,
         active_workers, obs.maestro_elems, obs.idle_worker_rounds, obs.phase, obs.cur_apply);
  for (int k = 0; k < DETSCHED_F_COUNT; k++)
    printf(" fault_%s=%ld", detsched_fault_name(k), detsched_fault_fired(k));
  printf("\n");
  fflush(stdout);
}

void abort_hook(int code)
{
  /* called by detsched on deadlock (42) / step cap (43), before _exit */
  if (obs.done) { /* while cleaning up a leaked pool after the verdict: not a finding of this plan */
    printf("END rc=0 sig=0 cleanup-failed\n");
    fflush(stdout);
    _exit(0);
  }
  if (not obs.violation.empty()) /* an earlier count/early violation has priority: it explains the hang */
    print_result(obs.verdict.c_str());
  else
    print_result(code == 42 ? "deadlock" : "stepcap");
  if (server_mode)
    printf("END rc=%d sig=0\n", code);
  fflush(stdout);
}

void violation(const char* cls, const std::string& msg)
{
  if (obs.violation.empty()) {
    obs.violation = msg;
    obs.verdict   = cls;
    printf("VIOLATION class=%s %s\n", cls, msg.c_str());
    fflush(stdout);
  }
}

std::string fmt(const char* f, ...) __attribute__((format(printf, 1, 2)));
std::string fmt(const char* f, ...)
{
  char buf[512];
  va_list ap;
  va_start(ap, f);
  vsnprintf(buf, sizeof buf, f, ap);
  va_end(ap);
  return buf;
}
} // namespace

/* one plan; returns the exit code (0: verdict ok and the process is clean again; 1: violation; 2: usage);
 * never returns on deadlock (42) / step cap (43) */
static int run_plan(const std::vector<std::string>& toks);

/* trigger every lazy initialisation (log categories, once flags, glibc thread stacks...) before the first plan, so
 * that the first plan of a process sees the same operations as the n-th. Runs under the scheduler (fixed seed,
 * round-robin) so that a pool that cannot even do this is reported (deadlock / step cap, phase=warmup), not hung. */
static void warm_up()
{
  printf("WARMUP\n");
  fflush(stdout);
  obs       = Obs();
  obs.phase = "warmup";
  detsched_set_abort_hook(abort_hook);
  detsched_enable_spec(0, "strategy=rr,quantum=2,cap=200000,cpu=auto");
  for (auto mode : {XBT_PARMAP_POSIX, XBT_PARMAP_FUTEX, XBT_PARMAP_BUSY_WAIT}) {
    simgrid::xbt::Parmap<int> pm(3, mode);
    std::vector<int> data{1, 2, 3, 4};
    std::atomic<int> sum{0};
    pm.apply([&sum](int i) { sum += i; }, data);
  }
  detsched_disable();
}

static void make_engine(char* argv0)
{
  static int sg_argc      = 1;
  static char* sg_argv[2] = {argv0, nullptr};
  new simgrid::s4u::Engine(&sg_argc, sg_argv); /* worker_main needs the context factory of an engine */
}

static std::vector<std::string> split(char* line)
{
  std::vector<std::string> toks;
  for (char* t = strtok(line, " \t\r\n"); t; t = strtok(nullptr, " \t\r\n"))
    toks.emplace_back(t);
  return toks;
}

int main(int argc, char** argv)
{
  if (argc == 2 && strcmp(argv[1], "server") == 0) {
    /* plan server: one plan per stdin line, all in this process (process creation - exec and fork alike - is
     * what limits throughput, and it does not scale with the number of concurrent harnesses on this platform).
     * A plan that ends cleanly (verdict ok) leaves no thread behind (a leaked pool is destroyed after the RESULT
     * line), so the next plan starts from the same state as in a fresh process: the warm-up below has already
     * triggered every lazy initialisation, in server and stand-alone mode alike. After any other verdict the
     * server prints END and exits; the caller starts a new one. stdout+stderr of a plan end with an END line. */
    prctl(PR_SET_PDEATHSIG, SIGKILL);
    dup2(1, 2);
    setvbuf(stdout, nullptr, _IOLBF, 0);
    make_engine(argv[0]);
    server_mode = true;
    warm_up();
    char line[8192];
    while (fgets(line, sizeof line, stdin)) {
      alarm(60); /* wall-clock kill budget: the caller sees the server die of SIGALRM: infrastructure */
      int rc = run_plan(split(line));
      alarm(0);
      printf("END rc=%d sig=0\n", rc);
      fflush(stdout);
      if (rc != 0)
        _exit(rc);
    }
    _exit(0);
  }
  std::vector<std::string> toks;
  if (argc > 1) {
    for (int i = 1; i < argc; i++)
      toks.emplace_back(argv[i]);
  } else {
    char line[8192];
    while (fgets(line, sizeof line, stdin))
      for (auto const& t : split(line))
        toks.push_back(t);
  }
  make_engine(argv[0]);
  warm_up();
  int rc = run_plan(toks);
  fflush(stdout);
  _exit(rc);
}

static int run_plan(const std::vector<std::string>& toks)
{
  kv.clear();
  obs = Obs();
  printf("START\n");
  for (auto const& t : toks) {
    size_t e = t.find('=');
    if (e == std::string::npos) {
      fprintf(stderr, "parmapsim: bad argument '%s'\n", t.c_str());
      return 2;
    }
    kv[t.substr(0, e)] = t.substr(e + 1);
  }
  uint64_t seed     = strtoull(get("seed", "1").c_str(), nullptr, 10);
  std::string smode = get("mode", "futex");
  e_xbt_parmap_mode_t mode;
  if (smode == "posix")
    mode = XBT_PARMAP_POSIX;
  else if (smode == "futex")
    mode = XBT_PARMAP_FUTEX;
  else if (smode == "busy_wait")
    mode = XBT_PARMAP_BUSY_WAIT;
  else {
    fprintf(stderr, "parmapsim: bad mode\n");
    return 2;
  }
  int workers = atoi(get("workers", "2").c_str());
  if (workers < 1 || workers > 16) {
    fprintf(stderr, "parmapsim: workers out of 1..16\n");
    return 2;
  }
  std::vector<int> applies;
  {
    std::string a = get("applies", "10");
    size_t i      = 0;
    while (i < a.size()) {
      size_t j = a.find(',', i);
      if (j == std::string::npos)
        j = a.size();
      if (j > i) {
        int l = atoi(a.substr(i, j - i).c_str());
        if (l < 0 || l > 500) {
          fprintf(stderr, "parmapsim: length out of 0..500\n");
          return 2;
        }
        applies.push_back(l);
      }
      i = j + 1;
    }
  }
  bool destroy = atoi(get("destroy", "1").c_str()) != 0;

  /* detsched spec */
  std::string spec = "strategy=" + get("strat", "uniform");
  static const char* const fwd[][2] = {{"sticky", "sticky"}, {"d", "d"},         {"est", "steps"},    {"quantum", "quantum"},
                                       {"cap", "cap"},       {"fair", "fair"},   {"spur", "spur"},    {"futex", "futex"},
                                       {"late", "late"},     {"latemax", "latemax"}, {"starve", "starve"}, {"starvek", "starvek"},
                                       {"trace", "trace"}, {"cpu", "cpu"}};
  for (auto const& f : fwd)
    if (kv.count(f[0]))
      spec += std::string(",") + f[1] + "=" + kv[f[0]];
  if (not kv.count("cpu"))
    spec += ",cpu=auto";
  if (not kv.count("cap"))
    spec += ",cap=3000000";

  obs.napplies = (int)applies.size();
  obs.nworkers = workers;
  obs.per_thread_total.assign(workers, 0);
  obs.per_thread_apply.assign(workers, 0);
  detsched_set_abort_hook(abort_hook);
  if (detsched_enable_spec(seed, spec.c_str()) != 0) {
    fprintf(stderr, "parmapsim: bad scheduler spec '%s'\n", spec.c_str());
    return 2;
  }

  obs.phase = "create";
  auto* pm  = new simgrid::xbt::Parmap<int>(workers, mode);
  std::vector<int> data;
  bool stop = false;
  for (int a = 0; a < (int)applies.size() && not stop; a++) {
    int n         = applies[a];
    obs.cur_apply = a;
    obs.phase     = "apply";
    data.resize(n);
    for (int i = 0; i < n; i++)
      data[i] = i;
    obs.cnt.assign(n, 0);
    obs.per_thread_apply.assign(workers, 0);
    obs.inflight = 0;
    pm->apply(
        [](int i) {
          obs.inflight++;
          detsched_yield(); /* the function body takes time: others may run while the element is in flight */
          int tid = detsched_thread_id();
          if (i >= 0 && i < (int)obs.cnt.size())
            obs.cnt[i]++;
          else
            violation("count", fmt("apply=%d element value %d outside 0..%zu", obs.cur_apply, i, obs.cnt.size()));
          if (tid >= 0 && tid < obs.nworkers) {
            obs.per_thread_total[tid]++;
            obs.per_thread_apply[tid]++;
          }
          obs.inflight--;
        },
        data);
    /* ---- oracle, evaluated at the very moment apply() returns ---- */
    obs.phase = "check";
    int dup = -1, missing = -1, nmissing = 0;
    for (int i = 0; i < n; i++) {
      if (obs.cnt[i] > 1 && dup < 0)
        dup = i;
      if (obs.cnt[i] == 0) {
        if (missing < 0)
          missing = i;
        nmissing++;
      }
    }
    if (dup >= 0)
      violation("count", fmt("apply=%d len=%d element %d processed %d times", a, n, dup, obs.cnt[dup]));
    if (obs.inflight != 0)
      violation("early_return", fmt("apply=%d len=%d returned while %d element(s) still in flight%s", a, n,
                                    obs.inflight, missing >= 0 ? fmt(" (first unprocessed: %d)", missing).c_str() : ""));
    if (missing >= 0 && obs.violation.empty()) {
      /* not processed when apply returned: late (early_return) or never (count)? Drain by destroying the pool. */
      printf("PENDING apply=%d len=%d element %d (and %d more) not processed at return\n", a, n, missing, nmissing - 1);
      fflush(stdout);
      obs.verdict   = "count"; /* if the drain hangs, the element was never processed */
      obs.violation = fmt("apply=%d len=%d element %d never processed (pool hung while draining)", a, n, missing);
      obs.phase     = "drain";
      delete pm;
      pm            = nullptr;
      obs.violation = "";
      obs.verdict   = "ok";
      if (obs.cnt[missing] == 0)
        violation("count", fmt("apply=%d len=%d element %d never processed", a, n, missing));
      else
        violation("early_return",
                  fmt("apply=%d len=%d returned before element %d was processed (done later by a worker)", a, n,
                      missing));
    }
    if (not obs.violation.empty()) {
      stop = true;
      break;
    }
    obs.applies_done++;
    obs.elems += n;
    obs.maestro_elems += obs.per_thread_apply[0];
    int idle = 0;
    for (int w = 1; w < workers; w++)
      if (obs.per_thread_apply[w] == 0)
        idle++;
    obs.idle_worker_rounds += idle;
    printf("APPLY %d len=%d ok maestro=%ld idle_workers=%d\n", a, n, obs.per_thread_apply[0], idle);
  }
  if (obs.violation.empty() && destroy && pm) {
    obs.phase = "destroy";
    delete pm;
    pm = nullptr;
    if (detsched_threads_live() != 1)
      violation("join", fmt("pool destroyed but %d worker thread(s) still alive", detsched_threads_live() - 1));
  }
  obs.phase = "end";
  print_result(obs.verdict.c_str());
  fflush(stdout);
  if (not obs.violation.empty())
    return 1;
  /* clean up so that the process can take another plan: not part of the verdict */
  obs.done = true;
  if (pm) {
    delete pm; /* leaked pool (destroy=0): its workers are parked in simulated waits; let them go */
    pm = nullptr;
  }
  detsched_disable();
  return 0;
}
