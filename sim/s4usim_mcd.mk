# engine D (simgrid-mc as system under test): mcout side file, reference walker D, extra ops; linked into s4usim
$(OUT)/s4usim: $(OBJ)/s4usim_mcd.o
$(OUT)/s4usim_ds: $(OBJ)/s4usim_mcd.o
