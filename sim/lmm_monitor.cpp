/* In-process LMM monitor: see lmm_monitor.hpp. Only public members of the lmm classes are used. */
#include "lmm_monitor.hpp"

#include "src/kernel/lmm/System.hpp"
#include "src/kernel/lmm/maxmin.hpp"
#include "src/verif_hooks.hpp"

#include <cmath>
#include <cstdarg>
#include <cstring>
#include <limits>
#include <typeinfo>
#include <unordered_map>

namespace lmm = simgrid::kernel::lmm;
using Policy  = lmm::Constraint::SharingPolicy;

namespace {

FILE* g_out      = nullptr;
bool g_in_check  = false; // re-entrancy guard: the fresh system's solve() triggers H1 again
VerifLmmMonitorOptions g_opt;

struct Counters {
  unsigned long solves = 0, nested = 0, cnst_checked = 0, var_checked = 0, c16_vars = 0, c17_rebuilds = 0,
                c17_skipped_large = 0, c17_vars_compared = 0, c18_staged_seen = 0, c18_limited_cnst = 0, exceptions = 0,
                sys_maxmin = 0, sys_fb = 0, sys_bmf = 0, sys_other = 0, selective = 0, dyn_cb_evals = 0;
  unsigned long viol[4] = {0, 0, 0, 0}; // C15..C18
  unsigned long lines   = 0;
} g_cnt;

void viol(FILE* out, int prop /*15..18*/, const char* cls, const char* fmt, ...) __attribute__((format(printf, 4, 5)));
void viol(FILE* out, int prop, const char* cls, const char* fmt, ...)
{
  g_cnt.viol[prop - 15]++;
  if (out == nullptr || g_cnt.lines >= g_opt.max_lines)
    return;
  g_cnt.lines++;
  char buf[1024];
  va_list ap;
  va_start(ap, fmt);
  vsnprintf(buf, sizeof buf, fmt, ap);
  va_end(ap);
  fprintf(out, "LMMVIOL C%d %s %s\n", prop, cls, buf);
  fflush(out);
}

struct CStat {
  const lmm::Constraint* cnst = nullptr;
  double dyn       = 0;  // capacity as adjusted by the callback
  double sum       = 0;  // sum of w*v over enabled elements with w>0
  double mx        = 0;  // max of w*v
  double maxshare  = 0;  // max of v*p over enabled elements with w>0
  int counted      = 0;  // enabled elements counting towards the concurrency limit
  int enabled_elems = 0;
};

bool is_shared_like(Policy p)
{
  return p != Policy::FATPIPE;
}

} // namespace

double verif_lmm_expected_dynamic_bound(const lmm::Constraint* cnst)
{
  Policy p = cnst->get_sharing_policy();
  if ((p == Policy::NONLINEAR || p == Policy::WIFI) && cnst->dyn_constraint_cb_) {
    g_cnt.dyn_cb_evals++;
    return cnst->dyn_constraint_cb_(cnst->bound_, cnst->concurrency_current_);
  }
  return cnst->bound_;
}

char verif_lmm_solver_kind(const lmm::System* sys)
{
  if (dynamic_cast<const lmm::MaxMin*>(sys) != nullptr)
    return 'M';
  const char* n = typeid(*sys).name();
  if (strstr(n, "FairBottleneck") != nullptr)
    return 'F';
  if (strstr(n, "BmfSystem") != nullptr)
    return 'B';
  return '?';
}

bool verif_lmm_fresh_values(lmm::System* sys, std::vector<std::pair<const lmm::Variable*, double>>& out)
{
  bool saved = g_in_check;
  g_in_check = true;
  bool ok    = true;
  out.clear();
  try {
    lmm::MaxMin fresh(false);
    std::unordered_map<const lmm::Constraint*, lmm::Constraint*> cmap;
    std::vector<lmm::Variable*> fvars;
    std::vector<const lmm::Variable*> live;
    for (lmm::Variable const& var : sys->variable_set)
      live.push_back(&var);
    for (const lmm::Variable* var : live) {
      for (lmm::Element const& elem : var->cnsts_) {
        if (cmap.find(elem.constraint) == cmap.end()) {
          lmm::Constraint* c = fresh.constraint_new(nullptr, elem.constraint->bound_);
          c->set_concurrency_limit(-1); // staging is part of the *current state* (penalties), not replayed
          Policy p = elem.constraint->get_sharing_policy();
          if (p == Policy::NONLINEAR || p == Policy::WIFI)
            c->set_sharing_policy(p, elem.constraint->dyn_constraint_cb_);
          else
            c->set_sharing_policy(p, {});
          cmap[elem.constraint] = c;
        }
      }
    }
    for (const lmm::Variable* var : live) {
      lmm::Variable* fv = fresh.variable_new(nullptr, var->sharing_penalty_, var->bound_,
                                             std::max<size_t>(1, var->cnsts_.size()));
      for (lmm::Element const& elem : var->cnsts_)
        fresh.expand(cmap[elem.constraint], fv, elem.consumption_weight, true /* one element per live element */);
      fvars.push_back(fv);
    }
    fresh.solve();
    for (size_t i = 0; i < live.size(); i++)
      out.emplace_back(live[i], fvars[i]->get_value());
    fresh.variable_free_all();
  } catch (...) {
    g_cnt.exceptions++;
    ok = false;
  }
  g_in_check = saved;
  return ok;
}

static unsigned check_impl(lmm::System* sys, FILE* out)
{
  const unsigned long before = g_cnt.viol[0] + g_cnt.viol[1] + g_cnt.viol[2] + g_cnt.viol[3];
  const double prec          = sg_precision_workamount;
  const char kind            = verif_lmm_solver_kind(sys);
  const bool selective       = sys->get_modified_action_set() != nullptr;
  switch (kind) {
    case 'M':
      g_cnt.sys_maxmin++;
      break;
    case 'F':
      g_cnt.sys_fb++;
      break;
    case 'B':
      g_cnt.sys_bmf++;
      break;
    default:
      g_cnt.sys_other++;
  }
  if (selective)
    g_cnt.selective++;

  /* ---- gather per-constraint statistics from the variables (independent of the constraint-side lists) */
  std::vector<CStat> stats;
  std::unordered_map<const lmm::Constraint*, size_t> idx;
  auto stat_of = [&](const lmm::Constraint* c) -> CStat& {
    auto it = idx.find(c);
    if (it == idx.end()) {
      idx[c] = stats.size();
      stats.emplace_back();
      stats.back().cnst = c;
      stats.back().dyn  = verif_lmm_expected_dynamic_bound(c);
      return stats.back();
    }
    return stats[it->second];
  };
  size_t nvars = 0;
  for (lmm::Variable const& var : sys->variable_set) {
    nvars++;
    for (lmm::Element const& elem : var.cnsts_) {
      CStat& st = stat_of(elem.constraint);
      if (var.sharing_penalty_ > 0) {
        st.enabled_elems++;
        st.counted += (elem.constraint->get_sharing_policy() == Policy::WIFI || elem.consumption_weight >= 1) ? 1 : 0;
        if (elem.consumption_weight > 0) {
          double u = elem.consumption_weight * var.value_;
          st.sum += u;
          if (u > st.mx)
            st.mx = u;
          double sh = var.value_ * var.sharing_penalty_;
          if (sh > st.maxshare)
            st.maxshare = sh;
        }
      }
    }
  }

  /* ---- C15 */
  if (g_opt.check_c15) {
    const double eps = g_opt.cap_factor * prec;
    for (CStat const& st : stats) {
      g_cnt.cnst_checked++;
      const lmm::Constraint* c = st.cnst;
      if (not std::isfinite(st.dyn)) {
        viol(out, 15, "cap-nan", "cnst=%d dynamic bound %g", c->rank_, st.dyn);
        continue;
      }
      if (is_shared_like(c->get_sharing_policy())) {
        if (not(st.sum <= st.dyn * (1 + eps)))
          viol(out, 15, "cap-shared", "solver=%c cnst=%d policy=%d usage=%.17g capacity=%.17g (bound=%.17g n=%d)", kind,
               c->rank_, static_cast<int>(c->get_sharing_policy()), st.sum, st.dyn, c->bound_, c->concurrency_current_);
      } else {
        if (not(st.mx <= c->bound_ * (1 + eps)))
          viol(out, 15, "cap-fatpipe", "solver=%c cnst=%d max-usage=%.17g capacity=%.17g", kind, c->rank_, st.mx,
               c->bound_);
      }
    }
    for (lmm::Variable const& var : sys->variable_set) {
      g_cnt.var_checked++;
      if (not std::isfinite(var.value_)) {
        viol(out, 15, "val-nan", "solver=%c var=%d value=%g", kind, var.rank_, var.value_);
        continue;
      }
      if (var.sharing_penalty_ <= 0) {
        if (var.value_ != 0)
          viol(out, 15, "val-disabled", "solver=%c var=%d penalty=%g value=%.17g", kind, var.rank_,
               var.sharing_penalty_, var.value_);
        continue;
      }
      bool consumes = false;
      for (lmm::Element const& elem : var.cnsts_)
        consumes = consumes || elem.consumption_weight > 0;
      if (not consumes)
        continue;
      if (var.value_ < 0)
        viol(out, 15, "val-negative", "solver=%c var=%d value=%.17g", kind, var.rank_, var.value_);
      if (var.bound_ > 0 && not(var.value_ <= var.bound_ * (1 + eps)))
        viol(out, 15, "val-bound", "solver=%c var=%d value=%.17g bound=%.17g", kind, var.rank_, var.value_,
             var.bound_);
    }
  }

  /* ---- C16 (MaxMin only): every enabled consuming variable below its bound has a saturated constraint on which its
   * penalty-weighted rate is the largest */
  if (g_opt.check_c16 && kind == 'M') {
    const double eps = g_opt.fair_factor * prec;
    for (lmm::Variable const& var : sys->variable_set) {
      if (var.sharing_penalty_ <= 0)
        continue;
      bool consumes = false;
      for (lmm::Element const& elem : var.cnsts_)
        consumes = consumes || elem.consumption_weight > 0;
      if (not consumes)
        continue;
      g_cnt.c16_vars++;
      if (var.bound_ > 0 && var.value_ >= var.bound_ * (1 - eps))
        continue;
      bool ok        = false;
      double myshare = var.value_ * var.sharing_penalty_;
      for (lmm::Element const& elem : var.cnsts_) {
        if (elem.consumption_weight <= 0)
          continue;
        CStat const& st = stats[idx[elem.constraint]];
        bool saturated  = is_shared_like(elem.constraint->get_sharing_policy())
                              ? st.sum >= st.dyn * (1 - eps)
                              : st.mx >= elem.constraint->bound_ * (1 - eps);
        if (saturated && myshare >= st.maxshare * (1 - eps)) {
          ok = true;
          break;
        }
      }
      if (not ok)
        viol(out, 16, "mm-unfair", "var=%d value=%.17g penalty=%g bound=%g has no saturated constraint where its share "
                                   "%.17g is the largest",
             var.rank_, var.value_, var.sharing_penalty_, var.bound_, myshare);
    }
  }

  /* ---- C17 (selective MaxMin only) */
  if (g_opt.check_c17 && kind == 'M' && selective) {
    if (nvars > g_opt.max_vars_rebuild) {
      g_cnt.c17_skipped_large++;
    } else {
      g_cnt.c17_rebuilds++;
      std::vector<std::pair<const lmm::Variable*, double>> fresh;
      if (verif_lmm_fresh_values(sys, fresh)) {
        const double eps = g_opt.sel_factor * prec;
        for (auto const& [var, fv] : fresh) {
          g_cnt.c17_vars_compared++;
          double a = var->value_;
          double scale = std::max(std::fabs(a), std::fabs(fv));
          if (not(std::fabs(a - fv) <= eps * scale))
            viol(out, 17, "sel-differs", "var=%d penalty=%g bound=%g selective=%.17g fresh=%.17g", var->rank_,
                 var->sharing_penalty_, var->bound_, a, fv);
        }
      }
    }
  }

  /* ---- C18 */
  if (g_opt.check_c18) {
    for (CStat const& st : stats) {
      const lmm::Constraint* c = st.cnst;
      int limit                = c->get_concurrency_limit();
      if (limit >= 0)
        g_cnt.c18_limited_cnst++;
      if (c->concurrency_current_ != st.counted)
        viol(out, 18, "conc-counter", "cnst=%d concurrency_current=%d but %d enabled elements count (limit %d)",
             c->rank_, c->concurrency_current_, st.counted, limit);
      if (limit >= 0 && st.counted > limit)
        viol(out, 18, "conc-limit", "cnst=%d has %d counting enabled elements, limit %d", c->rank_, st.counted, limit);
      if (static_cast<size_t>(st.enabled_elems) != c->enabled_element_set_.size())
        viol(out, 18, "conc-elemset", "cnst=%d enabled_element_set has %zu elements but %d elements belong to enabled "
                                      "variables",
             c->rank_, c->enabled_element_set_.size(), st.enabled_elems);
    }
    for (lmm::Variable const& var : sys->variable_set) {
      if (var.staged_sharing_penalty_ > 0) {
        g_cnt.c18_staged_seen++;
        if (var.sharing_penalty_ > 0)
          viol(out, 18, "staged-enabled", "var=%d is enabled (penalty %g) and staged (%g)", var.rank_,
               var.sharing_penalty_, var.staged_sharing_penalty_);
        int minslack = std::numeric_limits<int>::max();
        for (lmm::Element const& elem : var.cnsts_) {
          int l = elem.constraint->get_concurrency_limit();
          if (l >= 0)
            minslack = std::min(minslack, l - elem.constraint->concurrency_current_);
        }
        if (minslack > 0)
          viol(out, 18, "staged-starved", "var=%d staged (penalty %g) but every constraint it uses has a free slot "
                                          "(min slack %d)",
               var.rank_, var.staged_sharing_penalty_, minslack);
      }
    }
  }
  return static_cast<unsigned>(g_cnt.viol[0] + g_cnt.viol[1] + g_cnt.viol[2] + g_cnt.viol[3] - before);
}

unsigned verif_lmm_monitor_check(lmm::System* sys, FILE* out)
{
  if (g_in_check) {
    g_cnt.nested++;
    return 0;
  }
  g_in_check = true;
  g_cnt.solves++;
  unsigned n = 0;
  try {
    n = check_impl(sys, out);
  } catch (...) {
    g_cnt.exceptions++;
  }
  g_in_check = false;
  return n;
}

static void hook(lmm::System* sys)
{
  verif_lmm_monitor_check(sys, g_out);
}

void verif_lmm_monitor_install(FILE* out)
{
  g_out                        = out;
  simgrid_verif_lmm_post_solve = &hook;
}

void verif_lmm_monitor_uninstall()
{
  if (simgrid_verif_lmm_post_solve == &hook)
    simgrid_verif_lmm_post_solve = nullptr;
}

VerifLmmMonitorOptions& verif_lmm_monitor_options()
{
  return g_opt;
}

unsigned long verif_lmm_monitor_violations()
{
  return g_cnt.viol[0] + g_cnt.viol[1] + g_cnt.viol[2] + g_cnt.viol[3];
}

void verif_lmm_monitor_report(FILE* out)
{
  fprintf(out,
          "LMMMON solves=%lu nested=%lu maxmin=%lu fairbottleneck=%lu bmf=%lu other=%lu selective=%lu cnst_checked=%lu "
          "var_checked=%lu c16_vars=%lu c17_rebuilds=%lu c17_skipped_large=%lu c17_vars_compared=%lu "
          "c18_limited_cnst=%lu c18_staged_seen=%lu dyn_cb_evals=%lu exceptions=%lu viol_C15=%lu viol_C16=%lu "
          "viol_C17=%lu viol_C18=%lu\n",
          g_cnt.solves, g_cnt.nested, g_cnt.sys_maxmin, g_cnt.sys_fb, g_cnt.sys_bmf, g_cnt.sys_other, g_cnt.selective,
          g_cnt.cnst_checked, g_cnt.var_checked, g_cnt.c16_vars, g_cnt.c17_rebuilds, g_cnt.c17_skipped_large,
          g_cnt.c17_vars_compared, g_cnt.c18_limited_cnst, g_cnt.c18_staged_seen, g_cnt.dyn_cb_evals, g_cnt.exceptions,
          g_cnt.viol[0], g_cnt.viol[1], g_cnt.viol[2], g_cnt.viol[3]);
  fflush(out);
}
