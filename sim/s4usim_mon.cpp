// Monitors (time-advance invariants, tracked activities), plugins (energy, file system) and file-system ops.
#include "s4usim.hpp"
#include <simgrid/plugins/load.h>

extern "C" {
void verif_lmm_monitor_install(FILE* out) __attribute__((weak));
void verif_lmm_monitor_report(FILE* out) __attribute__((weak));
}

namespace vs {

struct Tracked {
  std::string name;
  sg4::ActivityPtr act;
  double amount;
  std::string kind;
  bool done = false;
};
static std::vector<Tracked> tracked;
static std::map<std::string, sg4::File*> files;
static bool energy_host = false, energy_link = false, fs_on = false;

void track_activity(const std::string& slot, sg4::ActivityPtr a, double amount, const std::string& kind)
{
  tracked.push_back(Tracked{slot, a, amount, kind});
}

void init_plugin(const std::string& name)
{
  if (name == "file_system") {
    sg_storage_file_system_init();
    fs_on = true;
  } else if (name == "host_energy") {
    sg_host_energy_plugin_init();
    energy_host = true;
  } else if (name == "link_energy") {
    sg_link_energy_plugin_init();
    energy_link = true;
  } else if (name == "host_load") {
    sg_host_load_plugin_init();
  }
}

void post_platform_init() {}

void time_advance_monitor(double)
{
  if (!opts.count("track"))
    return;
  // state of every tracked activity and every resource load during the interval that just elapsed
  for (auto& t : tracked) {
    if (t.done || !t.act)
      continue;
    auto st = t.act->get_state();
    if (st == sg4::Activity::State::INITED || st == sg4::Activity::State::STARTING)
      continue;
    double rem = 0;
    if (t.act->get_impl()) {
      // an action that completed in this very time advance is not cleaned yet, and get_remaining() asserts on it
      auto* ma = t.act->get_impl()->model_action_;
      if (ma != nullptr && ma->get_state() != simgrid::kernel::resource::Action::State::STARTED)
        rem = ma->get_remains_no_update();
      else
        rem = t.act->get_remaining();
    }
    emit("A %s %s rem=%a", t.name.c_str(), t.act->get_state_str(), rem);
    if (st == sg4::Activity::State::FINISHED || st == sg4::Activity::State::FAILED || st == sg4::Activity::State::CANCELED)
      t.done = true;
  }
  std::string l;
  char b[128];
  for (auto& [n, h] : hosts) {
    snprintf(b, sizeof b, " %s=%a/%a/%d", n.c_str(), h->get_load(),
             h->get_speed() * h->get_available_speed() * h->get_core_count(), (int)h->is_on());
    l += b;
  }
  for (auto& [n, k] : links) {
    snprintf(b, sizeof b, " %s=%a/%a/%d", n.c_str(), k->get_load(), k->get_bandwidth(), (int)k->is_on());
    l += b;
  }
  emit("L%s", l.c_str());
  if (energy_host && opts.count("esample")) { // (reading the energy forces an update of the plugin: off by default)
    std::string en;
    for (auto& [n, h] : hosts) {
      snprintf(b, sizeof b, " %s=%a", n.c_str(), sg_host_get_consumed_energy(h));
      en += b;
    }
    emit("E%s", en.c_str());
  }
}

void lmm_monitor_start()
{
  if (verif_lmm_monitor_install)
    verif_lmm_monitor_install(stderr);
}

void final_report()
{
  if (energy_host)
    for (auto& [n, h] : hosts)
      if (h->get_property("wattage_per_state") != nullptr)
        emit("S %ld %a energy host=%s joules=%a", SEQ++, now(), n.c_str(), sg_host_get_consumed_energy(h));
  if (energy_link)
    for (auto& [n, l] : links)
      emit("S %ld %a link_energy link=%s joules=%a", SEQ++, now(), n.c_str(), sg_link_get_consumed_energy(l));
  if (verif_lmm_monitor_report && opts.count("lmmmon") && opts["lmmmon"] == "1")
    verif_lmm_monitor_report(stderr);
}

static void kvu(std::string& r, const char* k, unsigned long long v)
{
  char b[64];
  snprintf(b, sizeof b, " %s=%llu", k, v);
  r += b;
}

static void obs_disk(std::string& r, const sg4::Disk* d)
{
  auto* ext = d->extension<sg4::FileSystemDiskExt>();
  kvu(r, "used", ext->get_used_size());
  unsigned long long sum = 0;
  size_t n               = 0;
  if (ext->get_content())
    for (auto& [p, s] : *ext->get_content()) {
      sum += s;
      n++;
    }
  kvu(r, "sum", sum);
  kvu(r, "nfiles", n);
  kvu(r, "dsize", ext->get_size());
}

bool fs_op(Ctx& c, int idx, const Op& op, std::string& r, std::string& exc, bool& skip)
{
  const std::string& k = op.kind;
  const auto& a        = op.a;
  if (k.empty() || k[0] != 'f' || !fs_on) {
    if (k == "obs_disk" && fs_on) {
      obs_disk(r, disks.at(a[0]));
      return true;
    }
    return false;
  }
  auto getf = [&](const std::string& n) -> sg4::File* {
    auto it = files.find(n);
    if (it == files.end() || it->second == nullptr) {
      skip = true;
      return nullptr;
    }
    return it->second;
  };
  auto diskof = [&](const std::string& dn) { return disks.at(dn); };
  try {
    if (k == "fopen") { // F PATH DISK   (DISK: where PATH lives, for observation)
      if (files.count(a[0]) && files[a[0]])
        skip = true;
      else {
        auto* f     = sg4::File::open(a[1], nullptr);
        files[a[0]] = f;
        kvu(r, "fsize", f->size());
        kvu(r, "pos", f->tell());
        obs_disk(r, diskof(a[2]));
      }
    } else if (k == "fread") { // F SIZE DISK
      if (auto* f = getf(a[0])) {
        unsigned long long before = f->tell();
        unsigned long long n      = f->read((sg_size_t)num(a[1]));
        kvu(r, "n", n);
        kvu(r, "before", before);
        kvu(r, "fsize", f->size());
        kvu(r, "pos", f->tell());
        obs_disk(r, diskof(a[2]));
      }
    } else if (k == "fwrite") { // F SIZE DISK [inside]
      if (auto* f = getf(a[0])) {
        unsigned long long before = f->tell();
        unsigned long long sz0    = f->size();
        unsigned long long n      = f->write((sg_size_t)num(a[1]), a.size() > 3 && a[3] == "inside");
        kvu(r, "n", n);
        kvu(r, "before", before);
        kvu(r, "size0", sz0);
        kvu(r, "fsize", f->size());
        kvu(r, "pos", f->tell());
        obs_disk(r, diskof(a[2]));
      }
    } else if (k == "fseek") { // F POS set|cur|end DISK
      if (auto* f = getf(a[0])) {
        int origin = a[2] == "cur" ? SEEK_CUR : a[2] == "end" ? SEEK_END : SEEK_SET;
        long long target = (long long)num(a[1]) + (origin == SEEK_CUR ? (long long)f->tell() : origin == SEEK_END ? (long long)f->size() : 0);
        if (target < 0)
          skip = true;
        else {
          f->seek((sg_offset_t)num(a[1]), origin);
          kvu(r, "fsize", f->size());
          kvu(r, "pos", f->tell());
          obs_disk(r, diskof(a[3]));
        }
      }
    } else if (k == "ftell") {
      if (auto* f = getf(a[0])) {
        kvu(r, "fsize", f->size());
        kvu(r, "pos", f->tell());
      }
    } else if (k == "fmove") { // F NEWPATH DISK
      if (auto* f = getf(a[0])) {
        f->move(a[1]);
        kvu(r, "fsize", f->size());
        obs_disk(r, diskof(a[2]));
      }
    } else if (k == "funlink") { // F DISK : unlink then close the handle
      if (auto* f = getf(a[0])) {
        unsigned long long sz = f->size();
        int rc                = f->unlink();
        kvu(r, "fsize", sz);
        kvu(r, "rc", (unsigned long long)(rc == 0 ? 0 : 1));
        f->close();
        files[a[0]] = nullptr;
        obs_disk(r, diskof(a[1]));
      }
    } else if (k == "fclose") {
      if (auto* f = getf(a[0])) {
        f->close();
        files[a[0]] = nullptr;
      }
    } else if (k == "frcopy" || k == "frmove") { // F HOST PATH SRCDISK DSTDISK
      if (auto* f = getf(a[0])) {
        unsigned long long sz = f->size();
        int rc = k == "frcopy" ? f->remote_copy(hosts.at(a[1]), a[2]) : f->remote_move(hosts.at(a[1]), a[2]);
        kvu(r, "fsize", sz);
        kvu(r, "rc", (unsigned long long)(rc == 0 ? 0 : 1));
        if (k == "frmove") {
          f->close();
          files[a[0]] = nullptr;
        }
        obs_disk(r, diskof(a[3]));
        std::string r2;
        obs_disk(r2, diskof(a[4]));
        // prefix destination disk observations
        size_t p = 0;
        while ((p = r2.find(" ", p)) != std::string::npos) {
          r2.insert(p + 1, "dst_");
          p += 5;
        }
        r += r2;
      }
    } else
      return false;
  } catch (const simgrid::TimeoutException&) {
    exc = "Timeout";
  } catch (const simgrid::NetworkFailureException&) {
    exc = "NetworkFailure";
  } catch (const simgrid::HostFailureException&) {
    exc = "HostFailure";
  } catch (const simgrid::StorageFailureException&) {
    exc = "StorageFailure";
  } catch (const simgrid::Exception&) {
    exc = "Other";
  }
  return true;
}
} // namespace vs
