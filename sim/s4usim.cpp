// s4usim: seeded plan interpreter on the real SimGrid kernel (engine A) and in-process seeded scheduler in the model
// checker's computational model (engine A', "walk" mode). The plan (text, one directive per line) is produced by the
// Python generators in /verif/lib; this program draws nothing by itself except from PRNG streams whose seeds are in
// the plan. The event log goes to stdout (one record per line), SimGrid's own log to stderr.
#include "s4usim.hpp"
#ifdef S4USIM_DETSCHED
#include "detsched.h"
#endif

using namespace vs;

namespace vs {
std::string LOG;
long SEQ = 0;
std::map<std::string, sg4::Host*> hosts;
std::map<std::string, sg4::Link*> links;
std::map<std::string, sg4::Disk*> disks;
std::map<std::string, sg4::MutexPtr> mutexes;
std::map<std::string, sg4::SemaphorePtr> sems;
std::map<std::string, sg4::ConditionVariablePtr> cvs;
std::map<std::string, sg4::BarrierPtr> bars;
std::map<std::string, sg4::Mailbox*> mboxes;
std::map<std::string, sg4::MessageQueue*> mqs;
std::map<std::string, Slot> slots;
std::map<std::string, ActorSpec> specs;
std::vector<std::string> spec_order;
std::map<std::string, sg4::ActorPtr> actors;
std::map<std::string, std::string> opts;
std::map<long, std::string> pid2aid;
std::map<std::string, CurOp> curop;
std::set<long> deadpids;
bool parallel_ctx = false;

void emit(const char* fmt, ...)
{
  char buf[4096];
  va_list ap;
  va_start(ap, fmt);
  int n = vsnprintf(buf, sizeof buf, fmt, ap);
  va_end(ap);
  if (n >= (int)sizeof buf)
    n = sizeof buf - 1;
  LOG.append(buf, n);
  LOG.push_back('\n');
}

#ifdef S4USIM_DETSCHED
static bool detsched_on = false;
#endif
static bool flushed = false;
void flush_log()
{
  if (flushed)
    return;
  flushed    = true;
  size_t off = 0;
  while (off < LOG.size()) {
    ssize_t w = write(1, LOG.data() + off, LOG.size() - off);
    if (w <= 0)
      break;
    off += w;
  }
}

static void on_fatal(int sig)
{
  char b[64];
  int n = snprintf(b, sizeof b, "X %ld signal=%d\n", SEQ++, sig);
  LOG.append(b, n);
  flush_log();
  signal(sig, SIG_DFL);
  raise(sig);
}

double now()
{
  return sg4::Engine::get_clock();
}

std::string aid_of(sg4::Actor* a)
{
  if (a == nullptr)
    return "-";
  auto it = pid2aid.find(a->get_pid());
  if (it == pid2aid.end())
    return "pid" + std::to_string(a->get_pid());
  return it->second;
}

double num(const std::string& s)
{
  return strtod(s.c_str(), nullptr);
}
} // namespace vs

// ---------------------------------------------------------------------------------------------------------------
// Plan parsing
// ---------------------------------------------------------------------------------------------------------------
static std::vector<std::string> split(const std::string& l)
{
  std::vector<std::string> r;
  std::istringstream is(l);
  std::string t;
  while (is >> t)
    r.push_back(t);
  return r;
}

struct PlanLine {
  std::vector<std::string> t;
};
static std::vector<PlanLine> plan_lines;
static std::map<std::string, sg4::SplitDuplexLink*> splitlinks;

static void read_plan(std::istream& in)
{
  std::string l;
  while (std::getline(in, l)) {
    if (l.empty() || l[0] == '#')
      continue;
    auto t = split(l);
    if (t.empty())
      continue;
    plan_lines.push_back({t});
  }
}

static simgrid::kernel::profile::Profile* mkprofile(const std::string& name, const std::vector<std::string>& t, size_t from)
{
  // t[from] = periodicity, then pairs date value
  double period = num(t[from]);
  std::string s;
  char b[128];
  for (size_t i = from + 1; i + 1 < t.size(); i += 2) {
    snprintf(b, sizeof b, "%.17g %.17g\n", num(t[i]), num(t[i + 1]));
    s += b;
  }
  return simgrid::kernel::profile::ProfileBuilder::from_string(name, s, period);
}

static sg4::Link::SharingPolicy linkpol(const std::string& s)
{
  if (s == "FATPIPE")
    return sg4::Link::SharingPolicy::FATPIPE;
  if (s == "SPLITDUPLEX")
    return sg4::Link::SharingPolicy::SPLITDUPLEX;
  return sg4::Link::SharingPolicy::SHARED;
}

static void build_platform(sg4::Engine& e)
{
  auto* zone = e.get_netzone_root();
  if (opts.count("zone") && opts["zone"] != "full") {
    // not used yet
  }
  for (auto& pl : plan_lines) {
    auto& t = pl.t;
    if (t[0] == "host") { // host NAME CORES SPEED[,SPEED...]
      std::vector<double> sp;
      std::istringstream is(t[3]);
      std::string x;
      while (std::getline(is, x, ','))
        sp.push_back(num(x));
      auto* h = zone->add_host(t[1], sp);
      h->set_core_count(atoi(t[2].c_str()));
      hosts[t[1]] = h;
    } else if (t[0] == "hprop") {
      hosts.at(t[1])->set_property(t[2], t[3]);
    } else if (t[0] == "hpstate") {
      hosts.at(t[1])->set_pstate(atoi(t[2].c_str()));
    } else if (t[0] == "hconc") {
      hosts.at(t[1])->set_concurrency_limit(atoi(t[2].c_str()));
    } else if (t[0] == "disk") { // disk HOST NAME RBW WBW [key value]...
      auto* d = hosts.at(t[1])->add_disk(t[2], num(t[3]), num(t[4]));
      for (size_t i = 5; i + 1 < t.size(); i += 2)
        d->set_property(t[i], t[i + 1]);
      d->seal();
      disks[t[2]] = d;
    } else if (t[0] == "link") { // link NAME BW LAT POLICY
      if (t[4] == "SPLITDUPLEX") {
        auto* l = zone->add_split_duplex_link(t[1], num(t[2]));
        l->set_latency(num(t[3]));
        splitlinks[t[1]]      = l;
        links[t[1] + "_UP"]   = l->get_link_up();
        links[t[1] + "_DOWN"] = l->get_link_down();
      } else {
        auto* l = zone->add_link(t[1], num(t[2]));
        l->set_latency(num(t[3]));
        l->set_sharing_policy(linkpol(t[4]));
        links[t[1]] = l;
      }
    } else if (t[0] == "lprop") {
      links.at(t[1])->set_property(t[2], t[3]);
    } else if (t[0] == "lconc") {
      links.at(t[1])->set_concurrency_limit(atoi(t[2].c_str()));
    } else if (t[0] == "hprofile") { // hprofile speed|state HOST PERIOD d v d v
      auto* p = mkprofile(t[2] + "_" + t[1], t, 3);
      if (t[1] == "speed")
        hosts.at(t[2])->set_speed_profile(p);
      else
        hosts.at(t[2])->set_state_profile(p);
    } else if (t[0] == "lprofile") { // lprofile bw|lat|state LINK PERIOD d v ...
      auto* p = mkprofile(t[2] + "_" + t[1], t, 3);
      if (t[1] == "bw")
        links.at(t[2])->set_bandwidth_profile(p);
      else if (t[1] == "lat")
        links.at(t[2])->set_latency_profile(p);
      else
        links.at(t[2])->set_state_profile(p);
    }
  }
  // routes after all hosts/links exist
  for (auto& pl : plan_lines) {
    auto& t = pl.t;
    if (t[0] == "route") { // route SRC DST SYM L1 L2 ...
      std::vector<sg4::LinkInRoute> ls;
      for (size_t i = 4; i < t.size(); i++) {
        std::string n = t[i];
        if (n.size() > 3 && n.substr(n.size() - 3) == ":UP")
          ls.emplace_back(splitlinks.at(n.substr(0, n.size() - 3)), sg4::LinkInRoute::Direction::UP);
        else if (n.size() > 5 && n.substr(n.size() - 5) == ":DOWN")
          ls.emplace_back(splitlinks.at(n.substr(0, n.size() - 5)), sg4::LinkInRoute::Direction::DOWN);
        else
          ls.emplace_back(links.at(n));
      }
      zone->add_route(hosts.at(t[1]), hosts.at(t[2]), ls, t[3] == "1");
    }
  }
  for (auto& [n, h] : hosts)
    h->seal();
  zone->seal();
}

static void build_objects()
{
  for (auto& pl : plan_lines) {
    auto& t = pl.t;
    if (t[0] == "mutex")
      mutexes[t[1]] = sg4::Mutex::create(t[2] == "1");
    else if (t[0] == "sem")
      sems[t[1]] = sg4::Semaphore::create(atoi(t[2].c_str()));
    else if (t[0] == "cv")
      cvs[t[1]] = sg4::ConditionVariable::create();
    else if (t[0] == "bar")
      bars[t[1]] = sg4::Barrier::create(atoi(t[2].c_str()));
    else if (t[0] == "mbox")
      mboxes[t[1]] = sg4::Mailbox::by_name(t[1]);
    else if (t[0] == "mq")
      mqs[t[1]] = sg4::MessageQueue::by_name(t[1]);
    else if (t[0] == "actor") { // actor ID HOST [daemon] [autorestart] [template] [killtime=T] [onexit=K]
      ActorSpec sp;
      sp.id   = t[1];
      sp.host = t[2];
      for (size_t i = 3; i < t.size(); i++) {
        if (t[i] == "daemon")
          sp.daemon = true;
        else if (t[i] == "autorestart")
          sp.autorestart = true;
        else if (t[i] == "template")
          sp.tmpl = true;
        else if (t[i].rfind("killtime=", 0) == 0)
          sp.killtime = num(t[i].substr(9));
        else if (t[i].rfind("onexit=", 0) == 0)
          sp.onexit = atoi(t[i].substr(7).c_str());
        else if (t[i].rfind("stack=", 0) == 0)
          sp.stack = atoi(t[i].substr(6).c_str());
      }
      specs[sp.id] = sp;
      spec_order.push_back(sp.id);
    } else if (t[0] == "op") { // op ACTOR KIND args...
      Op o;
      o.kind = t[2];
      o.a.assign(t.begin() + 3, t.end());
      specs.at(t[1]).ops.push_back(o);
    }
  }
}

// ---------------------------------------------------------------------------------------------------------------
// Actor bodies
// ---------------------------------------------------------------------------------------------------------------
namespace vs {
sg4::ActorPtr spawn(const std::string& id)
{
  ActorSpec& sp = specs.at(id);
  sp.created++;
  int creation    = sp.created;
  std::string aid = sp.id + (creation > 1 ? "#" + std::to_string(creation) : "");
  ActorSpec* spp = &sp;
  sg4::ActorPtr a;
  if (sp.stack > 0) {
    a = sg4::Actor::init(aid, hosts.at(sp.host));
    a->set_stacksize(sp.stack);
    a->start([spp, aid]() { actor_body(spp, aid); });
  } else {
    // the one-simcall creation: the only one the model checker observes (ACTOR_CREATE transition); with init()+start()
    // the pids of the children of two racing creators depend on an order the checker does not see
    a = hosts.at(sp.host)->add_actor(aid, [spp, aid]() { actor_body(spp, aid); });
  }
  if (sp.autorestart)
    a->set_auto_restart(true); // after start(): the restart arguments are captured from the running actor
  pid2aid[a->get_pid()] = aid;
  if (sp.killtime >= 0)
    a->set_kill_time(sp.killtime);
  actors[sp.id] = a;
  return a;
}

void actor_body(ActorSpec* sp, const std::string& aid)
{
  auto* self = sg4::Actor::self();
  int inc    = self->get_restart_count();
  pid2aid[self->get_pid()] = aid; // restarted actors get a new pid
  actors[sp->id] = self;
  emit("S %ld %a actor_start aid=%s inc=%d pid=%ld host=%s", SEQ++, now(), aid.c_str(), inc, self->get_pid(),
       self->get_host()->get_cname());
  for (int k = 0; k < sp->onexit; k++) {
    long mypid = self->get_pid();
    sg4::this_actor::on_exit([aid, inc, k, mypid](bool failed) {
      emit("S %ld %a on_exit aid=%s inc=%d k=%d failed=%d regpid=%ld", SEQ++, now(), aid.c_str(), inc, k, (int)failed, mypid);
    });
    emit("S %ld %a on_exit_registered aid=%s inc=%d k=%d regpid=%ld", SEQ++, now(), aid.c_str(), inc, k, mypid);
  }
  if (sp->daemon)
    self->daemonize();
  Ctx c{sp, aid, inc, self};
  std::string ck = aid;
  for (size_t i = 0; i < sp->ops.size(); i++) {
    curop[ck] = CurOp{(int)i, inc, true};
    do_op(c, (int)i, sp->ops[i]);
  }
  curop[ck] = CurOp{(int)sp->ops.size(), inc, false};
  emit("S %ld %a actor_end aid=%s inc=%d", SEQ++, now(), aid.c_str(), inc);
}
} // namespace vs

// ---------------------------------------------------------------------------------------------------------------
// Signals
// ---------------------------------------------------------------------------------------------------------------
static const char* actname(const sg4::Activity& a)
{
  return a.get_cname();
}

static void connect_signals()
{
  bool verbose_act = opts.count("actsig") && opts["actsig"] == "1";
  sg4::Engine::on_time_advance_cb([](double d) {
    emit("S %ld %a time_advance delta=%a", SEQ++, now(), d);
    time_advance_monitor(d);
  });
  sg4::Engine::on_deadlock_cb([]() {
    emit("S %ld %a deadlock", SEQ++, now());
    dump_blocked();
  });
  sg4::Engine::on_simulation_end_cb([]() { emit("S %ld %a simulation_end", SEQ++, now()); });
  sg4::Actor::on_termination_cb([](sg4::Actor const& a) {
    deadpids.insert(a.get_pid());
    emit("S %ld %a actor_term aid=%s pid=%ld", SEQ++, now(), aid_of(const_cast<sg4::Actor*>(&a)).c_str(), a.get_pid());
  });
  sg4::Host::on_onoff_cb(
      [](sg4::Host const& h) { emit("S %ld %a host_onoff host=%s on=%d", SEQ++, now(), h.get_cname(), (int)h.is_on()); });
  sg4::Host::on_speed_change_cb([](sg4::Host const& h) {
    emit("S %ld %a host_speed host=%s speed=%a avail=%a pstate=%lu", SEQ++, now(), h.get_cname(), h.get_speed(),
         h.get_available_speed(), h.get_pstate());
  });
  sg4::Link::on_onoff_cb(
      [](sg4::Link const& l) { emit("S %ld %a link_onoff link=%s on=%d", SEQ++, now(), l.get_cname(), (int)l.is_on()); });
  sg4::Link::on_bandwidth_change_cb([](sg4::Link const& l) {
    emit("S %ld %a link_bw link=%s bw=%a", SEQ++, now(), l.get_cname(), l.get_bandwidth());
  });
  if (verbose_act) {
    sg4::Exec::on_start_cb([](sg4::Exec const& x) { emit("S %ld %a act_start kind=exec name=%s", SEQ++, now(), actname(x)); });
    sg4::Exec::on_completion_cb([](sg4::Exec const& x) {
      emit("S %ld %a act_done kind=exec name=%s state=%s start=%a finish=%a", SEQ++, now(), actname(x), x.get_state_str(),
           x.get_start_time(), x.get_finish_time());
    });
    sg4::Exec::on_veto_cb([](sg4::Exec& x) { emit("S %ld %a act_veto kind=exec name=%s", SEQ++, now(), actname(x)); });
    sg4::Comm::on_start_cb([](sg4::Comm const& x) { emit("S %ld %a act_start kind=comm name=%s", SEQ++, now(), actname(x)); });
    sg4::Comm::on_completion_cb([](sg4::Comm const& x) {
      emit("S %ld %a act_done kind=comm name=%s state=%s start=%a finish=%a", SEQ++, now(), actname(x), x.get_state_str(),
           x.get_start_time(), x.get_finish_time());
    });
    sg4::Comm::on_veto_cb([](sg4::Comm& x) { emit("S %ld %a act_veto kind=comm name=%s", SEQ++, now(), actname(x)); });
    sg4::Io::on_start_cb([](sg4::Io const& x) { emit("S %ld %a act_start kind=io name=%s", SEQ++, now(), actname(x)); });
    sg4::Io::on_completion_cb([](sg4::Io const& x) {
      emit("S %ld %a act_done kind=io name=%s state=%s start=%a finish=%a", SEQ++, now(), actname(x), x.get_state_str(),
           x.get_start_time(), x.get_finish_time());
    });
    sg4::Io::on_veto_cb([](sg4::Io& x) { emit("S %ld %a act_veto kind=io name=%s", SEQ++, now(), actname(x)); });
  }
}

namespace vs {
void dump_blocked()
{
  for (auto& [aid, co] : curop)
    if (co.active) {
      // is that incarnation still alive?
      emit("S %ld %a blocked aid=%s inc=%d op=%d", SEQ++, now(), aid.c_str(), co.inc, co.idx);
    }
}
} // namespace vs

// ---------------------------------------------------------------------------------------------------------------
// H2: seeded permutation of each scheduling sub-round; heap layout perturbation
// ---------------------------------------------------------------------------------------------------------------
static uint64_t h2_state = 0;
static uint64_t sm64(uint64_t& s)
{
  s += 0x9E3779B97F4A7C15ull;
  uint64_t z = s;
  z          = (z ^ (z >> 30)) * 0xBF58476D1CE4E5B9ull;
  z          = (z ^ (z >> 27)) * 0x94D049BB133111EBull;
  return z ^ (z >> 31);
}
static long h2_permuted = 0;
static bool h2_on       = false;
static void h2_reorder(std::vector<simgrid::kernel::actor::ActorImpl*>& v)
{
  // sub-round marker: simcalls issued in a sub-round are handled at its end, in run order
  emit("B %ld %a n=%zu", SEQ++, now(), v.size());
  if (!h2_on || v.size() < 2)
    return;
  for (size_t i = v.size() - 1; i > 0; i--) {
    size_t j = sm64(h2_state) % (i + 1);
    std::swap(v[i], v[j]);
  }
  h2_permuted++;
}

static void perturb_heap(uint64_t seed)
{
  static std::vector<void*> keep;
  std::vector<void*> ch;
  uint64_t s = seed;
  static const size_t sizes[] = {16, 24, 32, 48, 64, 80, 96, 112, 128, 160, 192, 224, 256, 320, 384, 512, 768, 1024, 2048};
  for (int i = 0; i < 6000; i++)
    ch.push_back(malloc(sizes[sm64(s) % (sizeof sizes / sizeof sizes[0])]));
  for (size_t i = ch.size() - 1; i > 0; i--)
    std::swap(ch[i], ch[sm64(s) % (i + 1)]);
  for (size_t i = 0; i < ch.size(); i++)
    if (i % 4 == 0)
      keep.push_back(ch[i]);
    else
      free(ch[i]);
}

// ---------------------------------------------------------------------------------------------------------------
int main(int argc, char** argv)
{
  // plan from file argv[1] (or stdin when "-"); remaining args go to SimGrid
  std::string planfile = argc > 1 ? argv[1] : "-";
  if (planfile == "-")
    read_plan(std::cin);
  else {
    std::ifstream f(planfile);
    if (!f) {
      fprintf(stderr, "cannot open plan %s\n", planfile.c_str());
      return 3;
    }
    read_plan(f);
  }
  for (auto& pl : plan_lines)
    if (pl.t[0] == "opt" && pl.t.size() >= 3) {
      std::string v = pl.t[2];
      for (size_t i = 3; i < pl.t.size(); i++)
        v += " " + pl.t[i];
      opts[pl.t[1]] = v;
    }
  // ASLR off re-exec if requested
  if (opts.count("aslr") && opts["aslr"] == "off" && !getenv("S4USIM_REEXEC")) {
    setenv("S4USIM_REEXEC", "1", 1);
    if (planfile != "-") {
      personality(ADDR_NO_RANDOMIZE);
      execv("/proc/self/exe", argv);
    }
  }
  std::vector<char*> av;
  av.push_back(argv[0]);
  for (int i = 2; i < argc; i++)
    av.push_back(argv[i]);
  int ac = av.size();
  av.push_back(nullptr);
  sg4::Engine e(&ac, av.data());
  bool walk = opts.count("mode") && opts["mode"] == "walk";
  for (auto& pl : plan_lines)
    if (pl.t[0] == "cfg")
      e.set_config(pl.t[1]);
  if (walk)
    e.set_config("model-check/replay:0");
  signal(SIGABRT, on_fatal);
  signal(SIGSEGV, on_fatal);
  signal(SIGFPE, on_fatal);
  signal(SIGBUS, on_fatal);
  if (opts.count("plugin")) {
    std::istringstream is(opts["plugin"]);
    std::string p;
    while (is >> p)
      init_plugin(p);
  }
  build_platform(e);
  if (opts.count("layout"))
    perturb_heap(strtoull(opts["layout"].c_str(), nullptr, 10));
  build_objects();
  connect_signals();
  mcd_init(); // engine D: no-op unless `opt mcout FILE`
  post_platform_init();
  if (opts.count("h2") && opts["h2"] != "0") {
    h2_state = strtoull(opts["h2"].c_str(), nullptr, 10);
    h2_on    = true;
  }
  if (!walk && !(opts.count("nomarker") && opts["nomarker"] == "1"))
    simgrid_verif_reorder = h2_reorder;
  if (opts.count("lmmmon") && opts["lmmmon"] == "1")
    lmm_monitor_start();
#ifdef S4USIM_DETSCHED
  if (opts.count("detsched") && opts["detsched"] != "off") {
    // engine E inside engine A (C02): the real worker threads of the context factory (Parmap workers of raw/boost, one
    // thread per actor for the thread factory) are parked and released one at a time by the seeded scheduler.
    // Enabled after the Engine exists and before the first actor is created; H3 adds yield points in Parmap
    std::string ds   = opts["detsched"];
    size_t c         = ds.find(':');
    uint64_t dseed   = strtoull(ds.substr(0, c).c_str(), nullptr, 10);
    std::string spec = c == std::string::npos ? "" : ds.substr(c + 1);
    if (detsched_enable_spec(dseed, spec.c_str()) != 0) {
      fprintf(stderr, "bad detsched spec %s\n", spec.c_str());
      _exit(3);
    }
    simgrid_verif_yield = detsched_yield;
    detsched_on         = true;
  }
#endif
  emit("S %ld %a begin mode=%s", SEQ++, 0.0, walk ? "walk" : "native");
  // operations executed by maestro itself before the simulation starts (workflows built in main())
  {
    Ctx mc{nullptr, "maestro", 0, nullptr};
    int mi = 0;
    for (auto& pl : plan_lines)
      if (pl.t[0] == "mop" && pl.t.size() >= 2) {
        Op o;
        o.kind = pl.t[1];
        o.a.assign(pl.t.begin() + 2, pl.t.end());
        do_op(mc, mi++, o);
      }
  }
  for (auto& id : spec_order)
    if (!specs[id].tmpl)
      spawn(id);
  int rc = 0;
  if (walk) {
    rc = (opts.count("walker") && opts["walker"] == "d") ? run_walk_d(e) : run_walk(e);
  } else {
    try {
      if (opts.count("until"))
        e.run_until(num(opts["until"]));
      else
        e.run();
    } catch (const std::exception& ex) {
      emit("X %ld exception=%s", SEQ++, typeid(ex).name());
      rc = 4;
    }
  }
  emit("S %ld %a end h2perm=%ld", SEQ++, now(), h2_permuted);
  final_report();
#ifdef S4USIM_DETSCHED
  if (detsched_on)
    fprintf(stderr, "DETSCHED trace=%016llx steps=%ld switches=%ld choice_points=%ld threads=%d max_runnable=%d\n",
            detsched_hash(), detsched_steps(), detsched_switches(), detsched_choice_points(), detsched_threads_created(),
            detsched_max_runnable());
#endif
  flush_log();
  fflush(stderr);
  _exit(rc);
}
