# engine B: LMM history harness + in-process monitor (lmm_monitor.o is also meant to be linked by the S4U harness)
TARGETS += $(OUT)/lmmsim

$(OUT)/lmmsim: $(OBJ)/lmmsim.o $(OBJ)/lmm_monitor.o
	$(CXX) -o $@ $^ $(LDLIBS)
