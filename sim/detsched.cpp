/* detsched: deterministic scheduler for real threads by symbol interposition. See detsched.h.
 *
 * Model: one token. The thread holding it runs; every other managed thread is parked on its private real futex
 * (`go`). Before every intercepted operation ("scheduling point") the strategy picks the thread that goes on.
 * Between two scheduling points a thread runs atomically with respect to the other managed threads, so the
 * execution is sequentially consistent at the granularity of intercepted operations, and is a pure function
 * of (seed, strategy, parameters, code).
 *
 * Blocking primitives are simulated (side tables keyed by address / thread state), never delegated to the
 * kernel: mutex waiters, condition waiters, futex waiters, semaphore waiters and joiners are threads whose
 * state is not RUN. The REAL mutex/semaphore objects are kept consistent as well (trylock/unlock/post on the
 * real object when the simulation grants the operation) so that unmanaged threads, exiting threads running
 * their TLS destructors, recursive/errorcheck mutex types and detsched_disable() keep working.
 *
 * FUTEX_WAIT compares the value and enqueues in one step (no scheduling point in between); a FUTEX_WAKE
 * without waiter is lost, as in the kernel. */
#ifndef _GNU_SOURCE
#define _GNU_SOURCE
#endif
#include "detsched.h"

#include <atomic>
#include <cerrno>
#include <climits>
#include <cstdarg>
#include <cstdint>
#include <cstdio>
#include <cstdlib>
#include <cstring>
#include <dlfcn.h>
#include <linux/futex.h>
#include <pthread.h>
#include <sched.h>
#include <semaphore.h>
#include <sys/syscall.h>
#include <time.h>
#include <unistd.h>
#include <string>
#include <unordered_map>
#include <vector>

namespace {

/* ---- raw system calls: syscall() itself is interposed below, so the shim never goes through it ---------- */
long raw_syscall6(long n, long a, long b, long c, long d, long e, long f)
{
  long ret;
  register long r10 __asm__("r10") = d;
  register long r8 __asm__("r8")   = e;
  register long r9 __asm__("r9")   = f;
  __asm__ volatile("syscall" : "=a"(ret) : "a"(n), "D"(a), "S"(b), "d"(c), "r"(r10), "r"(r8), "r"(r9)
                   : "rcx", "r11", "memory");
  return ret;
}
long errno_syscall6(long n, long a, long b, long c, long d, long e, long f)
{
  long r = raw_syscall6(n, a, b, c, d, e, f);
  if (r < 0 && r > -4096) {
    errno = (int)-r;
    return -1;
  }
  return r;
}

/* ---- SplitMix64 (same generator as /verif/lib/rng.py) --------------------------------------------------- */
uint64_t mix64(uint64_t z)
{
  z += 0x9E3779B97F4A7C15ull;
  z = (z ^ (z >> 30)) * 0xBF58476D1CE4E5B9ull;
  z = (z ^ (z >> 27)) * 0x94D049BB133111EBull;
  return z ^ (z >> 31);
}
struct Rng {
  uint64_t s = 0;
  void seed(uint64_t seed, uint64_t stream) { s = mix64(mix64(seed) ^ stream); }
  uint64_t u64()
  {
    s += 0x9E3779B97F4A7C15ull;
    uint64_t z = s;
    z          = (z ^ (z >> 30)) * 0xBF58476D1CE4E5B9ull;
    z          = (z ^ (z >> 27)) * 0x94D049BB133111EBull;
    return z ^ (z >> 31);
  }
  uint64_t below(uint64_t n) { return u64() % n; }
  double unit() { return (double)(u64() >> 11) * (1.0 / 9007199254740992.0); }
};

/* ---- threads ------------------------------------------------------------------------------------------------ */
enum St { RUN, MUTEX, COND, FUTEX, JOIN, SEM, ONCE, FIN };
const char* const st_names[] = {"RUN", "MUTEX", "COND", "FUTEX", "JOIN", "SEM", "ONCE", "FIN"};
enum Wake { W_NORMAL = 0, W_SPURIOUS = 1, W_TIMEOUT = 2, W_DISABLED = 3 };
enum Kind {
  K_YIELD = 1, K_SCHED_YIELD, K_CREATE, K_JOIN, K_LOCK, K_TRYLOCK, K_UNLOCK, K_CWAIT, K_CSPUR, K_SIGNAL, K_BCAST,
  K_FWAIT, K_FWAKE, K_SEMWAIT, K_SEMPOST, K_FIN, K_FEARLY, K_ONCE
};
const char* const kind_names[] = {"?",      "yield",  "sched_yield", "create", "join",  "lock",    "trylock",
                                  "unlock", "cwait",  "cspur",       "signal", "bcast", "fwait",   "fwake",
                                  "semwait", "sempost", "fin",        "fearly", "once"};

struct Th {
  int id = 0;
  unsigned session = 0; /* detsched_enable() generation this thread belongs to */
  std::atomic<int> go{0}; /* real parking word */
  St st           = RUN;
  const void* obj = nullptr; /* what the thread is blocked on */
  bool timed      = false;   /* blocked with a timeout: may be released when nobody is runnable */
  int wake        = W_NORMAL;
  long spur_at    = -1; /* deferred spurious wake-up (COND/FUTEX) at that step */
  int spur_kind   = 0;
  long not_before = 0; /* soft exclusion (late start, starvation) while steps < not_before */
  int soft_kind   = 0;
  bool soft_counted = true;
  long prio       = 0;
  long last_run   = 0;
  pthread_t real{};
  bool joined   = false;
  bool detached = false;
  void* (*fn)(void*) = nullptr;
  void* arg          = nullptr;
};

struct MInfo {
  Th* owner = nullptr;
  int rec   = 0;
};

struct State {
  std::vector<Th*> all;
  std::vector<Th*> live;
  std::vector<Th*> cand;
  std::unordered_map<const void*, MInfo> mtx;
  std::unordered_map<const void*, Th*> once; /* pthread_once in progress -> thread running the routine */
  std::unordered_map<const void*, int> objids; /* trace only */
  Rng sched, fault;
  int strategy = DETSCHED_UNIFORM;
  detsched_params p{};
  uint64_t hash = 1469598103934665603ull;
  long steps    = 0;
  std::vector<long> chg;
  size_t chg_i = 0;
  std::vector<long> starve_at;
  size_t starve_i = 0;
  long lowp       = 0;
  Th* last        = nullptr;
  long consec     = 0;
  int rr_q        = 1;
  int rr_left     = 0;
  long fired[DETSCHED_F_COUNT] = {0, 0, 0, 0, 0, 0};
  long choice_points = 0, switches = 0, fair_forced = 0;
  int max_runnable = 1;
  int created      = 1;
};

State* S = nullptr;
std::atomic<int> g_enabled{0};
std::atomic<unsigned> g_session{0};
void (*g_hook)(int) = nullptr;
thread_local Th* me = nullptr;
thread_local int in_shim = 0;
struct Guard {
  Guard() { in_shim++; }
  ~Guard() { in_shim--; }
};

inline bool active()
{
  return g_enabled.load(std::memory_order_relaxed) && me != nullptr && in_shim == 0 &&
         me->session == g_session.load(std::memory_order_relaxed);
}

void real_wait(Th* t)
{
  while (t->go.load(std::memory_order_acquire) == 0)
    raw_syscall6(SYS_futex, (long)&t->go, FUTEX_WAIT_PRIVATE, 0, 0, 0, 0);
  t->go.store(0, std::memory_order_relaxed);
}
void real_wake(Th* t)
{
  t->go.store(1, std::memory_order_release);
  raw_syscall6(SYS_futex, (long)&t->go, FUTEX_WAKE_PRIVATE, 1, 0, 0, 0);
}

int objid(const void* o)
{
  if (o == nullptr)
    return 0;
  auto it = S->objids.find(o);
  if (it != S->objids.end())
    return it->second;
  int id = (int)S->objids.size() + 1;
  S->objids[o] = id;
  return id;
}

void dump_threads(FILE* f)
{
  for (Th* t : S->all) {
    if (t->st == FIN)
      continue;
    if (t->st == JOIN)
      fprintf(f, " T%d:JOIN(T%d)", t->id, ((const Th*)t->obj)->id);
    else if (t->st == RUN)
      fprintf(f, " T%d:RUN", t->id);
    else
      fprintf(f, " T%d:%s(o%d)%s", t->id, st_names[t->st], objid(t->obj), t->timed ? "t" : "");
  }
}

[[noreturn]] void fatal(const char* what, int code)
{
  Guard g;
  fflush(stdout);
  fprintf(stderr, "DETSCHED %s hash=%016llx steps=%ld threads:", what, (unsigned long long)S->hash, S->steps);
  dump_threads(stderr);
  fprintf(stderr, "\n");
  fflush(stderr);
  if (S->p.trace)
    fflush(S->p.trace);
  if (g_hook)
    g_hook(code);
  fflush(stdout);
  _exit(code);
}

inline void fold(uint64_t v)
{
  S->hash = (S->hash ^ v) * 1099511628211ull;
}

void wake_thread(Th* t, int why)
{
  t->st      = RUN;
  t->obj     = nullptr;
  t->timed   = false;
  t->wake    = why;
  t->spur_at = -1;
}

/* Decide who runs next. `self_excl`: the caller expressed the intent to let others run (sched_yield). */
Th* pick(bool self_excl)
{
  State& s = *S;
  Th* self = me;
  if (s.strategy == DETSCHED_PCT)
    while (s.chg_i < s.chg.size() && s.chg[s.chg_i] <= s.steps) {
      if (self && self->st != FIN)
        self->prio = --s.lowp;
      s.chg_i++;
    }
  while (s.starve_i < s.starve_at.size() && s.starve_at[s.starve_i] <= s.steps) {
    s.starve_i++;
    if (not s.live.empty()) {
      Th* v           = s.live[s.fault.below(s.live.size())];
      v->not_before   = s.steps + s.p.starve_k;
      v->soft_kind    = DETSCHED_F_STARVE;
      v->soft_counted = false;
    }
  }
  for (Th* t : s.live)
    if (t->spur_at >= 0 && t->spur_at <= s.steps && (t->st == COND || t->st == FUTEX)) {
      s.fired[t->spur_kind]++;
      wake_thread(t, W_SPURIOUS);
    }

  for (;;) {
    s.cand.clear();
    int nrun = 0;
    for (Th* t : s.live)
      if (t->st == RUN) {
        nrun++;
        if ((t == self && self_excl) || s.steps < t->not_before)
          continue;
        s.cand.push_back(t);
      }
    if (nrun > s.max_runnable)
      s.max_runnable = nrun;
    if (not s.cand.empty()) {
      /* soft-excluded threads that were really held back: the fault fired */
      for (Th* t : s.live)
        if (t->st == RUN && s.steps < t->not_before && not t->soft_counted) {
          t->soft_counted = true;
          s.fired[t->soft_kind]++;
        }
      break;
    }
    if (self && self->st == RUN) { /* nobody else: the caller goes on (spinning until exclusions expire) */
      s.cand.push_back(self);
      break;
    }
    if (nrun > 0) { /* only soft-excluded ones: their exclusion ends now */
      for (Th* t : s.live)
        if (t->st == RUN) {
          t->not_before = 0;
          s.cand.push_back(t);
        }
      break;
    }
    /* nobody runnable: real time would pass, so a timed waiter times out (lowest id: deterministic) */
    Th* tw = nullptr;
    for (Th* t : s.live)
      if (t->timed && t->st != RUN) {
        tw = t;
        break;
      }
    if (tw) {
      wake_thread(tw, W_TIMEOUT);
      continue;
    }
    if (s.live.empty())
      return nullptr;
    fatal("DEADLOCK", 42); /* pending spurious wake-ups do not rescue a lost wake-up */
  }

  Th* n;
  if (s.cand.size() == 1) {
    n = s.cand[0];
    if (n != s.last)
      s.consec = 0;
  } else {
    s.choice_points++;
    size_t self_i = s.cand.size();
    for (size_t i = 0; i < s.cand.size(); i++)
      if (s.cand[i] == self)
        self_i = i;
    switch (s.strategy) {
      default:
      case DETSCHED_UNIFORM:
        n = s.cand[s.sched.below(s.cand.size())];
        break;
      case DETSCHED_STICKY:
        if (self_i < s.cand.size()) {
          if (s.sched.unit() < s.p.sticky_p)
            n = self;
          else {
            size_t k = s.sched.below(s.cand.size() - 1);
            n        = s.cand[k >= self_i ? k + 1 : k];
          }
        } else
          n = s.cand[s.sched.below(s.cand.size())];
        break;
      case DETSCHED_PCT:
        n = s.cand[0];
        for (Th* t : s.cand)
          if (t->prio > n->prio)
            n = t;
        break;
      case DETSCHED_RR:
        if (self_i < s.cand.size() && s.rr_left > 0) {
          s.rr_left--;
          n = self;
        } else {
          int from = self ? self->id : -1;
          n        = nullptr;
          for (Th* t : s.cand)
            if (t->id > from) {
              n = t;
              break;
            }
          if (n == nullptr)
            n = s.cand[0];
          if (n == self && s.cand.size() > 1)
            n = s.cand[(self_i + 1) % s.cand.size()];
          s.rr_left = s.rr_q - 1;
        }
        break;
    }
    /* fairness fallback: never let one thread monopolise the token for ever while others could run */
    if (n == s.last) {
      if (s.p.fair_k > 0 && ++s.consec > s.p.fair_k) {
        Th* lr = nullptr;
        for (Th* t : s.cand)
          if (t != n && (lr == nullptr || t->last_run < lr->last_run))
            lr = t;
        n = lr;
        s.fair_forced++;
        s.consec = 0;
      }
    } else
      s.consec = 0;
  }
  s.last      = n;
  n->last_run = s.steps;
  return n;
}

void switch_to(Th* n)
{
  Th* self = me;
  fold((uint64_t)(n ? n->id : 0xffff) + 0x10000);
  if (S->p.trace)
    fprintf(S->p.trace, " -> T%d\n", n ? n->id : -1);
  if (n == self || n == nullptr)
    return;
  S->switches++;
  real_wake(n);
  if (self && self->st != FIN)
    real_wait(self);
}

void note(int kind, const void* obj)
{
  State& s = *S;
  s.steps++;
  fold((uint64_t)me->id * 64 + (uint64_t)kind);
  if (s.p.trace)
    fprintf(s.p.trace, "%ld T%d %s o%d", s.steps, me->id, kind_names[kind], objid(obj));
  if (s.steps > s.p.step_cap)
    fatal("STEPCAP", 43);
}

/* scheduling point before a visible operation */
void yield_point(int kind, const void* obj = nullptr, bool self_excl = false)
{
  Guard g;
  note(kind, obj);
  switch_to(pick(self_excl));
}

/* the calling thread blocks; returns the wake reason once it has been made runnable and scheduled again */
int block(St st, const void* obj, bool timed)
{
  Guard g;
  Th* self    = me;
  self->st    = st;
  self->obj   = obj;
  self->timed = timed;
  self->wake  = W_NORMAL;
  if (S->p.trace)
    fprintf(S->p.trace, "%ld T%d blocks %s o%d", S->steps, self->id, st_names[st], objid(obj));
  switch_to(pick(false));
  if (not g_enabled.load(std::memory_order_relaxed))
    return W_DISABLED;
  return self->wake;
}

void finish_current()
{
  Guard g;
  Th* self = me;
  if (not g_enabled.load(std::memory_order_relaxed)) {
    me = nullptr;
    return;
  }
  note(K_FIN, nullptr);
  self->st = FIN;
  for (size_t i = 0; i < S->live.size(); i++)
    if (S->live[i] == self) {
      S->live.erase(S->live.begin() + (long)i);
      break;
    }
  for (Th* t : S->live)
    if (t->st == JOIN && t->obj == self)
      wake_thread(t, W_NORMAL);
  Th* n = pick(false);
  me    = nullptr; /* from here on (TLS destructors...) this thread forwards to the real functions */
  fold((uint64_t)(n ? n->id : 0xffff) + 0x10000);
  if (S->p.trace)
    fprintf(S->p.trace, " -> T%d\n", n ? n->id : -1);
  if (n) {
    S->switches++;
    real_wake(n);
  }
}

void* tramp(void* p)
{
  Th* t = (Th*)p;
  me    = t;
  real_wait(t);
  void* r = t->fn(t->arg);
  if (me)
    finish_current();
  return r;
}

void atfork_child()
{
  g_enabled.store(0);
  me = nullptr;
}

#define REAL(name)                                                                                                     \
  ([]() {                                                                                                              \
    static decltype(&name) fp = nullptr;                                                                               \
    if (fp == nullptr)                                                                                                 \
      fp = (decltype(&name))dlsym(RTLD_NEXT, #name);                                                                   \
    return fp;                                                                                                         \
  }())
#define REALV(name, ver)                                                                                               \
  ([]() {                                                                                                              \
    static decltype(&name) fp = nullptr;                                                                               \
    if (fp == nullptr) {                                                                                               \
      fp = (decltype(&name))dlvsym(RTLD_NEXT, #name, ver);                                                             \
      if (fp == nullptr)                                                                                               \
        fp = (decltype(&name))dlsym(RTLD_NEXT, #name);                                                                 \
    }                                                                                                                  \
    return fp;                                                                                                         \
  }())

void sim_release(pthread_mutex_t* m)
{
  auto it = S->mtx.find(m);
  if (it != S->mtx.end() && it->second.owner == me) {
    if (it->second.rec > 0) {
      it->second.rec--;
      return;
    }
    S->mtx.erase(it);
    for (Th* t : S->live)
      if (t->st == MUTEX && t->obj == m)
        wake_thread(t, W_NORMAL);
  }
}

/* acquire (no scheduling point at entry) */
int lock_body(pthread_mutex_t* m, bool timed)
{
  for (;;) {
    int w;
    {
      Guard g;
      auto it = S->mtx.find(m);
      if (it == S->mtx.end() || it->second.owner == nullptr) {
        int r = REAL(pthread_mutex_trylock)(m);
        if (r == EBUSY) /* held for real by an unmanaged (or exiting) thread: it will let go by itself */
          r = REAL(pthread_mutex_lock)(m);
        if (r == 0) {
          MInfo& mi = S->mtx[m];
          mi.owner  = me;
          mi.rec    = 0;
        }
        return r;
      }
      if (it->second.owner == me) {
        int r = REAL(pthread_mutex_trylock)(m); /* recursive: 0; errorcheck: EDEADLK; normal: EBUSY */
        if (r == 0) {
          it->second.rec++;
          return 0;
        }
        if (r != EBUSY)
          return r;
        if (timed)
          return ETIMEDOUT;
        /* relocking a normal mutex: self-deadlock; fall through and block for ever */
      }
    }
    w = block(MUTEX, m, timed);
    if (w == W_TIMEOUT)
      return ETIMEDOUT;
    if (w == W_DISABLED)
      return REAL(pthread_mutex_lock)(m);
  }
}

int cond_wait_body(pthread_cond_t* c, pthread_mutex_t* m, bool timed)
{
  yield_point(K_CWAIT, c);
  int w = W_NORMAL;
  bool immediate = false;
  {
    Guard g;
    sim_release(m);
    REAL(pthread_mutex_unlock)(m);
    if (S->p.f_spurious > 0 && S->fault.unit() < S->p.f_spurious) {
      if (S->fault.below(2) == 0)
        immediate = true;
      else {
        me->spur_at   = S->steps + 1 + (long)S->fault.below(30);
        me->spur_kind = DETSCHED_F_SPURIOUS;
      }
    }
  }
  if (immediate) {
    S->fired[DETSCHED_F_SPURIOUS]++;
    yield_point(K_CSPUR, c); /* others may run between the release and the re-acquisition */
    w = W_SPURIOUS;
  } else {
    w           = block(COND, c, timed);
    me->spur_at = -1;
  }
  if (w == W_DISABLED) {
    REAL(pthread_mutex_lock)(m);
    return 0;
  }
  int r = lock_body(m, false);
  if (r != 0)
    return r;
  return w == W_TIMEOUT ? ETIMEDOUT : 0;
}

int sem_wait_body(sem_t* s, bool timed)
{
  yield_point(K_SEMWAIT, s);
  for (;;) {
    {
      Guard g;
      int r = REAL(sem_trywait)(s);
      if (r == 0 || errno != EAGAIN)
        return r;
    }
    int w = block(SEM, s, timed);
    if (w == W_TIMEOUT) {
      errno = ETIMEDOUT;
      return -1;
    }
    if (w == W_DISABLED)
      return REAL(sem_wait)(s);
  }
}

const char* const fault_names[] = {"spurious", "futex_eintr", "futex_eagain", "futex_spur0", "late_start", "starve"};

} // namespace

/* ================================================================================================================ */
extern "C" {

void detsched_default_params(struct detsched_params* p)
{
  memset(p, 0, sizeof *p);
  p->sticky_p  = 0.85;
  p->pct_d     = 3;
  p->pct_steps = 2000;
  p->step_cap  = 5000000;
  p->fair_k    = 20000;
  p->late_max  = 60;
  p->starve_k  = 40;
  p->pin_cpu   = -1;
}

void detsched_enable(uint64_t seed, int strategy, const struct detsched_params* params)
{
  static bool atfork_done = false;
  if (not atfork_done) {
    atfork_done = true;
    pthread_atfork(nullptr, nullptr, atfork_child);
  }
  Guard g;
  if (S != nullptr && not g_enabled.load() && S->live.size() <= 1) { /* previous, finished session: recycle */
    if (S->p.trace && S->p.trace != stderr)
      fclose(S->p.trace);
    for (Th* t : S->all)
      delete t;
    delete S;
    S = nullptr;
  }
  State* s = new State; /* the last one is never freed: must survive static destruction */
  if (params)
    s->p = *params;
  else
    detsched_default_params(&s->p);
  if (s->p.step_cap <= 0)
    s->p.step_cap = 5000000;
  if (s->p.pct_steps <= 0)
    s->p.pct_steps = 2000;
  if (s->p.late_max <= 0)
    s->p.late_max = 60;
  if (s->p.starve_k <= 0)
    s->p.starve_k = 40;
  s->strategy = strategy;
  s->sched.seed(seed, 0x5ced);
  s->fault.seed(seed, 0xfa17);
  Rng setup;
  setup.seed(seed, 0x5e7);
  if (strategy == DETSCHED_PCT) {
    for (int i = 0; i < s->p.pct_d; i++)
      s->chg.push_back(1 + (long)setup.below((uint64_t)s->p.pct_steps));
    /* ascending: the i-th point reached gives the i-th lowest priority so far */
    for (size_t i = 0; i < s->chg.size(); i++)
      for (size_t j = i + 1; j < s->chg.size(); j++)
        if (s->chg[j] < s->chg[i]) {
          long t    = s->chg[i];
          s->chg[i] = s->chg[j];
          s->chg[j] = t;
        }
  }
  for (int i = 0; i < s->p.starve_n; i++)
    s->starve_at.push_back(1 + (long)setup.below((uint64_t)s->p.pct_steps));
  for (size_t i = 0; i < s->starve_at.size(); i++)
    for (size_t j = i + 1; j < s->starve_at.size(); j++)
      if (s->starve_at[j] < s->starve_at[i]) {
        long t          = s->starve_at[i];
        s->starve_at[i] = s->starve_at[j];
        s->starve_at[j] = t;
      }
  s->rr_q    = s->p.rr_quantum > 0 ? s->p.rr_quantum : 1 + (int)setup.below(6);
  s->rr_left = s->rr_q - 1;
  if (s->p.pin_cpu != -1) {
    int cpu = s->p.pin_cpu >= 0 ? s->p.pin_cpu : sched_getcpu();
    cpu_set_t set;
    CPU_ZERO(&set);
    if (cpu >= 0 && cpu < CPU_SETSIZE) {
      CPU_SET(cpu, &set);
      sched_setaffinity(0, sizeof set, &set); /* inherited by the threads created from now on */
    }
  }
  Th* t0      = new Th;
  t0->id      = 0;
  t0->session = g_session.load() + 1;
  t0->real   = pthread_self();
  t0->prio   = 1 + (long)setup.below(1000000);
  s->all.push_back(t0);
  s->live.push_back(t0);
  s->last = t0;
  S       = s;
  me      = t0;
  g_session.fetch_add(1);
  g_enabled.store(1);
}

int detsched_enable_spec(uint64_t seed, const char* spec)
{
  detsched_params p;
  detsched_default_params(&p);
  int strategy = DETSCHED_UNIFORM;
  std::string sp(spec ? spec : "");
  size_t i = 0;
  while (i < sp.size()) {
    size_t j = sp.find_first_of(", ", i);
    if (j == std::string::npos)
      j = sp.size();
    std::string kv = sp.substr(i, j - i);
    i              = j + 1;
    if (kv.empty())
      continue;
    size_t e = kv.find('=');
    if (e == std::string::npos)
      return -1;
    std::string k = kv.substr(0, e), v = kv.substr(e + 1);
    if (k == "strategy" || k == "strat") {
      if (v == "uniform")
        strategy = DETSCHED_UNIFORM;
      else if (v == "sticky")
        strategy = DETSCHED_STICKY;
      else if (v == "pct")
        strategy = DETSCHED_PCT;
      else if (v == "rr" || v == "fair")
        strategy = DETSCHED_RR;
      else
        return -1;
    } else if (k == "sticky")
      p.sticky_p = atof(v.c_str());
    else if (k == "d")
      p.pct_d = atoi(v.c_str());
    else if (k == "steps" || k == "est")
      p.pct_steps = atol(v.c_str());
    else if (k == "quantum")
      p.rr_quantum = atoi(v.c_str());
    else if (k == "cap")
      p.step_cap = atol(v.c_str());
    else if (k == "fair")
      p.fair_k = atol(v.c_str());
    else if (k == "spur")
      p.f_spurious = atof(v.c_str());
    else if (k == "futex")
      p.f_futex = atof(v.c_str());
    else if (k == "late")
      p.f_late = atof(v.c_str());
    else if (k == "latemax")
      p.late_max = atoi(v.c_str());
    else if (k == "starve")
      p.starve_n = atoi(v.c_str());
    else if (k == "starvek")
      p.starve_k = atoi(v.c_str());
    else if (k == "cpu")
      p.pin_cpu = v == "auto" ? -2 : atoi(v.c_str());
    else if (k == "trace") {
      p.trace = v == "-" ? stderr : fopen(v.c_str(), "w");
    } else
      return -1;
  }
  detsched_enable(seed, strategy, &p);
  return 0;
}

void detsched_disable(void)
{
  if (not g_enabled.load())
    return;
  Guard g;
  g_enabled.store(0);
  if (S->p.trace)
    fflush(S->p.trace);
  for (Th* t : S->live)
    if (t != me)
      real_wake(t); /* blocked ones leave their simulated wait with W_DISABLED and fall back on the real object */
  me = nullptr;
}

int detsched_enabled(void)
{
  return g_enabled.load();
}

void detsched_yield(void)
{
  if (active())
    yield_point(K_YIELD);
}

unsigned long long detsched_hash(void)
{
  return S ? S->hash : 0;
}
long detsched_steps(void)
{
  return S ? S->steps : 0;
}
long detsched_fault_fired(int kind)
{
  return S && kind >= 0 && kind < DETSCHED_F_COUNT ? S->fired[kind] : 0;
}
const char* detsched_fault_name(int kind)
{
  return kind >= 0 && kind < DETSCHED_F_COUNT ? fault_names[kind] : "?";
}
long detsched_choice_points(void)
{
  return S ? S->choice_points : 0;
}
long detsched_switches(void)
{
  return S ? S->switches : 0;
}
long detsched_fair_forced(void)
{
  return S ? S->fair_forced : 0;
}
int detsched_max_runnable(void)
{
  return S ? S->max_runnable : 0;
}
int detsched_thread_id(void)
{
  return me ? me->id : -1;
}
int detsched_threads_created(void)
{
  return S ? (int)S->all.size() : 0;
}
int detsched_threads_live(void)
{
  return S ? (int)S->live.size() : 0;
}
void detsched_set_abort_hook(void (*hook)(int))
{
  g_hook = hook;
}

/* ---- threads ----------------------------------------------------------------------------------------------- */
int pthread_create(pthread_t* th, const pthread_attr_t* a, void* (*fn)(void*), void* arg)
{
  auto real = REAL(pthread_create);
  if (not active())
    return real(th, a, fn, arg);
  yield_point(K_CREATE);
  Guard g;
  Th* t   = new Th;
  t->id   = (int)S->all.size();
  t->session = g_session.load();
  t->fn   = fn;
  t->arg  = arg;
  t->prio = 1 + (long)S->sched.below(1000000);
  if (S->p.f_late > 0 && S->fault.unit() < S->p.f_late) {
    t->not_before   = S->steps + 1 + (long)S->fault.below((uint64_t)S->p.late_max);
    t->soft_kind    = DETSCHED_F_LATE_START;
    t->soft_counted = false;
  }
  int r = real(th, a, tramp, t);
  if (r != 0) {
    delete t;
    return r;
  }
  t->real = *th;
  S->all.push_back(t);
  S->live.push_back(t);
  return 0;
}

static Th* find_thread(pthread_t th)
{
  for (size_t i = S->all.size(); i-- > 0;)
    if (not S->all[i]->joined && pthread_equal(S->all[i]->real, th))
      return S->all[i];
  return nullptr;
}

int pthread_join(pthread_t th, void** ret)
{
  auto real = REAL(pthread_join);
  if (not active())
    return real(th, ret);
  yield_point(K_JOIN);
  Th* t;
  {
    Guard g;
    t = find_thread(th);
  }
  if (t && t != me && t->st != FIN)
    block(JOIN, t, false);
  if (t)
    t->joined = true;
  Guard g;
  return real(th, ret); /* the real thread is past its user code: returns at once */
}

int pthread_detach(pthread_t th)
{
  auto real = REAL(pthread_detach);
  if (active()) {
    Guard g;
    Th* t = find_thread(th);
    if (t)
      t->detached = t->joined = true;
  }
  return real(th);
}

void pthread_exit(void* ret)
{
  auto real = REAL(pthread_exit);
  if (active())
    finish_current();
  real(ret);
  __builtin_unreachable();
}

int pthread_setaffinity_np(pthread_t th, size_t sz, const cpu_set_t* set) noexcept
{
  auto real = REAL(pthread_setaffinity_np);
  if (g_enabled.load(std::memory_order_relaxed))
    return 0; /* one thread runs at a time: pinning only makes concurrent harness processes collide */
  return real(th, sz, set);
}

int sched_yield(void) noexcept
{
  auto real = REAL(sched_yield);
  if (not active())
    return real();
  if (S->strategy == DETSCHED_PCT)
    me->prio = --S->lowp; /* PCT's treatment of yield loops: the spinner drops below everybody */
  yield_point(K_SCHED_YIELD, nullptr, true);
  return 0;
}

/* pthread_once: glibc waits on a futex through an inlined system call, which would block the token holder for real
 * when the initialising thread was descheduled inside its routine: the wait is simulated instead */
int pthread_once(pthread_once_t* o, void (*fn)(void))
{
  auto real = REAL(pthread_once);
  if (not active())
    return real(o, fn);
  yield_point(K_ONCE, o);
  for (;;) {
    bool busy;
    {
      Guard g;
      auto it = S->once.find(o);
      busy    = it != S->once.end() && it->second != me;
      if (not busy && it == S->once.end())
        S->once[o] = me;
    }
    if (not busy)
      break;
    if (block(ONCE, o, false) == W_DISABLED)
      return real(o, fn);
  }
  int r = real(o, fn); /* runs fn (or returns at once when already done); fn may contain scheduling points */
  Guard g;
  S->once.erase(o);
  for (Th* t : S->live)
    if (t->st == ONCE && t->obj == o)
      wake_thread(t, W_NORMAL);
  return r;
}

/* ---- mutexes ----------------------------------------------------------------------------------------------- */
int pthread_mutex_lock(pthread_mutex_t* m) noexcept
{
  if (not active())
    return REAL(pthread_mutex_lock)(m);
  yield_point(K_LOCK, m);
  return lock_body(m, false);
}

int pthread_mutex_timedlock(pthread_mutex_t* m, const struct timespec* ts) noexcept
{
  if (not active())
    return REAL(pthread_mutex_timedlock)(m, ts);
  yield_point(K_LOCK, m);
  return lock_body(m, true);
}

int pthread_mutex_clocklock(pthread_mutex_t* m, clockid_t clk, const struct timespec* ts) noexcept
{
  if (not active())
    return REAL(pthread_mutex_clocklock)(m, clk, ts);
  yield_point(K_LOCK, m);
  return lock_body(m, true);
}

int pthread_mutex_trylock(pthread_mutex_t* m) noexcept
{
  auto real = REAL(pthread_mutex_trylock);
  if (not active())
    return real(m);
  yield_point(K_TRYLOCK, m);
  Guard g;
  auto it = S->mtx.find(m);
  if (it != S->mtx.end() && it->second.owner != nullptr && it->second.owner != me)
    return EBUSY;
  int r = real(m);
  if (r == 0) {
    if (it != S->mtx.end() && it->second.owner == me)
      it->second.rec++;
    else {
      MInfo& mi = S->mtx[m];
      mi.owner  = me;
      mi.rec    = 0;
    }
  }
  return r;
}

int pthread_mutex_unlock(pthread_mutex_t* m) noexcept
{
  auto real = REAL(pthread_mutex_unlock);
  if (not active())
    return real(m);
  yield_point(K_UNLOCK, m);
  Guard g;
  sim_release(m);
  return real(m);
}

int pthread_mutex_destroy(pthread_mutex_t* m) noexcept
{
  auto real = REAL(pthread_mutex_destroy);
  if (active()) {
    Guard g;
    S->mtx.erase(m);
  }
  return real(m);
}

/* ---- condition variables ----------------------------------------------------------------------------------- */
int pthread_cond_wait(pthread_cond_t* c, pthread_mutex_t* m)
{
  if (not active())
    return REALV(pthread_cond_wait, "GLIBC_2.3.2")(c, m);
  return cond_wait_body(c, m, false);
}

int pthread_cond_timedwait(pthread_cond_t* c, pthread_mutex_t* m, const struct timespec* ts)
{
  if (not active())
    return REALV(pthread_cond_timedwait, "GLIBC_2.3.2")(c, m, ts);
  return cond_wait_body(c, m, true);
}

int pthread_cond_clockwait(pthread_cond_t* c, pthread_mutex_t* m, clockid_t clk, const struct timespec* ts)
{
  if (not active())
    return REAL(pthread_cond_clockwait)(c, m, clk, ts);
  return cond_wait_body(c, m, true);
}

int pthread_cond_signal(pthread_cond_t* c) noexcept
{
  auto real = REALV(pthread_cond_signal, "GLIBC_2.3.2");
  if (not active())
    return real(c);
  yield_point(K_SIGNAL, c);
  Guard g;
  S->cand.clear();
  for (Th* t : S->live)
    if (t->st == COND && t->obj == c)
      S->cand.push_back(t);
  if (not S->cand.empty())
    wake_thread(S->cand[S->cand.size() == 1 ? 0 : S->sched.below(S->cand.size())], W_NORMAL);
  return real(c); /* for unmanaged waiters, if any */
}

int pthread_cond_broadcast(pthread_cond_t* c) noexcept
{
  auto real = REALV(pthread_cond_broadcast, "GLIBC_2.3.2");
  if (not active())
    return real(c);
  yield_point(K_BCAST, c);
  Guard g;
  for (Th* t : S->live)
    if (t->st == COND && t->obj == c)
      wake_thread(t, W_NORMAL);
  return real(c);
}

/* ---- POSIX semaphores (the count lives in the real object) ------------------------------------------------- */
int sem_wait(sem_t* s)
{
  if (not active())
    return REAL(sem_wait)(s);
  return sem_wait_body(s, false);
}

int sem_timedwait(sem_t* s, const struct timespec* ts)
{
  if (not active())
    return REAL(sem_timedwait)(s, ts);
  return sem_wait_body(s, true);
}

int sem_clockwait(sem_t* s, clockid_t clk, const struct timespec* ts)
{
  if (not active())
    return REAL(sem_clockwait)(s, clk, ts);
  return sem_wait_body(s, true);
}

int sem_trywait(sem_t* s) noexcept
{
  auto real = REAL(sem_trywait);
  if (not active())
    return real(s);
  yield_point(K_SEMWAIT, s);
  Guard g;
  return real(s);
}

int sem_post(sem_t* s) noexcept
{
  auto real = REAL(sem_post);
  if (not active())
    return real(s);
  yield_point(K_SEMPOST, s);
  Guard g;
  int r = real(s);
  for (Th* t : S->live)
    if (t->st == SEM && t->obj == s)
      wake_thread(t, W_NORMAL); /* they race for the token count through the scheduler */
  return r;
}

/* ---- syscall(): only SYS_futex WAIT/WAKE are simulated ------------------------------------------------------- */
long syscall(long nr, ...) noexcept
{
  va_list ap;
  va_start(ap, nr);
  long a1 = va_arg(ap, long), a2 = va_arg(ap, long), a3 = va_arg(ap, long), a4 = va_arg(ap, long),
       a5 = va_arg(ap, long), a6 = va_arg(ap, long);
  va_end(ap);
  if (nr != SYS_futex || not active())
    return errno_syscall6(nr, a1, a2, a3, a4, a5, a6);
  auto* addr = (std::atomic<uint32_t>*)a1;
  int op     = (int)a2 & ~(FUTEX_PRIVATE_FLAG | FUTEX_CLOCK_REALTIME);
  if (op == FUTEX_WAIT || op == FUTEX_WAIT_BITSET) {
    yield_point(K_FWAIT, addr);
    /* from here to block(): no scheduling point, i.e. compare-and-enqueue is atomic as in the kernel */
    if (addr->load() != (uint32_t)a3) {
      errno = EAGAIN;
      return -1;
    }
    int early = -1;
    {
      Guard g;
      if (S->p.f_futex > 0 && S->fault.unit() < S->p.f_futex)
        early = (int)S->fault.below(3);
    }
    if (early == 0 || early == 1) {
      S->fired[early == 0 ? DETSCHED_F_FUTEX_EINTR : DETSCHED_F_FUTEX_EAGAIN]++;
      yield_point(K_FEARLY, addr);
      errno = early == 0 ? EINTR : EAGAIN;
      return -1;
    }
    if (early == 2) {
      Guard g;
      me->spur_at   = S->steps + 1 + (long)S->fault.below(30);
      me->spur_kind = DETSCHED_F_FUTEX_SPUR0;
    }
    int w       = block(FUTEX, addr, a4 != 0);
    me->spur_at = -1;
    if (w == W_TIMEOUT) {
      errno = ETIMEDOUT;
      return -1;
    }
    return 0;
  }
  if (op == FUTEX_WAKE || op == FUTEX_WAKE_BITSET) {
    yield_point(K_FWAKE, addr);
    Guard g;
    long want = (long)(int)a3, n = 0;
    S->cand.clear();
    for (Th* t : S->live)
      if (t->st == FUTEX && t->obj == addr)
        S->cand.push_back(t);
    while (n < want && not S->cand.empty()) { /* which waiters: seeded (the kernel promises no order) */
      size_t k = S->cand.size() == 1 ? 0 : S->sched.below(S->cand.size());
      wake_thread(S->cand[k], W_NORMAL);
      S->cand.erase(S->cand.begin() + (long)k);
      n++;
    }
    if (n < want) { /* unmanaged waiters, if any */
      long r = raw_syscall6(nr, a1, a2, want - n, a4, a5, a6);
      if (r > 0)
        n += r;
    }
    return n;
  }
  return errno_syscall6(nr, a1, a2, a3, a4, a5, a6);
}

} // extern "C"
