# engine E: deterministic real-thread scheduler (detsched) + Parmap harness (C49) + S4U smoke (C02 feasibility)
# Other harnesses may link $(OBJ)/detsched.o too: add it to their link line together with -rdynamic.
TARGETS += $(OBJ)/detsched.o $(OUT)/parmapsim $(OUT)/detsched_smoke

# internal headers (EngineImpl.hpp -> mc/api/Aid.hpp) need C++20, like the library itself (gnu++20)
DETSCHED_CXXFLAGS = $(filter-out -std=c++17,$(CXXFLAGS)) -std=gnu++20
# PARMAP_INC lets the sensitivity script put a mutated copy of src/xbt/parmap.hpp in front of /repo:
#   make -C /verif/sim PARMAP_INC=-I/var/tmp/pm-mut PARMAPSIM_SUFFIX=-mutX /verif/build/bin/parmapsim-mutX
PARMAP_INC ?=
PARMAPSIM_SUFFIX ?=

$(OBJ)/parmapsim$(PARMAPSIM_SUFFIX).o: /verif/sim/parmapsim.cpp
	$(CXX) $(PARMAP_INC) $(DETSCHED_CXXFLAGS) -c $< -o $@

$(OBJ)/detsched_smoke.o: /verif/sim/detsched_smoke.cpp
	$(CXX) $(DETSCHED_CXXFLAGS) -c $< -o $@

$(OUT)/parmapsim$(PARMAPSIM_SUFFIX): $(OBJ)/parmapsim$(PARMAPSIM_SUFFIX).o $(OBJ)/detsched.o
	$(CXX) -rdynamic -o $@ $^ $(LDLIBS)

$(OUT)/detsched_smoke: $(OBJ)/detsched_smoke.o $(OBJ)/detsched.o
	$(CXX) -rdynamic -o $@ $^ $(LDLIBS)
