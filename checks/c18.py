"""C18 Concurrency limits are enforced without starvation (engine B)."""
import lmmcommon as L
import refmaxmin as R


class C18(L.LmmCheck):
    pid = 'C18'
    solvers = ['maxmin', 'maxmin', 'fairbottleneck', 'bmf']
    dump_every = True
    limits_bias = 0.95
    my_monitor_prop = 'C18'
    rule = ('seeded histories (as C15) where 95% of the systems use concurrency limits in 1..4 (per constraint, mixed '
            'with unlimited ones), all solvers; the state is dumped after EVERY modification and after every solve: '
            'concurrency counter == number of enabled elements counting towards the limit (weight >= 1, or WIFI) <= '
            'limit; no variable both enabled and staged; every staged variable uses a constraint without free slot; '
            'the penalty last requested is either applied or staged, a suspended variable is neither. Non-trivial: >= 2 '
            'solves on a system where some constraint carries >= 2 enabled variables; distinct: hash of (solver, '
            'selective, op-code sequence, final allocation).')
    assumptions = L.LmmCheck.base_assumptions + [
        'an element counts towards the limit when its weight is >= 1 or its constraint is WIFI (System.hpp doc: "each '
        'variable counts as 1 if its consumption weight is greater than 1")']

    def check_state(self, plan, res, st, req):
        return R.check_concurrency(st) + L.check_requested(st, req)

    def nontrivial(self, plan, res):
        return any(v['staged'] > 0 for st in res['states'] for v in st['vr'].values())


CHECK = C18()
