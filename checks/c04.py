"""C04 Mutex semantics: exclusion, FIFO hand-off, ownership, recursion (engine A native; walk mode in c04 walk part)"""
import gen
from rng import Rng
from s4ucheck import S4UCheck


class C04(S4UCheck):
    pid = 'C04'
    rule = ('seeded plans: 2-5 actors x 1-3 mutexes (recursive or not), critical sections built from lock/try_lock/'
            'unlock with dyadic think times (many equal dates), nested acquisition, H2 sub-round permutation and heap '
            'layout as knobs; context factory raw/boost/thread. Oracle: FIFO reference model replayed over the log. '
            'non-trivial = some lock request found the mutex held or a recursive re-acquisition happened; distinct = '
            'hash of the global sequence of (actor, op, object) call records')
    assumptions = ['the order of call records inside a scheduling sub-round is the order in which the kernel handles the '
                   'requests (sequential context factories; each op is a single simcall in native mode)',
                   'equal-date ties do not arise for mutexes (no timeouts on mutex acquisition)']
    budgets = {'quick': dict(runs=2500, wall=50), 'thorough': dict(runs=60000, wall=800)}

    def gen(self, seed, tier):
        r = Rng(seed, 'c04')
        plan = gen.base_plan(seed, nhosts=r.randint(1, 3), rng=r)
        nmut = r.randint(1, 3)
        muts = [('m%d' % i, 1 if r.chance(0.5) else 0) for i in range(nmut)]
        plan['objects'] = dict(mutex=[list(m) for m in muts])
        nact = r.randint(2, 5)
        for ai in range(nact):
            ops = []
            for _ in range(r.randint(1, 4)):
                if r.chance(0.6):
                    ops.append(['sleep', gen.think(r)])
                chosen = sorted(r.sample(range(nmut), r.randint(1, min(2, nmut))))
                if r.chance(0.1):
                    chosen.reverse()
                taken = []
                for mi in chosen:
                    name, rec = muts[mi]
                    ops.append([r.choice(['lock', 'lock', 'trylock']), name])
                    taken.append(name)
                    if rec and r.chance(0.5):
                        for _ in range(r.randint(1, 2)):
                            ops.append([r.choice(['lock', 'trylock']), name])
                            taken.append(name)
                    elif not rec and r.chance(0.08):
                        ops.append(['trylock', name])  # must fail (held by self, non recursive)
                    if r.chance(0.3):
                        ops.append(['obs_owner', name])
                if r.chance(0.7):
                    ops.append(['sleep', gen.think(r, 0.2)])
                if r.chance(0.2):
                    ops.append(['obs_owner', muts[r.below(nmut)][0]])
                for name in reversed(taken):
                    ops.append(['unlock', name])
                    if r.chance(0.15):
                        ops.append(['obs_owner', name])
            plan['actors'].append(dict(id='a%d' % ai, host='h%d' % r.below(len(plan['hosts'])), ops=ops))
        gen.knobs(plan, r, walk_p=0.35)
        return plan

    def oracle(self, plan, res):
        return self.sync_violations(plan, res, ('mutex', 'trylock'))

    def nontrivial(self, plan, res):
        st = self.model(plan, res).stats
        return st['contended_lock'] > 0 or st['recursive'] > 0

    def stats(self, plan, res):
        st = self.base_stats(plan, res)
        ms = self.model(plan, res).stats
        st['probe_contended_lock'] = ms['contended_lock']
        st['probe_recursive_reacquire'] = ms['recursive']
        st['probe_trylock_failed'] = ms['trylock_fail']
        return st


CHECK = C04()
