"""C17 Selective (lazy) solving equals full recomputation (engine B)."""
import lmmcommon as L
import refmaxmin as R


class C17(L.LmmCheck):
    pid = 'C17'
    solvers = ['maxmin']
    selective = True
    fresh = True
    my_monitor_prop = 'C17'
    rule = ('seeded histories (as C15) on the maxmin solver with selective update; VERIF_LMM_VISITED_START puts the '
            '32-bit wrap of visited_counter_ inside 30% of the runs; after every solve the harness builds a FRESH '
            'non-selective MaxMin system from the current constraints/variables/weights/penalties/bounds, solves it, '
            'and every value must agree (relative 1e-4). Non-trivial: >= 2 solves on a system where some constraint '
            'carries >= 2 enabled variables; distinct: hash of (op-code sequence, final allocation).')
    assumptions = L.LmmCheck.base_assumptions + [
        'the fresh system is built through the public API with unlimited concurrency and the *current* penalties '
        '(staged variables are disabled in both), one expand per live element']

    def check_state(self, plan, res, st, req):
        if st['kind'] != 'solve':
            return []
        out = []
        if st.get('freshfail'):
            return [('fresh-fail', 'could not rebuild a fresh system')]
        tol = R.REF_F * R.PREC
        for vid in sorted(st['vr']):
            a = st['vr'][vid]['value']
            if vid not in st['fresh']:
                out.append(('fresh-missing', 'variable %d absent from the fresh system' % vid))
                continue
            b = st['fresh'][vid]
            if not abs(a - b) <= tol * max(abs(a), abs(b)):
                out.append(('sel-differs', 'variable %d: selective update gives %.17g, a fresh system gives %.17g' %
                            (vid, a, b)))
                break
        return out


CHECK = C17()
