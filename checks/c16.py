"""C16 Max-min and BMF allocations are fair (engine B)."""
import lmmcommon as L
import refmaxmin as R


class C16(L.LmmCheck):
    pid = 'C16'
    solvers = ['maxmin', 'maxmin', 'bmf']
    my_monitor_prop = 'C16'
    rule = ('same seeded histories as C15 on the maxmin (2/3) and bmf (1/3) solvers, with and without selective '
            'update; after every solve: maxmin - every enabled consuming variable below its bound uses a saturated '
            'constraint on which value*penalty is the largest, and on systems whose used constraints are all SHARED '
            'the values equal the exact-rational weighted progressive-filling reference (lib/refmaxmin.py); bmf - '
            'every consuming variable below its bound has the largest weight*value*penalty on a saturated constraint, '
            'or the solver gave up explicitly. Non-trivial: >= 2 solves on a system where some constraint carries >= 2 '
            'enabled variables; distinct: hash of (solver, selective, op-code sequence, final allocation).')
    assumptions = L.LmmCheck.base_assumptions + [
        'bmf: "penalty-weighted share" of a variable on a resource is weight*value*penalty (its share of the resource, '
        'scaled by its penalty), as in the BMF definition; for maxmin it is value*penalty',
        'a FATPIPE resource is saturated when the largest weight*value on it reaches its capacity']

    def check_state(self, plan, res, st, req):
        if st['kind'] != 'solve':
            return []
        if plan['solver'] == 'maxmin':
            out = R.check_maxmin_fair(st)
            if R.shared_only(st):
                out += R.check_against_reference(st)
            return out
        if plan['solver'] == 'bmf':
            return R.check_bmf_fair(st)
        return []

    def stats(self, plan, res):
        d = super().stats(plan, res)
        d['probe_reference_compared'] = sum(1 for st in res['states'] if st['kind'] == 'solve' and
                                            plan['solver'] == 'maxmin' and R.shared_only(st) and
                                            any(R.consuming(v) for v in st['vr'].values()))
        return d


CHECK = C16()
