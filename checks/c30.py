"""C30 derived datatypes: layout and exact transfer (engine C)."""
import mpicommon as M


class C30(M.MpiCheck):
    pid = 'C30'
    rule = ('seeded type trees (contiguous, vector, hvector, indexed, hindexed, indexed_block, struct, resized, subarray; '
            'depth 1..3; non-negative displacements; no alignment-dependent extents) checked node by node against the '
            'MPI typemap rules (size, lb, ub, extent), then used with counts 0..5 on the send side, the receive side or both '
            'in messages of every protocol mode (eager / detached / rendez-vous by seeded thresholds), Sendrecv and '
            'Pack/Unpack; send buffers are overwritten as soon as the send call (or its wait) returns. Non-trivial: at least '
            'one derived type was checked and one message or pack round trip used one. Distinct: event-order hash.')
    prof = dict(name='C30', np=(2, 4), nmsg=dict(quick=(4, 14), thorough=(4, 20)), ncomm=(0, 0), wild=0, probes=0.3,
                types='derived', pack=1, cap=6000)
    own = ('layout-', 'xfer', 'pack', 'unpack', 'packsize')
    max_reported = 5
    budgets = {'quick': dict(runs=1500, wall=22), 'thorough': dict(runs=24000, wall=780)}

    def nontrivial(self, plan, res):
        return res['stats'].get('types_checked', 0) >= 1 and res['stats'].get('recvs_checked', 0) >= 1


CHECK = C30()
