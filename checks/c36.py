"""C36 each rank has its own copy of global variables (engine C)."""
import mpicommon as M


class C36(M.MpiCheck):
    pid = 'C36'
    rule = ('2..8 ranks under smpi/privatization mmap and dlopen; the interpreter owns global, static, function-static, '
            '.data and .bss variables: every rank writes rank-and-step specific values before each communication call '
            '(sends, receives, waits, probes, barriers, Comm_split/Comm_dup in the middle of traffic, sleeps and computations) '
            'and re-reads all of them after the call returns; message buffers themselves live in global/static arrays in '
            'half of the messages. Oracle: a rank only ever reads what it wrote (initial values before its first write). '
            'Non-trivial: at least 2*np read-backs happened. Distinct: event-order hash.')
    prof = dict(name='C36', np=(2, 8), nmsg=dict(quick=(4, 20), thorough=(4, 26)), ncomm=(0, 2), wild=0.5, probes=0.5,
                midcoll=4, types='basic', gvars=True, priv=['mmap', 'dlopen'], cap=12000)
    own = ('global-leak',)
    budgets = {'quick': dict(runs=1200, wall=22), 'thorough': dict(runs=20000, wall=780)}

    def nontrivial(self, plan, res):
        return res['stats'].get('gchk_checked', 0) >= 2 * plan['np']

    def oracle(self, plan, res):
        out = super().oracle(plan, res)
        # with global buffers, corrupted message bytes are privatization failures too
        if not out:
            for c, m in res['viol']:
                if c in ('bytes', 'canary', 'late-copy'):
                    return [('global-buffer', m)]
        return out


CHECK = C36()
