"""C37 - replaying the time-independent trace of an MPI run reproduces the online simulated time.

One run = a generated program over the calls smpi_replay.cpp supports (projection of a global, deadlock-free event
order on 2-8 ranks) executed twice: online with TI tracing (sim/mpicoll.c, replay mode, every rank prints MPI_Wtime()
right before MPI_Finalize), then `smpireplaymain` on the produced trace with the same platform, hostfile, selector and
thresholds.  Oracle: every rank's finish date and the final clock are equal within the tolerance."""
import os
import re
import sys

sys.path.insert(0, '/verif/lib')
import dst
from rng import Rng
import mpicollcommon as mc

# absolute tolerance on dates: the configured timing precision; relative: double rounding of a few additions
TOL_ABS = 2e-9
TOL_REL = 1e-12

COLLS = ['barrier', 'bcast', 'reduce', 'allreduce', 'alltoall', 'allgather', 'gather', 'scatter', 'scan', 'exscan',
         'allgatherv', 'gatherv', 'scatterv', 'reducescatter', 'alltoallv']
SAFE_ALGOS = {     # algorithm overrides used here: only ones C29 found dependable on the unchanged tree
    'bcast': ['binomial_tree', 'flattree', 'scatter_LR_allgather', 'scatter_rdb_allgather'],
    'allreduce': ['rdb', 'lr', 'redbcast'],
    'reduce': ['binomial', 'flat_tree', 'mvapich2_knomial'],
    'alltoall': ['basic_linear', 'ring', 'bruck', 'rdb', 'mvapich2_scatter_dest'],
    'allgather': ['ring', 'bruck', 'GB', 'rdb', 'NTSLR'],
    'gather': ['ompi_binomial', 'ompi_basic_linear', 'ompi_linear_sync'],
    'scatter': ['ompi_binomial', 'ompi_basic_linear'],
    'barrier': ['ompi_bruck', 'ompi_tree', 'ompi_recursivedoubling', 'ompi_doublering', 'mvapich2_pair'],
}


def _size(r):
    """element counts across the eager / detached / rendez-vous thresholds (4 or 8 byte elements)"""
    return r.wchoice([(0, 0.5), (1, 2), (r.randint(2, 200), 3), (r.randint(200, 5000), 2), (r.choice([16383, 16384, 16385]), 1),
                      (r.randint(8000, 40000), 2), (r.randint(40000, 90000), 1)])


def _amount(r):
    """flops representable with the 6 significant digits the TI writer prints"""
    return r.randint(1, 9999) * 10 ** r.randint(1, 4)


class C37(dst.Check):
    pid = 'C37'
    level = 'exploration'
    rule = ('case = seeded program (np 2-8; 5-40 global events: blocking / non-blocking point-to-point of 0-90000 '
            'elements, wait/waitall/test, sendrecv, 15 collective kinds, compute and sleep skews) + platform, rank mapping, '
            'collective selector/algorithm, protocol thresholds; executed online with TI tracing then replayed; '
            'non-trivial = the trace contains at least one communication action per rank and the online run ends after '
            't=0; distinct = hash of the per-rank action lists of the trace')
    assumptions = [
        'Tolerance: |t_replay - t_online| <= 2e-9 + 1e-12*t (precision/timing is 1e-9 in both runs); calibrated on the '
        'unchanged tree, where supported programs replay bit-exactly; a mutant shifting dates by less is invisible.',
        'Online: smpi/simulate-computation:no (no wall-clock leaks into the simulation) with explicit '
        'smpi_execute_flops()/smpi_usleep() skews, which the tracer records as compute/sleep actions; replay: '
        'smpi/simulate-computation:yes so that these compute actions are executed (the replayer itself performs no '
        'benchmarked computation).',
        'compute and sleep amounts have at most 6 significant digits: the TI writer prints them with the default '
        'ostream precision, anything finer is lost by the format itself.',
        'Per-rank finish date in the replay = simulated date of the rank\'s last replayed action (smpi_replay verbose '
        'log with a %.17r layout); online = MPI_Wtime() right before MPI_Finalize.',
        'One datatype per program (MPI_INT or MPI_DOUBLE), MPI_COMM_WORLD only, MPI_SUM.',
    ]
    real_vs_stub = {'SMPI online run + TI tracer (instr_paje_*, instr_smpi)': 'real', 'smpireplaymain / smpi_replay.cpp': 'real',
                    'MPI application': 'real (generated plan interpreter sim/mpicoll.c, replay mode)'}
    budgets = {'quick': dict(runs=1500, wall=40), 'thorough': dict(runs=30000, wall=800)}
    max_reported = 12
    shrink_budget = 120

    def gen(self, seed, tier):
        r = Rng(seed, 'c37')
        np = r.randint(2, 8)
        plat, hosts = mc.gen_platform(Rng(seed, 'platform'), np)
        cfg = {'smpi/coll-selector': 'default'}
        r.wchoice([('default', 3), ('ompi', 2), ('mpich', 2), ('mvapich2', 1)])
        if r.chance(0.5):
            coll = r.choice(sorted(SAFE_ALGOS))
            cfg['smpi/' + coll] = r.choice(SAFE_ALGOS[coll])
        kn = Rng(seed, 'knobs')
        if kn.chance(0.6):      # async-small-thresh stays 0: see checks/c29.py (point-to-point ordering defect, C28)
            cfg['smpi/send-is-detached-thresh'] = kn.choice([0, 16, 1024, 65536, 1000000])
        nev = r.randint(5, 40 if tier == 'thorough' else 25)
        events = []
        for _ in range(nev):
            t = r.wchoice([('p2p', 5), ('coll', 4), ('compute', 2), ('sleep', 1.5), ('waitall', 1.5), ('sendrecv', 0.7),
                           ('test', 0.4), ('wait', 0.6), ('pairtag', 0.7)])
            if t == 'pairtag':
                # two sends pending at once between the same ranks with the SAME tag, waited one by one in posting order
                # with another message in between: the replay must pick the oldest request of the (src, dst, tag) key
                a = r.below(np)
                b = (a + 1 + r.below(np - 1)) % np
                c = r.choice([x for x in range(np) if x != a])
                big, small = r.choice([200000, 1000000, 4000000]), r.choice([8, 100, 1000])
                n1, n2 = (big, small) if r.chance(0.7) else (small, big)
                events.append(dict(t='pairtag', a=a, b=b, c=c, n1=n1, n2=n2, tag=100 + len(events)))
            elif t == 'p2p':
                a = r.below(np)
                b = (a + 1 + r.below(np - 1)) % np
                events.append(dict(t='p2p', a=a, b=b, n=_size(r), tag=r.below(4), s=r.choice(['send', 'send', 'isend']),
                                   r=r.choice(['recv', 'recv', 'irecv'])))
            elif t == 'sendrecv':
                a = r.below(np)
                b = (a + 1 + r.below(np - 1)) % np
                events.append(dict(t='sendrecv', a=a, b=b, n=_size(r), m=_size(r)))
            elif t == 'coll':
                k = r.choice(COLLS)
                n = _size(r)
                if n == 0 and not r.chance(0.06):
                    n = 1
                if k in ('alltoall', 'allgather', 'gather', 'scatter', 'allgatherv', 'gatherv', 'scatterv', 'reducescatter',
                         'alltoallv'):
                    n = min(n, 90000 // np)
                ev = dict(t='coll', k=k, n=n, root=r.below(np))
                if k in ('allgatherv', 'gatherv', 'scatterv', 'reducescatter'):
                    ev['counts'] = [max(0, n + r.randint(-2, 2)) if r.chance(0.8) else 0 for _ in range(np)]
                if k == 'alltoallv':
                    ev['matrix'] = [[max(0, n + r.randint(-2, 2)) if r.chance(0.8) else 0 for _ in range(np)] for _ in range(np)]
                events.append(ev)
            elif t == 'compute':
                events.append(dict(t='compute', a=r.below(np), f=_amount(r)))
            elif t == 'sleep':
                events.append(dict(t='sleep', a=r.below(np), us=r.randint(1, 9999)))
            else:
                events.append(dict(t=t, a=r.below(np)))
        return dict(np=np, plat=plat, hosts=hosts, cfg=cfg, dt=r.choice(['i', 'd']), events=events)

    def _program(self, plan):
        """project the global event order on the ranks -> plan text"""
        np = plan['np']
        ops = [[] for _ in range(np)]
        nreq = [0] * np         # requests created since the last waitall
        live = [[] for _ in range(np)]   # slots not yet completed individually
        tags = [dict() for _ in range(np)]     # rank -> {slot: (peer, direction, tag)} of its pending requests
        maxbuf = 8
        for ev in plan['events']:
            t = ev['t']
            if t == 'p2p':
                a, b, n = ev['a'], ev['b'], ev['n']
                maxbuf = max(maxbuf, n)
                # the receive is posted first when it is non-blocking, so a blocking rendez-vous send always completes
                # the TI format names a request by (source, destination, tag): requests pending at the same time between
                # the same two ranks get distinct tags, otherwise wait/test actions are ambiguous by construction
                tag = ev['tag']
                used = set(v[2] for v in tags[a].values() if v[:2] == (b, 's')) | \
                    set(v[2] for v in tags[b].values() if v[:2] == (a, 'r'))
                while tag in used:
                    tag += 4
                for who, mode in ((b, ev['r']), (a, ev['s'])) if ev['r'] == 'irecv' else ((a, ev['s']), (b, ev['r'])):
                    peer = a if who == b else b
                    if nreq[who] >= 60 and mode in ('isend', 'irecv'):
                        mode = mode[1:]
                    ops[who].append('%s %d %d %d' % (mode, peer, tag, n))
                    if mode in ('isend', 'irecv'):
                        live[who].append(nreq[who])
                        tags[who][nreq[who]] = (peer, 's' if who == a else 'r', tag)
                        nreq[who] += 1
            elif t == 'pairtag':
                a, b, c = ev['a'], ev['b'], ev['c']
                maxbuf = max(maxbuf, ev['n1'], ev['n2'])
                if nreq[a] >= 58:
                    continue
                s1, s2 = nreq[a], nreq[a] + 1
                nreq[a] += 2
                ops[a] += ['isend %d %d %d' % (b, ev['tag'], ev['n1']), 'isend %d %d %d' % (b, ev['tag'], ev['n2']),
                           'wait %d' % s1, 'send %d %d %d' % (c, ev['tag'] + 1, 8), 'wait %d' % s2]
                ops[b] += ['recv %d %d %d' % (a, ev['tag'], ev['n1']), 'recv %d %d %d' % (a, ev['tag'], ev['n2'])]
                ops[c].append('recv %d %d %d' % (a, ev['tag'] + 1, 8))
            elif t == 'sendrecv':
                a, b = ev['a'], ev['b']
                maxbuf = max(maxbuf, ev['n'], ev['m'])
                ops[a].append('sendrecv %d %d %d %d' % (b, ev['n'], b, ev['m']))
                ops[b].append('sendrecv %d %d %d %d' % (a, ev['m'], a, ev['n']))
            elif t == 'coll':
                k, n, root = ev['k'], ev['n'], ev['root']
                for rk in range(np):
                    if k == 'barrier':
                        ops[rk].append('barrier')
                    elif k in ('bcast', 'reduce', 'gather', 'scatter'):
                        ops[rk].append('%s %d %d' % (k, n, root))
                    elif k in ('allreduce', 'alltoall', 'allgather', 'scan', 'exscan'):
                        ops[rk].append('%s %d' % (k, n))
                    elif k in ('allgatherv', 'reducescatter'):
                        ops[rk].append('%s %s' % (k, ' '.join(str(x) for x in ev['counts'])))
                    elif k in ('gatherv', 'scatterv'):
                        ops[rk].append('%s %d %s' % (k, root, ' '.join(str(x) for x in ev['counts'])))
                    elif k == 'alltoallv':
                        m = ev['matrix']
                        ops[rk].append('alltoallv %s %s' % (' '.join(str(m[rk][j]) for j in range(np)),
                                                           ' '.join(str(m[j][rk]) for j in range(np))))
                tot = n * np if k in ('alltoall', 'allgather', 'gather', 'scatter') else n
                if 'counts' in ev:
                    tot = sum(ev['counts'])
                if 'matrix' in ev:
                    tot = max(max(sum(row) for row in ev['matrix']), max(sum(ev['matrix'][j][i] for j in range(np)) for i in range(np)))
                maxbuf = max(maxbuf, tot)
            elif t == 'compute':
                ops[ev['a']].append('compute %d' % ev['f'])
            elif t == 'sleep':
                ops[ev['a']].append('sleep %d' % ev['us'])
            elif t == 'waitall':
                a = ev['a']
                if nreq[a]:
                    ops[a].append('waitall')
                    nreq[a] = 0
                    live[a] = []
                    tags[a] = {}
            elif t in ('wait', 'test'):
                a = ev['a']
                if live[a]:
                    slot = live[a].pop() if t == 'wait' else live[a][-1]
                    if t == 'wait':
                        tags[a].pop(slot, None)
                    ops[a].append('%s %d' % (t, slot))
        for rk in range(np):
            if nreq[rk]:
                ops[rk].append('waitall')
        out = ['mode replay', 'np %d' % np, 'dt %s' % plan['dt'], 'maxbuf %d' % (maxbuf + 8)]
        for rk in range(np):
            out.append('nops %d %d' % (rk, len(ops[rk])))
            out += ops[rk]
        return '\n'.join(out) + '\n', ops

    def run(self, plan, scratch):
        sd = '%s/c37' % scratch
        np = plan['np']
        text, ops = self._program(plan)
        trace_cfg = ['--cfg=smpi/wtime:0', '--cfg=tracing:yes', '--cfg=tracing/filename:trace.txt', '--cfg=tracing/smpi:yes',
                     '--cfg=tracing/smpi/format:TI', '--cfg=tracing/smpi/computing:yes', '--cfg=tracing/smpi/sleeping:yes']
        try:
            rc, out, err, to = mc.run_smpi(sd, np, plan['plat'], plan['hosts'], plan['cfg'], text, timeout=30,
                                           extra_cfg=trace_cfg)
            online = {}
            odates = [[] for _ in range(np)]
            for line in out.split('\n'):
                p = line.split()
                try:
                    if len(p) == 3 and p[0] == 'F':
                        online[int(p[1])] = float.fromhex(p[2])
                    elif len(p) == 4 and p[0] == 'A':
                        odates[int(p[1])].append(float.fromhex(p[3]))
                except (ValueError, IndexError):
                    pass
            res = dict(online_rc=rc, online_to=to, online=[online.get(i) for i in range(np)], odates=odates,
                       online_err='\n'.join(l for l in err.splitlines() if l.strip())[:2000])
            trace = {}
            if rc == 0 and not to and os.path.exists(sd + '/trace.txt'):
                for fn in open(sd + '/trace.txt').read().split():
                    m = re.search(r'rank-(\d+)\.txt$', fn)
                    if m and os.path.exists(sd + '/' + fn):
                        trace[int(m.group(1)) - 1] = [l.strip() for l in open(sd + '/' + fn) if l.strip()]
            res['trace'] = [trace.get(i) for i in range(np)]
            if rc != 0 or to or len(trace) != np:
                res.update(replay_rc=None, replay=None, replay_final=None, replay_err='')
            else:
                # replay: same platform / hostfile / selector / thresholds; compute actions are executed
                cmd_cfg = ['--cfg=smpi/replay:trace.txt', '--cfg=smpi/simulate-computation:yes',
                           '--log=smpi_replay.thres:verbose', '--log=smpi_replay.fmt:%i%e%.17r%e%m%n']
                rc2, out2, err2, to2 = mc.run_smpi(sd, np, plan['plat'], plan['hosts'], plan['cfg'], text, timeout=30,
                                                   exe=mc.smpireplaymain(), prog_args=[], extra_cfg=cmd_cfg)
                last = {}
                final = None
                rdates = [[] for _ in range(np)]
                for line in (out2 + '\n' + err2).split('\n'):
                    m = re.match(r'^(\d+) ([0-9.eE+-]+) (.*)$', line)
                    if not m:
                        continue
                    if m.group(3).startswith('Simulation time'):
                        final = float(m.group(2))
                    else:
                        rk = int(m.group(1)) - 1
                        last[rk] = float(m.group(2))
                        if 0 <= rk < np:
                            rdates[rk].append((m.group(3).split()[1] if len(m.group(3).split()) > 1 else '?', float(m.group(2))))
                res['rdates'] = rdates
                res.update(replay_rc=rc2, replay_to=to2, replay=[last.get(i, 0.0) for i in range(np)], replay_final=final,
                           replay_err='\n'.join(l for l in err2.splitlines() if 'CRITICAL' in l or 'rror' in l or
                                                'xception' in l or 'ssertion' in l)[:2000])
        finally:
            mc.cleanup(sd)
        res['hash'] = dst.sha(res['online_rc'], res['online_to'], res['online'], res['trace'], res.get('replay_rc'),
                              res.get('replay'), res.get('replay_final'))
        return res

    def oracle(self, plan, res):
        np = plan['np']
        if res['online_rc'] != 0 or res['online_to'] or any(x is None for x in res['online']) or \
                any(t is None for t in res['trace']):
            kind, msg = mc.classify_abort(res['online_rc'], res['online_err'], res['online_to'])
            # the online run is not what this property is about: a failing online run cannot be judged here
            raise dst.Infra('online run failed (%s): %s' % (kind, msg))
        if res['replay_rc'] is None:
            raise dst.Infra('no trace produced')
        if res.get('replay_to') or 'Deadlock detected' in res['replay_err'] or 'deadlock' in res['replay_err'].lower():
            return [('hang', 'replay of the trace does not terminate: ' + res['replay_err'][:300])]
        if res['replay_rc'] != 0:
            return [('replay_crash', 'rc=%s %s' % (res['replay_rc'], res['replay_err'][:400]))]
        viol = []
        worst = None
        for rk in range(np):
            a, b = res['online'][rk], res['replay'][rk]
            # a rank whose trace holds no action besides init/finalize finishes at 0 in both
            if abs(a - b) > TOL_ABS + TOL_REL * abs(a):
                if worst is None or abs(a - b) > abs(worst[1] - worst[2]):
                    worst = (rk, a, b)
        if worst:
            rk, a, b = worst
            # locate the earliest (in replay time) action whose completion date differs from the online one
            first = None
            for q in range(np):
                od, rd = res.get('odates', [[]] * np)[q], res.get('rdates', [[]] * np)[q]
                if len(od) != len(rd):
                    continue
                for j in range(len(od)):
                    if abs(od[j] - rd[j][1]) > TOL_ABS + TOL_REL * abs(od[j]):
                        if first is None or min(od[j], rd[j][1]) < first[0]:
                            first = (min(od[j], rd[j][1]), rd[j][0], q, j, od[j], rd[j][1])
                        break
            what = first[1] if first else 'unaligned'
            if any(e['t'] == 'coll' and e['k'] not in ('barrier', 'allgatherv', 'gatherv', 'scatterv', 'reducescatter', 'alltoallv')
                   and e['n'] == 0 for e in plan['events']):
                what = 'zero_count'
            viol.append(('time_mismatch:' + what, 'rank %d finishes at %.12g online and %.12g in the replay (diff %.3g); first '
                         'diverging action: %s' % (rk, a, b, b - a, 'rank %d action #%d %s completes at %.12g online, %.12g in '
                                                   'the replay' % (first[2], first[3], first[1], first[4], first[5])
                                                   if first else 'not located (action counts differ)')))
        fo = max(res['online'])
        if res['replay_final'] is not None and abs(res['replay_final'] - fo) > TOL_ABS + 1e-6 and not viol:
            viol.append(('time_mismatch:final', 'final clock: online %.9g, replay reports %.9g' % (fo, res['replay_final'])))
        return viol

    def nontrivial(self, plan, res):
        if not res.get('trace') or any(t is None for t in res['trace']):
            return False
        comm = lambda l: len(l.split()) > 1 and l.split()[1] not in ('init', 'finalize', 'compute', 'sleep')
        return all(any(comm(l) for l in t) for t in res['trace']) and max(x or 0 for x in res['online']) > 0

    def signature(self, plan, res):
        return dst.sha(res.get('trace'))

    def stats(self, plan, res):
        s = {'sim_seconds': max([x or 0 for x in res.get('online') or [0]]), 'probe_large_message': 0, 'probe_small_message': 0,
             'probe_zero_size': 0, 'probe_nonblocking': 0, 'probe_test': 0, 'probe_vcollective': 0, 'probe_compute': 0,
             'probe_sleep': 0}
        for t in res.get('trace') or []:
            for l in t or []:
                p = l.split()
                if len(p) < 2:
                    continue
                s['act_' + p[1]] = s.get('act_' + p[1], 0) + 1
                if p[1] in ('send', 'isend'):
                    n = int(p[4]) * (8 if plan['dt'] == 'd' else 4)
                    s['probe_large_message'] += n >= 65536
                    s['probe_small_message'] += 0 < n < 65536
                    s['probe_zero_size'] += n == 0
                s['probe_nonblocking'] += p[1] in ('isend', 'irecv')
                s['probe_test'] += p[1] == 'test'
                s['probe_vcollective'] += p[1] in ('allgatherv', 'gatherv', 'scatterv', 'reducescatter', 'alltoallv')
                s['probe_compute'] += p[1] == 'compute'
                s['probe_sleep'] += p[1] == 'sleep'
        return s

    def describe(self, plan, res):
        return dict(np=plan['np'], cfg=plan['cfg'], dt=plan['dt'], events=plan['events'][:10],
                    trace_rank0=(res.get('trace') or [None])[0], online=res.get('online'), replay=res.get('replay'),
                    signature=self.signature(plan, res))

    def shrink(self, plan):
        ev = plan['events']

        def w(events, **kw):
            p = dict(plan)
            p['events'] = events
            p.update(kw)
            return p
        n = len(ev)
        if n > 1:
            yield w(ev[:n // 2])
            yield w(ev[n // 2:])
            for i in range(n):
                yield w(ev[:i] + ev[i + 1:])
        for k in sorted(plan['cfg']):
            cfg = dict(plan['cfg'])
            del cfg[k]
            yield w(ev, cfg=cfg)
        np = plan['np']
        if plan['hosts'] != list(range(np)) or plan['plat']['kind'] != 'cluster':
            yield w(ev, hosts=list(range(np)), plat=dict(kind='cluster', nhosts=max(np, 2), lat_us=10, bw_MBps=125, loop_lat_us=0))
        for i, e in enumerate(ev):
            if e.get('n', 0) > 1:
                yield w(ev[:i] + [dict(e, n=1)] + ev[i + 1:])
            if e['t'] == 'p2p' and (e['s'] != 'send' or e['r'] != 'recv'):
                yield w(ev[:i] + [dict(e, s='send', r='recv')] + ev[i + 1:])
            if 'counts' in e and len(set(e['counts'])) > 1:
                yield w(ev[:i] + [dict(e, counts=[e['n']] * np)] + ev[i + 1:])

    def known_matchers(self):
        def coll(kind):
            return lambda plan, cls, msg: any(e['t'] == 'coll' and e['k'] == kind for e in plan['events'])

        def zero_count_collective(plan, cls, msg):
            return any(e['t'] == 'coll' and e['k'] in ('gather', 'scatter', 'allgather', 'alltoall', 'bcast', 'reduce', 'allreduce',
                                                      'scan', 'exscan') and e['n'] == 0 for e in plan['events'])
        def alltoall_bruck_replay(plan, cls, msg):
            return cls == 'replay_crash' and plan['cfg'].get('smpi/alltoall') == 'bruck' and \
                any(e['t'] == 'coll' and e['k'] == 'alltoall' for e in plan['events'])
        return dict(zero_count_collective=zero_count_collective, scan=coll('scan'), exscan=coll('exscan'),
                    alltoall_bruck_replay=alltoall_bruck_replay)


CHECK = C37()
mc.install_proposed_findings()
