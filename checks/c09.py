"""C09 Message queues are exactly-once and FIFO (engine A native)"""
import gen
from rng import Rng
from s4ucheck import S4UCheck
from c08 import COMM_CLASSES


class C09(S4UCheck):
    pid = 'C09'
    rule = ('seeded plans: 2-6 actors, 1-3 message queues, unique payload per put; ops: put / put(timeout) / put_async+'
            'wait|wait_for|test, get / get(timeout) / get_async+wait|wait_for|test, dyadic think times so that gets are '
            'pending before puts and vice versa, timeouts racing matches. Oracle: FIFO pairing reference model: every '
            'get returns the payload of the oldest unmatched put, at most once; a put that reported a timeout is never '
            'delivered; a blocking put/get returns normally only if matched; plus the C03 cross-check that no later '
            'blocking call of an actor returns early after a timed-out mess operation. non-trivial = at least 2 payloads '
            'delivered with both get-first and put-first matches; distinct = call sequence hash')
    assumptions = ['order of call records inside a sub-round = kernel handling order (sequential factories)',
                   'a request timing out at the very date a counterpart is posted: either outcome accepted']
    budgets = {'quick': dict(runs=2500, wall=55), 'thorough': dict(runs=60000, wall=800)}

    def gen(self, seed, tier):
        r = Rng(seed, 'c09')
        plan = gen.base_plan(seed, nhosts=r.randint(1, 3), rng=r)
        nq = r.randint(1, 3)
        qs = ['q%d' % i for i in range(nq)]
        plan['objects'] = dict(mq=qs)
        nact = r.randint(2, 6)
        slot_n = [0]
        timeouts = r.chance(0.6)

        def slot():
            slot_n[0] += 1
            return 'x%d' % slot_n[0]
        for ai in range(nact):
            ops = []
            sender = r.chance(0.5)
            for _ in range(r.randint(2, 7)):
                q = r.choice(qs)
                if r.chance(0.5):
                    ops.append(['sleep', gen.think(r, 0.2)])
                send = sender if r.chance(0.8) else not sender
                c = r.below(10)
                pre = 'mput' if send else 'mget'
                if c < 4 or (c < 6 and not timeouts):
                    ops.append([pre, q])
                elif c < 6:
                    ops.append([pre, q, 'timeout=%r' % (r.randint(1, 8) * 0.25 + 0.0625)])
                else:
                    s = slot()
                    ops.append([pre + '_async', s, q])
                    if r.chance(0.4):
                        ops.append(['sleep', gen.think(r, 0.2)])
                    w = r.below(5)
                    if w < 3 or not timeouts:
                        ops.append(['wait', s])
                    elif w == 3:
                        ops.append(['wait_for', s, r.randint(1, 8) * 0.25])
                        ops.append(['wait', s])
                    else:
                        ops.append(['test', s])
                        ops.append(['wait', s])
            ops.append(['sleep', 0.5])
            plan['actors'].append(dict(id='a%d' % ai, host='h%d' % r.below(len(plan['hosts'])), ops=ops))
        gen.knobs(plan, r)
        return plan

    def oracle(self, plan, res):
        v = self.sync_violations(plan, res, COMM_CLASSES)
        v += self.sleep_violations(plan, res)
        return v

    def final_state_violations(self, plan, res, prefix='final'):
        return []

    def nontrivial(self, plan, res):
        m = self.model(plan, res)
        return len(m.delivered) >= 2 and m.stats['mbox_recv_first'] > 0 and m.stats['mbox_send_first'] > 0

    def stats(self, plan, res):
        st = self.base_stats(plan, res)
        m = self.model(plan, res)
        st['payloads_delivered'] = len(m.delivered)
        st['probe_get_posted_first'] = m.stats['mbox_recv_first']
        st['probe_put_posted_first'] = m.stats['mbox_send_first']
        st['probe_tie_timeout_vs_post'] = m.stats['tie']
        st['fault_timeouts'] = sum(1 for r in self.recs(res) if r.t == 'R' and r.kv.get('exc') == 'Timeout')
        return st


CHECK = C09()
