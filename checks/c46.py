"""C46 File system accounting is consistent (engine A native; concurrent actors on shared disks)"""
import gen
from rng import Rng
from s4ucheck import S4UCheck


class C46(S4UCheck):
    pid = 'C46'
    rule = ('seeded plans: 1-3 hosts each with a disk (mount point, size, initial content file), 1-4 actors performing '
            'open / read / write (appending at the end, overwriting in the middle, write_inside) / seek (set, cur, end, '
            'beyond the end) / tell / move / unlink / close on 1-4 paths, I/Os take simulated time so operations of '
            'different actors on one disk interleave; dyadic think times. Invariants after every operation that ends '
            'while no other file operation is in flight on that disk: used size of the disk == sum of the sizes of the '
            'files stored on it; size reported by the handle == size recorded for its path; read returns <= size - '
            'position; unlink gives back exactly the file size; no size ever exceeds the disk capacity (unsigned wrap). '
            'non-trivial = at least one overwrite in the middle or unlink, and two actors used the same disk; distinct = '
            'call sequence hash')
    assumptions = ['used size may transiently differ from the sum while a write is in progress (checked at quiescent points only)']
    budgets = {'quick': dict(runs=2000, wall=50), 'thorough': dict(runs=50000, wall=800)}

    def gen(self, seed, tier):
        r = Rng(seed, 'c46')
        nh = r.randint(1, 3)
        plan = gen.base_plan(seed, nhosts=nh, rng=r)
        plan['opts']['plugin'] = 'file_system'
        plan['contentfiles'] = {}
        paths = {}
        for i, h in enumerate(plan['hosts']):
            dn = 'disk%d' % i
            init = [('/f%d' % k, r.choice([0, 100, 1000, 4096])) for k in range(r.randint(0, 3))]
            plan['contentfiles']['content%d' % i] = ''.join('%s %d\n' % (p, s) for p, s in init)
            props = dict(mount='/m%d' % i, size='%dB' % r.choice([10000, 100000, 10 ** 9]))
            if init:
                props['content'] = '@content%d@' % i
            h['disks'] = [dict(name=dn, rbw=r.choice([1e3, 1e4, 1e6]), wbw=r.choice([1e3, 1e4, 1e6]), props=props)]
            paths[i] = ['/m%d/f%d' % (i, k) for k in range(8)]
        nact = r.randint(1, 4)
        for ai in range(nact):
            hi = r.below(nh)
            disk = 'disk%d' % hi
            ops = []
            fn = 0
            for _ in range(r.randint(1, 3)):
                fn += 1
                F = 'a%d_%d' % (ai, fn)
                # each path is used by one actor at a time only (two handles open on one file keep separate sizes:
                # listed finding C46/two-handles); actors still share the disk
                mine = [p for k, p in enumerate(paths[hi]) if k % nact == ai]
                ops.append(['fopen', F, r.choice(mine or [paths[hi][ai % 4]]), disk])
                for _ in range(r.randint(1, 7)):
                    c = r.below(12)
                    if c < 4:
                        w = ['fwrite', F, r.choice([1, 10, 100, 500, 1000, 3000]), disk]
                        if r.chance(0.3):
                            w.append('inside')
                        ops.append(w)
                    elif c < 6:
                        ops.append(['fread', F, r.choice([1, 50, 100, 1000, 5000]), disk])
                    elif c < 9:
                        ops.append(['fseek', F, r.choice([0, 10, 40, 100, 500, 2000, -10, -100]), r.choice(['set', 'set', 'cur', 'end']), disk])
                    elif c < 10:
                        ops.append(['ftell', F])
                    elif c < 11:
                        # (a handle is only closed after a move: using it further is the listed finding C46/use-after-move)
                        ops.append(['fmove', F, r.choice(paths[hi]) + 'm', disk])
                        break
                    else:
                        ops.append(['sleep', gen.think(r, 0.2)])
                if r.chance(0.35):
                    ops.append(['funlink', F, disk])
                else:
                    ops.append(['fclose', F])
                ops.append(['obs_disk', disk])
            plan['actors'].append(dict(id='a%d' % ai, host='h%d' % hi, ops=ops))
        gen.knobs(plan, r)
        return plan

    def oracle(self, plan, res):
        v = self.crash_violations(plan, res)
        if v:
            return v
        recs = self.recs(res)
        calls = {}
        inflight = {}     # disk -> set of op keys in flight
        last_q = {}       # disk -> used at last quiescent observation
        st = dict(overwrite=0, unlink=0, quiescent=0, shared=0)
        users = {}

        def diskof(c):
            if c.kind in ('fopen', 'fread', 'fwrite', 'fmove'):
                return c.args[2 if c.kind != 'fopen' else 2]
            if c.kind == 'fseek':
                return c.args[3]
            if c.kind == 'funlink':
                return c.args[1]
            if c.kind == 'obs_disk':
                return c.args[0]
            return None
        for r in recs:
            key = (r.aid, r.inc, r.idx)
            if r.t == 'C' and (r.kind.startswith('f') or r.kind == 'obs_disk'):
                calls[key] = r
                d = diskof(r)
                if d and r.kind != 'obs_disk':
                    inflight.setdefault(d, set()).add(key)
                    users.setdefault(d, set()).add(r.aid)
            elif r.t == 'R' and key in calls:
                c = calls[key]
                d = diskof(c)
                if d:
                    inflight.setdefault(d, set()).discard(key)
                if r.kv.get('skip') == '1' or r.kv.get('exc'):
                    continue
                kv = r.kv
                if 'dsize' in kv:
                    cap = int(kv['dsize'])
                    for k in ('used', 'sum', 'fsize'):
                        if k in kv and int(kv[k]) > 4 * cap + 10 ** 7:
                            v.append(('size_wrap', '%s after %s %s by %s is %s (disk capacity %d): unsigned wrap-around' %
                                      (k, c.kind, ' '.join(c.args), r.aid, kv[k], cap)))
                if c.kind == 'fread' and 'n' in kv:
                    n, before, fs = int(kv['n']), int(kv['before']), int(kv['fsize'])
                    if n > max(0, fs - before):
                        v.append(('read_beyond_end', 'read(%s) at position %d of a %d-byte file returned %d' %
                                  (c.args[1], before, fs, n)))
                if c.kind == 'fwrite' and 'n' in kv:
                    if int(kv['before']) < int(kv['size0']) and int(kv['n']) > 0:
                        st['overwrite'] += 1
                if d and 'used' in kv and not inflight.get(d):
                    st['quiescent'] += 1
                    used, tot = int(kv['used']), int(kv['sum'])
                    if used != tot:
                        v.append(('used_vs_sum', 'after %s %s by %s (no other file operation in flight on %s): used size %d != '
                                  'sum of file sizes %d' % (c.kind, ' '.join(c.args), r.aid, d, used, tot)))
                    if c.kind == 'funlink' and kv.get('rc') == '0':
                        st['unlink'] += 1
                        if d in last_q and last_q[d][1] == r.aid and last_q[d][0] - used != int(kv['fsize']):
                            v.append(('unlink_delta', 'unlink of a %s-byte file changed the used size from %d to %d' %
                                      (kv['fsize'], last_q[d][0], used)))
                    last_q[d] = (used, r.aid)
                elif d:
                    last_q.pop(d, None)
        st['shared'] = sum(1 for d, u in users.items() if len(u) > 1)
        res['_st'] = st
        return v[:6]

    def nontrivial(self, plan, res):
        if '_st' not in res:
            self.oracle(plan, res)
        st = res.get('_st', {})
        return (st.get('overwrite', 0) + st.get('unlink', 0)) > 0

    def stats(self, plan, res):
        st = self.base_stats(plan, res)
        s = res.get('_st', {})
        st['probe_overwrite_in_the_middle'] = s.get('overwrite', 0)
        st['probe_unlinks'] = s.get('unlink', 0)
        st['probe_quiescent_observations'] = s.get('quiescent', 0)
        st['probe_disks_shared_by_actors'] = s.get('shared', 0)
        return st


CHECK = C46()
