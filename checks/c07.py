"""C07 Barrier semantics (engine A native)"""
import gen
from rng import Rng
from s4ucheck import S4UCheck


class C07(S4UCheck):
    pid = 'C07'
    rule = ('seeded plans: 2-7 actors, 1-2 barriers of size 1-6 (often smaller than the number of callers so that '
            'several groups form, sometimes larger so that the last group never completes), several rounds, dyadic think '
            'times. Oracle: reference model - the k-th group is arrivals (k-1)n+1..kn in request order, no wait returns '
            'before the n-th arrival of its group, exactly the last arriver of a group gets the "serial" return value. '
            'non-trivial = at least one complete group with n>=2; distinct = call sequence hash')
    assumptions = ['order of call records inside a sub-round = kernel handling order (sequential factories)']
    budgets = {'quick': dict(runs=2500, wall=45), 'thorough': dict(runs=60000, wall=800)}

    def gen(self, seed, tier):
        r = Rng(seed, 'c07')
        plan = gen.base_plan(seed, nhosts=r.randint(1, 3), rng=r)
        nact = r.randint(2, 7)
        nbar = r.randint(1, 2)
        bars = [('b%d' % i, r.randint(1, min(6, nact + 1))) for i in range(nbar)]
        plan['objects'] = dict(bar=[list(b) for b in bars])
        for ai in range(nact):
            ops = []
            for _ in range(r.randint(1, 4)):
                if r.chance(0.6):
                    ops.append(['sleep', gen.think(r, 0.3)])
                ops.append(['barrier', bars[r.below(nbar)][0]])
            plan['actors'].append(dict(id='a%d' % ai, host='h%d' % r.below(len(plan['hosts'])), ops=ops))
        gen.knobs(plan, r, walk_p=0.35)
        return plan

    def oracle(self, plan, res):
        return self.sync_violations(plan, res, ('barrier',))

    def nontrivial(self, plan, res):
        return self.model(plan, res).stats['bar_groups'] > 0 and any(n >= 2 for _, n in plan['objects']['bar'])

    def stats(self, plan, res):
        st = self.base_stats(plan, res)
        st['probe_groups_completed'] = self.model(plan, res).stats['bar_groups']
        return st


CHECK = C07()
