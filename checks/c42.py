"""C42 Happens-before equals transitive dependency (engine A' walk mode: real transitions, real odpor::Execution)"""
import importlib

import dst
import gen
from rng import Rng
from s4ucheck import S4UCheck

SOURCES = ['c04', 'c05', 'c06', 'c07', 'c08', 'c08', 'c11w']   # (message queues: the checker cannot decode them, see C43)


def mcinfo_of(recs):
    """-> (aids per executed transition, types, strings, dep[i][j], rdep[i][j], hb[i][j], races[i]) from T/D/RACE lines"""
    aids, types, strs = [], [], []
    dep, rdep, hb, races = {}, {}, {}, {}
    for r in recs:
        if r.t == 'T':
            aids.append(int(r.kv['aid']))
            types.append(r.kv.get('type'))
            strs.append(r.kv.get('str'))
        elif r.t == 'D':
            i = int(r.args[0])
            dep[i], rdep[i], hb[i] = r.kv['dep'], r.kv['rdep'], r.kv['hb']
        elif r.t == 'RACE':
            i = int(r.args[0])
            races[i] = set() if r.args[1] == '-' else set(int(x) for x in r.args[1].split(','))
    return aids, types, strs, dep, rdep, hb, races


class C42(S4UCheck):
    pid = 'C42'
    rule = ('seeded programs over mutexes, semaphores, condition variables, barriers, mailboxes (async/test/wait_any) '
            'and actor creation/join (generators of C04-C08, C11) are executed for up to 40 transitions by '
            'the in-process seeded scheduler (uniform / sticky / PCT) in the model checker\'s computational model. Each '
            'executed simcall is serialised by the application-side observer and decoded by the checker\'s '
            'deserialize_transition into a real mc::Transition, pushed on a real odpor::Execution. Afterwards the harness '
            'dumps, for every pair i<j, Transition::dispatch_depends (both directions) and Execution::happens_before(i,j), '
            'and for every event Execution::get_racing_events_of. Oracle, recomputed in Python from the dumped pairwise '
            'dependencies only: happens_before(i,j) iff i<j and a chain i=k0<k1<..<km=j exists in which consecutive events '
            'are dependent or belong to one actor; racing events of j = the events i of other actors with i->j and no k '
            'with i->k->j (for k the previous event of j\'s actor this is the "not already ordered" clause). '
            'non-trivial = at least 8 transitions, one independent pair of different actors and one race; '
            'distinct = sequence of (actor, transition type)')
    assumptions = ['pairwise dependency is taken from the checker itself (its correctness is C39); this check decides the '
                   'closure and the race computation built on top of it']
    budgets = {'quick': dict(runs=2500, wall=50), 'thorough': dict(runs=60000, wall=800)}
    real_vs_stub = dict(S4UCheck.real_vs_stub)
    real_vs_stub.update({'mc::Transition (serialize / deserialize_transition / dispatch_depends)': 'real',
                         'odpor::Execution (clock vectors, happens_before, get_racing_events_of)': 'real',
                         'simgrid-mc explorer': 'stub: the seeded in-process scheduler picks the transitions'})

    def gen(self, seed, tier):
        r = Rng(seed, 'c42')
        src = r.choice(SOURCES)
        if src == 'c11w':
            plan = self.lifecycle_plan(r, seed)
        else:
            plan = importlib.import_module(src).CHECK.gen(seed, tier)
        plan['source'] = src
        o = plan['opts']
        for k in ('h2', 'layout', 'aslr', 'track'):
            o.pop(k, None)
        o.update(mode='walk', walk=r.choice(['uniform', 'uniform', 'sticky', 'pct1', 'pct2', 'pct3']),
                 walkseed=str(r.randint(1, 2 ** 31)), maxsteps='40', mcinfo='1')
        return plan

    @staticmethod
    def lifecycle_plan(r, seed):
        """actor creation / join / mutex mix (C11's controllers use kills and host failures, which the MC model lacks)"""
        plan = gen.base_plan(seed, nhosts=2, rng=r)
        plan['objects'] = dict(mutex=[('mu0', 0)], mbox=['mb0'])
        na = r.randint(2, 4)
        for i in range(na):
            ops = []
            for _ in range(r.randint(1, 4)):
                c = r.below(8)
                if c < 2:
                    ops += [['lock', 'mu0'], ['unlock', 'mu0']]
                elif c < 4:
                    ops.append(['create', 't%d' % r.below(2)])
                elif c < 6:
                    # (only actors that exist from the start: the harness looks the target up in a table that creations
                    # fill, which would be memory shared between actors outside of the simulated synchronisations)
                    ops.append(['join', 'a%d' % r.below(na)])
                elif c < 7:
                    ops.append(['sleep', 0.25])
                else:
                    ops.append(['yield'])
            plan['actors'].append(dict(id='a%d' % i, host='h%d' % r.below(2), ops=ops))
        for i in range(2):
            plan['actors'].append(dict(id='t%d' % i, host='h%d' % i, template=True,
                                       ops=[['lock', 'mu0'], ['unlock', 'mu0']] if r.chance(0.5) else [['sleep', 0.5]]))
        return plan

    def oracle(self, plan, res):
        v = self.crash_violations(plan, res)
        if v:
            return v
        aids, types, strs, dep, rdep, hb, races = mcinfo_of(self.recs(res))
        n = len(aids)
        res['_n'] = n
        if n == 0:
            return []
        if len(dep) != n or len(races) != n:
            return [('crash', 'mcinfo dump incomplete: %d transitions, %d dependency rows, %d race rows' % (n, len(dep), len(races)))]
        # reference closure
        H = [[False] * n for _ in range(n)]
        indep_pairs = 0
        for j in range(n):
            for i in range(j):
                d = dep[i][j] == '1'
                if aids[i] != aids[j] and not d:
                    indep_pairs += 1
                if d or aids[i] == aids[j]:
                    H[i][j] = True
            for i in range(j):
                if not H[i][j]:
                    for k in range(i + 1, j):
                        if H[i][k] and (dep[k][j] == '1' or aids[k] == aids[j]):
                            H[i][j] = True
                            break
        # (H[i][k] is final for k<j when j is processed, and a chain can always end with a direct edge into j)
        res['_indep'] = indep_pairs
        nr = 0
        for i in range(n):
            for j in range(i + 1, n):
                if (hb[i][j] == '1') != H[i][j]:
                    v.append(('hb_mismatch', 'happens_before(%d,%d)=%s but the closure of the pairwise dependencies says %s; '
                              'e%d=[%d]%s e%d=[%d]%s' % (i, j, hb[i][j], int(H[i][j]), i, aids[i], strs[i], j, aids[j], strs[j])))
                    return v
        for j in range(n):
            ref = set()
            for i in range(j):
                if aids[i] != aids[j] and H[i][j] and not any(H[i][k] and H[k][j] for k in range(i + 1, j)):
                    ref.add(i)
            nr += len(ref)
            if ref != races[j]:
                v.append(('race_mismatch', 'get_racing_events_of(%d) = %s, reference = %s; e%d=[%d]%s' %
                          (j, sorted(races[j]), sorted(ref), j, aids[j], strs[j])))
                return v
        res['_races'] = nr
        return v

    def nontrivial(self, plan, res):
        return res.get('_n', 0) >= 8 and res.get('_indep', 0) > 0 and res.get('_races', 0) > 0

    def signature(self, plan, res):
        aids, types = mcinfo_of(self.recs(res))[:2]
        return dst.sha(str(list(zip(aids, types))))[:16]

    def stats(self, plan, res):
        st = self.base_stats(plan, res)
        aids, types = mcinfo_of(self.recs(res))[:2]
        st['transitions'] = len(aids)
        st['probe_independent_pairs'] = res.get('_indep', 0)
        st['probe_races'] = res.get('_races', 0)
        for t in set(types):
            st['ttype_' + str(t)] = types.count(t)
        st['source_' + plan.get('source', '?')] = 1
        return st


CHECK = C42()
