"""C01 Simulations are reproducible regardless of the address-space layout (engine A, differential)"""
import importlib
import os

import dst
import gen
import s4u
from rng import Rng
from s4ucheck import S4UCheck

SOURCES = ['c04', 'c05', 'c06', 'c07', 'c08', 'c09', 'c11', 'c11', 'c11', 'c12', 'c14', 'c03']


class C01(S4UCheck):
    pid = 'C01'
    rule = ('each seeded plan (drawn from the generators of the mutex, semaphore, condvar, barrier, mailbox, message queue, '
            'lifecycle (daemons, kills, kill times, host reboots with auto-restart), timed-wait and timing campaigns, plus '
            'extra daemons with on_exit callbacks) is executed twice or three times in fresh processes under different '
            'address-space layouts: ASLR off + heap perturbation seed A, ASLR on + heap perturbation seed B + a larger '
            'environment (stack shift), and (thorough) a third layout; the complete event logs (every call/return with '
            'hex-exact clocks and values, kernel signals, on_exit order, time advances) must be byte-identical. '
            'non-trivial = the plan has at least two events at one date and a daemon, kill or failure; distinct = call '
            'sequence hash')
    assumptions = ['address dependence shows through pointer order of heap objects / ASLR / stack position; '
                   'string-keyed hash containers are layout-independent in libstdc++',
                   'the H2 permutation stream (when on) is the same in all runs of a plan']
    budgets = {'quick': dict(runs=900, wall=55), 'thorough': dict(runs=20000, wall=800)}

    def gen(self, seed, tier):
        r = Rng(seed, 'c01')
        src = r.choice(SOURCES)
        mod = importlib.import_module(src)
        plan = mod.CHECK.gen(seed, tier)
        plan['source'] = src
        plan['opts'].pop('layout', None)
        if plan['opts'].get('mode') == 'walk':
            for k in ('mode', 'walk', 'walkseed', 'maxsteps'):
                plan['opts'].pop(k, None)
        # extra daemons with on_exit callbacks: they are all killed at the same instant when the last regular actor ends
        nd = r.randint(0, 6)
        for i in range(nd):
            plan['actors'].append(dict(id='dm%d' % i, host=plan['hosts'][r.below(len(plan['hosts']))]['name'], daemon=True,
                                       onexit=r.randint(1, 2), ops=[['sleep', 1000.0]]))
        plan['layouts'] = [r.randint(1, 2 ** 31), r.randint(1, 2 ** 31), r.randint(1, 2 ** 31)]
        plan['tier'] = tier
        return plan

    def run(self, plan, scratch):
        logs = []
        variants = [dict(aslr='off', layout=plan['layouts'][0], env=0), dict(aslr='on', layout=plan['layouts'][1], env=3000)]
        if plan.get('tier') == 'thorough':
            variants.append(dict(aslr='on', layout=plan['layouts'][2], env=150))
        first = None
        for v in variants:
            p = dict(plan)
            p['opts'] = dict(plan['opts'])
            p['opts']['layout'] = str(v['layout'])
            if v['aslr'] == 'off':
                p['opts']['aslr'] = 'off'
            env = {'VERIF_PAD': 'x' * v['env']} if v['env'] else None
            res = s4u.run_plan(p, scratch, timeout=self.run_timeout, env=env)
            logs.append(res)
            if first is None:
                first = res
        out = dict(first)
        out['others'] = [dict(rc=x['rc'], log=x['log'], timed_out=x['timed_out']) for x in logs[1:]]
        out['hash'] = dst.sha(*[x['log'] for x in logs])
        return out

    def oracle(self, plan, res):
        v = []
        if res['timed_out'] or any(o['timed_out'] for o in res['others']):
            return [('hang', 'a run did not finish')]
        a = res['log']
        for i, o in enumerate(res['others']):
            if o['log'] != a or o['rc'] != res['rc']:
                la, lb = a.split('\n'), o['log'].split('\n')
                k = 0
                while k < min(len(la), len(lb)) and la[k] == lb[k]:
                    k += 1
                v.append(('differs', 'run under layout %d differs from the first run at log line %d: %r vs %r (rc %s vs %s)' %
                          (i + 2, k, la[k] if k < len(la) else '<end>', lb[k] if k < len(lb) else '<end>', res['rc'], o['rc'])))
                break
        return v

    def nontrivial(self, plan, res):
        recs = self.recs(res)
        dates = {}
        for r in recs:
            if r.t == 'R':
                dates[r.clock] = dates.get(r.clock, 0) + 1
        tie = any(n >= 2 for n in dates.values())
        rough = any(a.get('daemon') or a.get('killtime') is not None for a in plan['actors']) or \
            any(op[0] in ('kill', 'kill_all', 'host_off') for a in plan['actors'] for op in a['ops'])
        return tie and rough

    def stats(self, plan, res):
        st = self.base_stats(plan, res)
        st['runs_compared'] = 1 + len(res['others'])
        st['probe_daemons_killed_together'] = sum(1 for a in plan['actors'] if a.get('daemon'))
        st['source_' + plan.get('source', '?')] = 1
        return st

    def shrink(self, plan):
        for p in gen.shrink_plan(plan):
            p['layouts'] = plan['layouts']
            yield p


CHECK = C01()
