"""C12 Timed waits are exact (engine A native)"""
import gen
from rng import Rng
from s4ucheck import S4UCheck
from refsync import close, EPS


class C12(S4UCheck):
    pid = 'C12'
    rule = ('seeded plans: 1-4 actors; each starts asynchronous execs, host-to-host comms, disk I/Os, mailbox puts/gets '
            '(matched late, or never) and message-queue puts/gets, then waits with wait_for(t) / wait_until(d) / '
            'wait_for_or_cancel(t) / ActivitySet::wait_any_for(t), t chosen below, at (bit-equal, dyadic data) and above '
            'the natural completion, followed by a plain wait that reveals the real finish date f. Oracle per timed wait '
            'called at c: normal return => f <= c+t and return date = f; TimeoutException => raised at c+t, and f > c+t '
            '(a completion exactly at the deadline must count as completed) ; wait_for_or_cancel timeout => state CANCELED '
            'and remaining work frozen; wait_any_for returns the earliest activity finishing before the deadline, else '
            'times out at the deadline; a wait on an unstarted/unmatched communication times out at c+t; after any '
            'timeout later blocking calls are not disturbed (sleep rule). non-trivial = some timed wait timed out and '
            'some completed; distinct = call sequence hash')
    assumptions = ['tolerance 2e-9 except the tie rule, which is evaluated bit-exactly (f == c+t as doubles)']
    budgets = {'quick': dict(runs=2500, wall=55), 'thorough': dict(runs=60000, wall=800)}

    def gen(self, seed, tier):
        r = Rng(seed, 'c12')
        nh = r.randint(2, 3)
        plan = gen.base_plan(seed, nhosts=nh, rng=r)
        for h in plan['hosts']:
            h['speeds'] = [1e9]
            h['disks'] = [dict(name='d_' + h['name'], rbw=1e6, wbw=0.5e6)]
        gen.full_mesh(plan, r, lat_choices=(0.0, 0.125), bw_choices=(1e6,))
        plan['objects'] = dict(mbox=['mb0', 'mb1'], mq=['q0', 'q1'])
        plan['cfg'] += ['network/model:CM02', 'network/crosstraffic:0']
        nact = r.randint(1, 4)
        sn = [0]

        def slot():
            sn[0] += 1
            return 'x%d' % sn[0]
        T = [0.25, 0.5, 1.0, 2.0]
        for ai in range(nact):
            ops = []
            host = 'h%d' % r.below(nh)
            for _ in range(r.randint(1, 5)):
                if r.chance(0.3):
                    ops.append(['sleep', gen.think(r, 0.3)])
                s = slot()
                nat = r.choice(T)
                c = r.below(10)
                if c < 4:
                    ops.append(['exec_async', s, nat * 1e9])
                elif c < 6:
                    ops.append(['io_async', s, 'd_' + host, nat * 1e6, 'read'])
                elif c < 7:
                    o = 'h%d' % ((int(host[1:]) + 1) % nh)
                    # (empty messages too: nothing to transfer, the whole duration is the latency phase)
                    ops.append(['sendto', s, host, o, 0.0 if r.chance(0.2) else nat * 1e6])
                elif c < 8:
                    ops.append([r.choice(['mget_async', 'mput_async']), s, r.choice(['q0', 'q1'])])
                elif c < 9:
                    # started, or left unstarted so that the timed wait itself starts it (one isend/irecv+wait simcall)
                    ops.append([r.choice(['get_async', 'put_async', 'get_init', 'put_init']), s] + ([r.choice(['mb0', 'mb1'])]))
                    if ops[-1][0].startswith('put'):
                        ops[-1].append(0.0 if r.chance(0.2) else nat * 1e6)
                else:
                    # two activities and a wait_any_for
                    s2 = slot()
                    ops.append(['exec_async', s, nat * 1e9])
                    ops.append(['io_async', s2, 'd_' + host, r.choice(T) * 1e6, 'write'])
                    t = r.choice([0.125, 0.25, 0.5, 1.0, 2.0, 4.0])
                    ops.append(['wait_any', 'timeout=%r' % t, s, s2])
                    ops.append(['wait', s])
                    ops.append(['wait', s2])
                    continue
                t = r.choice([nat / 2, nat, nat, 2 * nat, nat + 2.5e-9, nat - 2.5e-9, 0.0])
                w = r.below(4)
                if w < 2:
                    ops.append(['wait_for', s, t])
                elif w == 2:
                    ops.append(['wait_for_or_cancel', s, t])
                    ops.append(['sleep', 0.25])
                    ops.append(['obs_act', s])
                else:
                    ops.append(['wait_until', s, r.randint(1, 16) * 0.25])
                if c < 7 or r.chance(0.3):
                    ops.append(['wait', s] if c < 7 else ['wait_for', s, 1.0])
            ops.append(['sleep', 1.0])
            plan['actors'].append(dict(id='a%d' % ai, host=host, ops=ops))
        gen.knobs(plan, r)
        return plan

    def oracle(self, plan, res):
        v = self.crash_violations(plan, res)
        if v:
            return v
        recs = self.recs(res)
        if any(r.t == 'S' and r.kind == 'deadlock' for r in recs):
            return [('unexpected_deadlock', 'the plan cannot block for ever by construction, yet a deadlock was reported')]
        calls = {}
        finish = {}     # slot -> (finish clock, state) from the last record that shows it FINISHED
        timed = []      # (call rec, ret rec)
        started = {}    # slot -> start date of the activity (match date of a mailbox communication)
        st = dict(timeouts=0, completed=0, ties=0, cancelled=0, anyfor=0)
        for r in recs:
            key = (r.aid, r.inc, r.idx)
            if r.t == 'C':
                calls[key] = r
            elif r.t == 'R' and key in calls and r.kv.get('skip') != '1':
                c = calls[key]
                if r.kind in ('wait', 'wait_for', 'wait_until', 'wait_for_or_cancel', 'test', 'obs_act') and c.args:
                    if r.kv.get('state') == 'FINISHED' and 'finish' in r.kv and float.fromhex(r.kv['finish']) >= 0:
                        finish.setdefault(c.args[0], float.fromhex(r.kv['finish']))
                        if 'start' in r.kv:
                            started.setdefault(c.args[0], float.fromhex(r.kv['start']))
                    elif r.kv.get('state') == 'FINISHED' and not r.kv.get('exc') and r.kind != 'obs_act' and \
                            r.clock > c.clock + EPS and c.args[0] not in finish:
                        finish[c.args[0]] = r.clock   # no recorded finish date (mess): a wait that blocked gives it
                if r.kind in ('wait_for', 'wait_until', 'wait_for_or_cancel'):
                    timed.append((c, r))
                if r.kind == 'wait_any':
                    timed.append((c, r))
                    g = r.kv.get('got')
                    if g and g != '-' and 'finish' in r.kv:
                        finish.setdefault(g, float.fromhex(r.kv['finish']))
        cancelled = {}
        for c, r in timed:
            if r.kind == 'wait_any':
                st['anyfor'] += 1
                names = [x for x in c.args if '=' not in x]
                t = [float(x[8:]) for x in c.args if x.startswith('timeout=')]
                if not t:
                    continue
                dl = c.clock + t[0]
                fs = sorted((finish[n], n) for n in names if n in finish)
                if r.kv.get('exc') == 'Timeout':
                    st['timeouts'] += 1
                    if not close(r.clock, dl):
                        v.append(('timeout_date', 'wait_any_for(%r) called at %r timed out at %r' % (t[0], c.clock, r.clock)))
                    for f, n in fs:
                        if f < dl - EPS and f >= c.clock - EPS:
                            v.append(('timeout_spurious', 'wait_any_for(%r) called at %r timed out although %s finished at '
                                      '%r' % (t[0], c.clock, n, f)))
                elif not r.kv.get('exc'):
                    st['completed'] += 1
                    g = r.kv.get('got')
                    if fs and g in finish:
                        first = fs[0][0]
                        if finish[g] > max(first, c.clock) + EPS:
                            v.append(('waitany_not_first', 'wait_any_for returned %s (finish %r) although %s finished '
                                      'earlier (%r)' % (g, finish[g], fs[0][1], first)))
                        if not close(r.clock, max(finish[g], c.clock)):
                            v.append(('return_date', 'wait_any_for returned at %r, activity %s finished at %r' %
                                      (r.clock, g, finish[g])))
                continue
            s = c.args[0]
            if r.kind == 'wait_until':
                dl = max(float(c.args[1]), c.clock)
                if float(c.args[1]) <= c.clock:
                    continue   # wait_until(past): returns at once without waiting: nothing to check
            else:
                t = float(c.args[1])
                if t < 0:
                    continue
                dl = c.clock + t
            f = finish.get(s)
            if r.kv.get('exc') == 'Timeout':
                st['timeouts'] += 1
                if not close(r.clock, dl):
                    v.append(('timeout_date', '%s(%s) called at %r with deadline %r raised its timeout at %r' %
                              (r.kind, s, c.clock, dl, r.clock)))
                if f is not None and s not in cancelled:
                    if f < dl - EPS:
                        v.append(('timeout_spurious', '%s(%s) called at %r timed out at %r although the activity finished '
                                  'at %r' % (r.kind, s, c.clock, r.clock, f)))
                    elif f == dl and started.get(s, -1.0) >= dl:
                        # an empty activity that started (was matched) at the very date of the deadline: whether that
                        # happened before or after the timer fired is a matter of order inside that date
                        st['ties_started_at_deadline'] = st.get('ties_started_at_deadline', 0) + 1
                    elif f == dl:
                        st['ties'] += 1
                        v.append(('timeout_tie', '%s(%s): the activity finished exactly at the deadline %r, which must '
                                  'count as completed, but a timeout was raised' % (r.kind, s, dl)))
                if r.kind == 'wait_for_or_cancel':
                    cancelled[s] = r
                    st['cancelled'] += 1
                    if r.kv.get('state') not in (None, 'CANCELED'):
                        v.append(('not_cancelled', 'wait_for_or_cancel(%s) timed out but the activity state is %s' %
                                  (s, r.kv.get('state'))))
            elif not r.kv.get('exc'):
                st['completed'] += 1
                if f is not None:
                    if f == dl:
                        st['ties'] += 1
                    if f > dl + EPS:
                        v.append(('timeout_missed', '%s(%s) called at %r with deadline %r returned normally, activity '
                                  'finished at %r' % (r.kind, s, c.clock, dl, f)))
                    if not close(r.clock, max(f, c.clock)):
                        v.append(('return_date', '%s(%s) returned at %r, activity finished at %r' % (r.kind, s, r.clock, f)))
        # frozen after cancel
        for r in recs:
            if r.t == 'R' and r.kind == 'obs_act':
                c = calls.get((r.aid, r.inc, r.idx))
                if c and c.args and c.args[0] in cancelled:
                    r0 = cancelled[c.args[0]]
                    if r.kv.get('state') != 'CANCELED':
                        v.append(('not_cancelled', 'activity %s is %s some time after wait_for_or_cancel timed out' %
                                  (c.args[0], r.kv.get('state'))))
                    if 'remaining' in r.kv and 'remaining' in r0.kv and r.kv['remaining'] != r0.kv['remaining']:
                        v.append(('cancel_progress', 'activity %s kept progressing after cancellation (%s -> %s)' %
                                  (c.args[0], r0.kv['remaining'], r.kv['remaining'])))
        res['_st'] = st
        v += self.sleep_violations(plan, res)
        return v[:8]

    def nontrivial(self, plan, res):
        if '_st' not in res:
            self.oracle(plan, res)
        st = res.get('_st', {})
        return st.get('timeouts', 0) > 0 and st.get('completed', 0) > 0

    def stats(self, plan, res):
        st = self.base_stats(plan, res)
        s = res.get('_st', {})
        st['fault_timeouts_fired'] = s.get('timeouts', 0)
        st['probe_completed_before_deadline'] = s.get('completed', 0)
        st['probe_finish_equals_deadline'] = s.get('ties', 0)
        st['probe_wait_for_or_cancel_timeouts'] = s.get('cancelled', 0)
        st['probe_wait_any_for'] = s.get('anyfor', 0)
        return st


CHECK = C12()
