"""C03 Simulated time is monotone and events happen exactly at their date (engine A native)"""
import gen
from rng import Rng
from s4ucheck import S4UCheck
from refsync import close, EPS

DUR = [0.0, 1e-10, 1e-9, 0.25, 0.5, 0.75, 1.0, 1.25, 2.0, 3.5, 1e6, 0.1, 0.3, 1.0 / 3.0]


class C03(S4UCheck):
    pid = 'C03'
    rule = ('seeded plans: 2-6 actors on 1-3 hosts (1-2 cores) with links; ops sleep_for(d), sleep_until(T), exec (alone '
            'or sharing a core), host-to-host comms, asynchronous execs waited with wait/wait_until/wait_for(d), semaphore '
            'acquire_timeout, kill times; durations from {0, below precision, precision, dyadic fractions, non-dyadic, '
            '1e6, values equal to another actor\'s} so that many events share one date. Invariants: every clock read is '
            '>= the previous one in the global order, each time advance has delta >= 0 and lands on clock+delta; every '
            'undisturbed sleep_for(d) returns at call+max(d,precision) (0 -> immediately), sleep_until(T) at max(T,call); '
            'kill times fire at their date; acquire_timeout and wait_for/wait_until timeouts at call+t (resp. max(T, call)); for each activity call <= start <= finish '
            '<= return, exec duration >= flops/(speed*cores_used), comm duration >= route latency. non-trivial = at '
            'least two timers/actions completed at one date; distinct = call sequence hash')
    assumptions = ['tolerance 2e-9 (twice precision/timing): now += delta rounds in double',
                   'lower bounds only for shared activities (no closed form under sharing here; see C20/C21)']
    budgets = {'quick': dict(runs=2500, wall=55), 'thorough': dict(runs=60000, wall=800)}

    def gen(self, seed, tier):
        r = Rng(seed, 'c03')
        nh = r.randint(1, 3)
        plan = gen.base_plan(seed, nhosts=nh, rng=r)
        for h in plan['hosts']:
            h['cores'] = r.randint(1, 2)
            h['speeds'] = [r.choice([1e9, 2e9, 0.5e9])]
        gen.full_mesh(plan, r, lat_choices=(0.0, 0.125, 0.25, 0.001), bw_choices=(1e6, 1e8))
        plan['objects'] = dict(sem=[['s0', 0]])
        nact = r.randint(2, 6)
        sn = [0]
        for ai in range(nact):
            ops = []
            for _ in range(r.randint(2, 8)):
                c = r.below(12)
                if c < 5:
                    ops.append(['sleep', r.choice(DUR)])
                elif c < 6:
                    ops.append(['sleep_until', r.randint(0, 24) * 0.25])
                elif c < 8:
                    ops.append(['exec', r.randint(1, 8) * 0.125e9])
                elif c < 9 and nh > 1:
                    a, b = r.sample(range(nh), 2)
                    ops.append(['sendto', '-', 'h%d' % a, 'h%d' % b, r.choice([1.0, 1e5, 1e6])])
                elif c < 10:
                    sn[0] += 1
                    s = 'x%d' % sn[0]
                    ops.append(['exec_async', s, r.randint(1, 8) * 0.125e9])
                    if r.chance(0.5):
                        ops.append(['sleep', r.choice(DUR[:10])])
                    ops.append(r.choice([['wait', s], ['wait_until', s, r.randint(0, 24) * 0.25],
                                         ['wait_for', s, r.choice(DUR[:10])]]))
                    ops.append(['wait', s])
                elif c < 11:
                    ops.append(['acquire_timeout', 's0', r.choice(DUR[3:10])])
                else:
                    ops.append(['yield'])
            a = dict(id='a%d' % ai, host='h%d' % r.below(nh), ops=ops)
            if r.chance(0.2):
                a['killtime'] = r.randint(1, 16) * 0.25
            plan['actors'].append(a)
        gen.knobs(plan, r)
        return plan

    def oracle(self, plan, res):
        v = self.crash_violations(plan, res)
        if v:
            return v
        recs = self.recs(res)
        if any(r.t == 'S' and r.kind == 'deadlock' for r in recs):
            return [('unexpected_deadlock', 'the plan cannot block for ever by construction, yet a deadlock was reported')]
        last = 0.0
        calls = {}
        speed = {h['name']: (h['speeds'][0], h['cores']) for h in plan['hosts']}
        lat = {}
        for rt in plan['routes']:
            l = sum(x['lat'] for x in plan['links'] if x['name'] in rt['links'])
            lat[(rt['src'], rt['dst'])] = l
            lat[(rt['dst'], rt['src'])] = l
        hostof = {a['id']: a['host'] for a in plan['actors']}
        killt = {a['id']: a.get('killtime') for a in plan['actors']}
        self._ties = 0
        dates = {}
        for r in recs:
            if r.clock is None:
                continue
            if r.clock < last:
                v.append(('clock_backwards', 'clock went from %r to %r at seq %d (%s)' % (last, r.clock, r.seq, r.raw[:80])))
            if r.t == 'S' and r.kind == 'time_advance':
                d = float.fromhex(r.kv['delta'])
                if d < 0:
                    v.append(('negative_advance', 'time advance of %r at seq %d' % (d, r.seq)))
                if not close(last + d, r.clock):
                    v.append(('advance_mismatch', 'clock %r + delta %r != new clock %r' % (last, d, r.clock)))
            last = max(last, r.clock)
            key = (r.aid, r.inc, r.idx)
            if r.t == 'C':
                calls[key] = r
            elif r.t == 'R' and key in calls:
                c = calls[key]
                if r.kind in ('exec', 'sendto') and 'finish' in r.kv and not r.kv.get('exc'):
                    st, fi = float.fromhex(r.kv['start']), float.fromhex(r.kv['finish'])
                    dates[fi] = dates.get(fi, 0) + 1
                    if not (c.clock - EPS <= st <= fi + EPS and fi <= r.clock + EPS):
                        v.append(('activity_dates', '%s by %s: call %r start %r finish %r return %r not ordered' %
                                  (r.kind, r.aid, c.clock, st, fi, r.clock)))
                    if not close(fi, r.clock):
                        v.append(('return_date', '%s by %s finished at %r but wait returned at %r' % (r.kind, r.aid, fi, r.clock)))
                    if r.kind == 'exec':
                        sp, cores = speed[hostof[r.aid.split('#')[0]]]
                        mind = float(c.args[0]) / sp
                        if fi - st < mind - EPS - 1e-9 * mind:
                            v.append(('too_fast', 'exec of %r flops on speed %r took %r < %r' % (float(c.args[0]), sp, fi - st, mind)))
                    else:
                        l = lat.get((c.args[1], c.args[2]), 0.0)
                        if fi - st < l - EPS:
                            v.append(('too_fast', 'comm %s->%s took %r < route latency %r' % (c.args[1], c.args[2], fi - st, l)))
                elif r.kind == 'acquire_timeout' and r.kv.get('timeout') == '1':
                    want = c.clock + float(c.args[1])
                    dates[r.clock] = dates.get(r.clock, 0) + 1
                    if not close(r.clock, want):
                        v.append(('timer_date', 'acquire_timeout(%r) called at %r timed out at %r' % (float(c.args[1]), c.clock, r.clock)))
                elif r.kind in ('wait_for', 'wait_until') and r.kv.get('exc') == 'Timeout':
                    # the timer of a timed wait fires at its date (zero and sub-precision timeouts: at the call date)
                    want = c.clock + float(c.args[1]) if r.kind == 'wait_for' else max(float(c.args[1]), c.clock)
                    dates[r.clock] = dates.get(r.clock, 0) + 1
                    if not close(r.clock, want):
                        v.append(('timer_date', '%s(%r) called at %r timed out at %r instead of %r' %
                                  (r.kind, float(c.args[1]), c.clock, r.clock, want)))
                elif r.kind in ('sleep', 'sleep_until'):
                    dates[r.clock] = dates.get(r.clock, 0) + 1
            elif r.t == 'S' and r.kind == 'actor_term':
                kt = killt.get(r.aid)
                if kt is not None and r.clock > kt + EPS:
                    v.append(('kill_time_late', 'actor %s with kill time %r terminated at %r' % (r.aid, kt, r.clock)))
        self._ties = sum(1 for d, n in dates.items() if n >= 2)
        res['_ties'] = self._ties
        v += self.sleep_violations(plan, res)
        return v[:8]

    def nontrivial(self, plan, res):
        if '_ties' not in res:
            self.oracle(plan, res)
        return res.get('_ties', 0) > 0

    def stats(self, plan, res):
        st = self.base_stats(plan, res)
        st['probe_dates_with_several_events'] = res.get('_ties', 0)
        st['time_advances'] = sum(1 for r in self.recs(res) if r.t == 'S' and r.kind == 'time_advance')
        return st


CHECK = C03()
