"""C11 Actor lifecycle semantics (engine A native, with fault injection: kills, kill times, host reboots)"""
import gen
import reflife
from rng import Rng
from s4ucheck import S4UCheck


class C11(S4UCheck):
    pid = 'C11'
    rule = ('seeded plans: 3-7 actors on 2-3 hosts: workers (sleep/exec with 0-3 on_exit callbacks, extra registrations '
            'in the middle of their life, explicit exit), daemons, actors with kill times, templates created at run time, '
            'and controllers issuing kill / kill_all / join / join(t) / suspend / resume / set_kill_time at dyadic dates '
            'chosen to coincide with the victims\' own events; fault classes: host turn_off/turn_on with auto-restart '
            'actors. Oracle: join returns at min(termination, call+t) (at once if already dead); on_exit callbacks of an '
            'incarnation run exactly once each in reverse registration order at the termination date with the right '
            'failed flag; kill time = termination date; killed actors terminate at the kill date; daemons end with the '
            'last regular actor; suspended actors log nothing until resumed; undisturbed sleeps are exact. '
            'non-trivial = at least one kill/kill time/join timeout/suspend happened; distinct = call sequence hash')
    assumptions = ['failed flag is not checked for this_actor::exit() (documentation is silent)',
                   'an actor killed at the very date it would end by itself may show either ending']
    budgets = {'quick': dict(runs=2500, wall=55), 'thorough': dict(runs=60000, wall=800)}

    def gen(self, seed, tier):
        r = Rng(seed, 'c11')
        nh = r.randint(2, 3)
        plan = gen.base_plan(seed, nhosts=nh, rng=r)
        plan['hosts'].append(dict(name='ctl', cores=1, speeds=[1e9]))   # never fails: controllers live here
        nwork = r.randint(2, 5)
        faults = r.chance(0.3)
        plan['class'] = 'faults' if faults else 'plain'
        ids = []
        for i in range(nwork):
            ops = []
            for _ in range(r.randint(1, 6)):
                c = r.below(10)
                if c < 6:
                    ops.append(['sleep', gen.think(r, 0.1)])
                elif c < 8:
                    ops.append(['exec', r.randint(1, 8) * 0.25e9])
                elif c < 9:
                    ops.append(['on_exit', 10 + len(ops)])
                else:
                    ops.append(['yield'])
            if r.chance(0.1):
                ops.append(['exit'])
            a = dict(id='w%d' % i, host='h%d' % r.below(nh), ops=ops, onexit=r.randint(0, 3))
            if r.chance(0.25):
                a['daemon'] = True
                a['ops'] = ops + [['sleep', 1.0]] * r.randint(3, 10)
            if r.chance(0.25):
                a['killtime'] = r.randint(1, 12) * 0.25
            if r.chance(0.2):
                a['template'] = True
            if faults and r.chance(0.6):
                a['autorestart'] = True
            ids.append(a['id'])
            plan['actors'].append(a)
        if all(a.get('daemon') for a in plan['actors']):
            plan['actors'][0].pop('daemon')
        nctl = r.randint(1, 2)
        for ci in range(nctl):
            ops = []
            for _ in range(r.randint(2, 8)):
                if r.chance(0.7):
                    ops.append(['sleep', gen.think(r, 0.2)])
                t = r.choice(ids)
                c = r.below(12)
                if c < 2:
                    ops.append(['kill', t])
                elif c < 4:
                    ops.append(['join', t])
                elif c < 6:
                    ops.append(['join', t, r.randint(0, 8) * 0.25])
                elif c < 8:
                    ops.append(['suspend', t])
                    ops.append(['sleep', r.randint(1, 6) * 0.25])
                    ops.append(['resume', t])
                elif c < 9:
                    ops.append(['set_kill_time', t, r.randint(1, 16) * 0.25])
                elif c < 10:
                    ops.append(['create', t])
                elif c < 11 and faults:
                    h = 'h%d' % r.below(nh)
                    ops.append(['host_off', h])
                    ops.append(['sleep', r.randint(1, 4) * 0.25])
                    ops.append(['host_on', h])
                else:
                    ops.append(['obs_actor', t])
            if r.chance(0.08):
                ops.append(['kill_all'])
            plan['actors'].append(dict(id='c%d' % ci, host='ctl', ops=ops))
        for a in plan['actors']:
            if a.get('template') and not any(op[0] == 'create' and op[1] == a['id']
                                             for b in plan['actors'] for op in b['ops']):
                a.pop('template')
        gen.knobs(plan, r)
        return plan

    def life(self, plan, res):
        if '_life' not in res:
            l = reflife.Life(plan, self.recs(res))
            l.check()
            res['_life'] = l
        return res['_life']

    def suspend_violations(self, plan, res):
        """requests are handled in the order of their call records: the last of suspend/resume on an actor wins. Once
        the suspender has got its answer (R record) and no resume call was issued since, the target must stay silent."""
        v = []
        recs = self.recs(res)
        pid_of = {}
        rets = {(r.aid, r.inc, r.idx): r for r in recs if r.t == 'R'}
        last_req = {}  # pid -> ('S', call seq) | ('R', call seq)
        watch = {}     # pid -> seq from which silence is required
        targets = set()
        for r in recs:
            if r.t == 'S' and r.kind == 'actor_start':
                pid_of[(r.aid, int(r.kv['inc']))] = int(r.kv['pid'])
            elif r.t == 'C' and r.kind in ('suspend', 'resume'):
                rr = rets.get((r.aid, r.inc, r.idx))
                if rr is not None and 'target' in rr.kv:
                    p = int(rr.kv['target'])
                    last_req[p] = ('S' if r.kind == 'suspend' else 'R', r.seq)
                    if r.kind == 'resume':
                        watch.pop(p, None)
                    else:
                        targets.add(p)
                elif r.kind == 'resume':
                    # a resume whose outcome is unknown (its issuer died): be conservative, stop watching
                    for (aid, inc), p in pid_of.items():
                        if aid.split('#')[0] == r.args[0]:
                            watch.pop(p, None)
                            last_req.pop(p, None)
            elif r.t == 'R' and r.kind == 'suspend' and 'target' in r.kv:
                p = int(r.kv['target'])
                c_seq = [x.seq for x in recs if x.t == 'C' and (x.aid, x.inc, x.idx) == (r.aid, r.inc, r.idx)]
                if last_req.get(p) == ('S', c_seq[0] if c_seq else -1):
                    watch[p] = r.seq
            elif r.t in ('C', 'R') and r.aid is not None:
                p = pid_of.get((r.aid, r.inc))
                if p in watch and r.seq > watch[p]:
                    v.append(('suspend_progress', 'actor %s made progress (%s %s at seq %d) while suspended since seq %d' %
                              (r.aid, r.t, r.kind, r.seq, watch[p])))
                    watch.pop(p)
        res['_susp_targets'] = {aid for (aid, inc), p in pid_of.items() if p in targets}
        return v[:3]

    def oracle(self, plan, res):
        v = self.crash_violations(plan, res)
        if v:
            return v
        v += self.life(plan, res).viol
        v += self.suspend_violations(plan, res)
        hostfail = {a['id'] for a in plan['actors'] if a['host'] != 'ctl'} if plan.get('class') == 'faults' else set()
        v += self.sleep_violations(plan, res, suspended=res['_susp_targets'] | hostfail)
        return v

    def nontrivial(self, plan, res):
        st = self.life(plan, res).stats
        return st['kills'] + st['kill_times'] + st['join_timeouts'] + st['daemons_killed'] > 0

    def stats(self, plan, res):
        st = self.base_stats(plan, res)
        ls = self.life(plan, res).stats
        st['fault_kills'] = ls['kills']
        st['fault_kill_times'] = ls['kill_times']
        st['probe_join_timeouts'] = ls['join_timeouts']
        st['probe_joins'] = ls['joins']
        st['probe_daemons_killed_at_end'] = ls['daemons_killed']
        st['probe_on_exit_calls'] = ls['on_exit_calls']
        st['fault_host_off'] = sum(1 for r in self.recs(res) if r.t == 'S' and r.kind == 'host_onoff' and r.kv.get('on') == '0')
        st['fault_suspends'] = sum(1 for r in self.recs(res) if r.t == 'R' and r.kind == 'suspend' and 'target' in r.kv)
        return st


CHECK = C11()
