"""C40 ODPOR explores each equivalence class once (engine D + walker D rebuilding the checker's own dependency matrix)"""
import os

import mcd
import mcdgen
from mcdcheck import EngineDCheck, abort_class, abort_msg, hash_of, loop_msg
from rng import Rng


class C40(EngineDCheck):
    pid = 'C40'
    rule = ('seeded programs of the C38 generator without assertions, resources balanced, size bound <= 120 so that the '
            'unreduced exploration is exhaustive. simgrid-mc runs with reduction none and with odpor (DFS, plus a seeded '
            'BeFS / uniform-strategy variant), traces printed at verbose level, odpor also with model-check/debug-'
            'optimality when every transition of the program has a single value (the checker\'s own verification takes two '
            'executions that differ only by the value of a MC_random / waitany for equivalent). Programs on which any exploration reports a deadlock / assertion / crash (a soft-locked state) '
            'are outside the quantifier. Every complete execution printed by none and by odpor is replayed by walker D '
            'with mcinfo: the executed transitions are rebuilt through the real serialize / deserialize code and the '
            'pairwise dispatch_depends matrix is logged; the Mazurkiewicz class of an execution is its Foata normal form '
            'under that matrix (own computation, not Execution::happens_before). Oracle: no two executions explored by '
            'odpor have the same normal form; the number of executions odpor explored equals the number of classes of the '
            'executions of none; the checker\'s own debug-optimality verdict agrees (it aborts on a duplicate). '
            'non-trivial = at least 2 classes; distinct = hash of the class sets')
    assumptions = ['a complete execution is one after which every actor has terminated; executions whose printed path was '
                   'truncated by the checker (%.100s) make the program unjudged',
                   'equivalence uses the dependency relation as evaluated on the transitions of each execution']
    budgets = {'quick': dict(runs=40, wall=45), 'thorough': dict(runs=1000, wall=900)}

    def gen(self, seed, tier):
        r = Rng(seed, 'c40')
        plan = mcdgen.program(r, seed, 120 if tier == 'quick' else 400, want_assert=False, min_bound=6,
                              families=os.environ['VERIF_ENGD_FAMILIES'].split(',') if os.environ.get('VERIF_ENGD_FAMILIES') else None)
        plan['walks'] = mcdgen.walk_specs(r, 8)
        # the checker's own verification identifies a transition by (actor, type): it takes two executions that differ
        # only by the value of a MC_random / the index of a waitany for equivalent, so it is used on the other programs
        multi = any(op[0] in ('mc_random', 'wait_any', 'test_any') for a in plan['actors'] for op in a['ops'])
        opt = [] if multi else ['--cfg=model-check/debug-optimality:yes']
        plan['mc'] = [dict(red='none', algo='DFS', strategy='none'),
                      dict(red='odpor', algo='DFS', strategy='none', extra=opt),
                      dict(red='odpor', algo=r.choice(['BeFS', 'BeFS', 'DFS']), strategy='uniform',
                           randseed=r.randint(1, 10 ** 6), extra=opt)]
        if plan['mc'][2]['algo'] == 'BeFS' and r.chance(0.5):
            plan['mc'][2]['strategy'] = 'none'
            del plan['mc'][2]['randseed']
        return plan

    def run(self, plan, scratch):
        ws, viol, nvalid = self.walks(plan, scratch, plan['walks'])
        mcs = [self.explore(plan, scratch, cfg, 'm%d' % i, extra_cfg=cfg.get('extra', ()))
               for i, cfg in enumerate(plan['mc'])]
        softlocked = any(w['deadlock'] or w['assert_key'] for w in ws) or any(
            r['reports'] and not r['optimality_dup'] for r in mcs)
        judged = not softlocked
        classes = {}
        counts = {}
        none_classes = None
        nreplayed = 0
        for r in mcs:
            r['tag'] = ('_befs' if r['algo'] == 'BeFS' else '') + ('_uniform' if r['strategy'] == 'uniform' else '')
        if judged:
            for r in mcs:
                if r['optimality_dup']:
                    viol.append(('odpor_dup_own' + r['tag'], '%s: the checker\'s own debug-optimality verification aborted: %s' %
                                 (r['config'], ' | '.join(c for c in r['criticals'] if 'sequence' in c or 'equivalent' in c)[:400])))
                elif not r['finished']:
                    if r['looping']:
                        viol.append(('loop_' + r['red'], loop_msg(r)))
                    elif not r['timed_out'] and not r['stalled'] and not r['unsupported']:
                        viol.append((abort_class(r), 'simgrid-mc %s ended with status %s: %s' %
                                     (r['config'], r['rc'], abort_msg(r) if r['criticals'] else r['stderr_tail'][-300:])))
                    judged = False
                if r['truncated_paths']:
                    judged = False
        if judged:
            specs, owner = [], []
            for i, r in enumerate(mcs):
                if r['traces'] is not None and r['traces'] != len(r['complete_paths']):
                    viol.append(('trace_count_' + r['red'], '%s says %d explored traces but printed %d complete executions' %
                                 (r['config'], r['traces'], len(r['complete_paths']))))
                for p in r['complete_paths']:
                    specs.append(dict(path=mcd.path_str(mcd.parse_path(p)), mcinfo='1'))
                    owner.append((i, p))
            rws = mcd.run_walks(plan, scratch, specs, tag='p', timeout=300) if specs else []
            per = {i: [] for i in range(len(mcs))}
            for w, (i, p) in zip(rws, owner):
                nreplayed += 1
                r = mcs[i]
                if w['path_invalid'] or not w['complete']:
                    viol.append(('path_invalid_' + r['red'], '%s printed the complete execution %s, which walker D cannot '
                                 'replay to termination: %s' % (r['config'], p, w['path_invalid'] or 'not terminal')))
                    continue
                f = mcd.foata(w)
                if f is None:
                    continue
                per[i].append((f, p))
            for i, r in enumerate(mcs):
                seen = {}
                for f, p in per[i]:
                    if f in seen and r['red'] == 'odpor':
                        viol.append(('odpor_dup' + r['tag'], '%s explored two equivalent complete executions: %s and %s have the same '
                                     'Foata normal form under the checker\'s dependency relation (%d levels)' %
                                     (r['config'], seen[f], p, len(f))))
                    seen.setdefault(f, p)
                classes[i] = seen
                counts[r['config']] = (len(per[i]), len(seen))
            none_classes = classes.get(0, {})
            if mcs[0]['finished']:
                for i, r in enumerate(mcs):
                    if r['red'] != 'odpor' or not r['finished']:
                        continue
                    n_exec = len(per[i])
                    if n_exec != len(none_classes):
                        extra = [p for f, p in classes[i].items() if f not in none_classes]
                        miss = [p for f, p in none_classes.items() if f not in classes[i]]
                        viol.append(('odpor_count' + r['tag'], '%s explored %d complete executions (%d classes); the %d complete '
                                     'executions found without reduction fall into %d classes%s%s' %
                                     (r['config'], n_exec, len(classes[i]), len(per[0]), len(none_classes),
                                      ('; a class never explored by odpor: ' + miss[0]) if miss else '',
                                      ('; a class unknown to none: ' + extra[0]) if extra else '')))
        res = dict(W=dict(judged=judged, softlocked=softlocked, counts=counts),
                   mc=[self.summary(r) for r in mcs], viol=sorted(set(viol))[:12], nwalks=len(ws) + nreplayed,
                   walks_valid=nvalid, walk_steps=sum(w['steps'] for w in ws), ref_outcomes=[],
                   judged=judged, softlocked=softlocked, nclasses=len(none_classes) if none_classes is not None else 0,
                   paths_replayed=nreplayed,
                   odpor_execs=sum(counts[c][0] for c in counts if c.startswith('odpor')))
        res['hash'] = hash_of(res)
        return res

    def nontrivial(self, plan, res):
        return res['judged'] and res['nclasses'] >= 2

    def stats(self, plan, res):
        st = self.mc_stats(res)
        st['programs_judged'] = 1 if res['judged'] else 0
        st['programs_softlocked_outside_quantifier'] = 1 if res['softlocked'] else 0
        st['classes_without_reduction'] = res['nclasses']
        st['odpor_complete_executions'] = res['odpor_execs']
        st['executions_rebuilt'] = res['paths_replayed']
        st['probe_multi_class_programs'] = 1 if res['nclasses'] >= 2 else 0
        st['probe_reduction_effective'] = 1 if res['judged'] and res['W']['counts'] and \
            res['W']['counts'].get('none/DFS/none', (0, 0))[0] > res['nclasses'] else 0
        for f in plan.get('families', []):
            st['family_' + f] = 1
        return st


CHECK = C40()
