"""C21 Work is conserved and capacity is respected over time (engine A, monitor at every time advance)"""
import gen
import workload
from rng import Rng
from s4ucheck import S4UCheck

RT = 1e-9


class C21(S4UCheck):
    pid = 'C21'
    rule = ('seeded workloads (execs with bounds/priorities/threads, host-to-host comms on shared and fat-pipe links, disk '
            'I/Os, activity suspend/resume, priority changes, host speed and link bandwidth profiles in a fraction of runs), '
            'plus a "fairshare" class: k equal single-core execs started together on an n-core host. A monitor samples, at '
            'every time advance, the remaining work of every tracked activity and the load and current capacity of every '
            'host and link. Oracle: remaining work never increases, is <= the requested amount, reaches 0 exactly when the '
            'activity is reported FINISHED (and not before); load <= capacity*(1+1e-9) for every host and link at every '
            'date; in the fairshare class every exec finishes at W/(S*min(1,n/k)). non-trivial = at least two activities '
            'overlapped and at least 3 time advances; distinct = call sequence hash')
    assumptions = ['remaining work is sampled at time advances (the dates at which the kernel updates it)',
                   'zero-capacity profile values are not generated (listed finding C15 cap-zerocap-mm)']
    budgets = {'quick': dict(runs=2000, wall=50), 'thorough': dict(runs=50000, wall=800)}

    def gen(self, seed, tier):
        r = Rng(seed, 'c21')
        plan = gen.base_plan(seed, rng=r)
        plan['opts']['track'] = '1'
        if r.chance(0.25):
            plan['class'] = 'fairshare'
            n, k = r.randint(1, 4), r.randint(1, 6)
            S, W = r.choice([1e9, 2e9, 0.5e9]), r.randint(1, 8) * 0.25e9
            plan['hosts'] = [dict(name='h0', cores=n, speeds=[S])]
            plan['fair'] = dict(n=n, k=k, S=S, W=W)
            for i in range(k):
                plan['actors'].append(dict(id='a%d' % i, host='h0', ops=[['exec', W]]))
            return plan
        plan['class'] = 'mix'
        nh = workload.platform(plan, r)
        workload.actors(plan, r, nh, threads=True)
        plan['profiles'] = []
        if r.chance(0.35):
            seen = set()
            for _ in range(r.randint(1, 2)):
                if r.chance(0.5):
                    nm = 'h%d' % r.below(nh)
                    if ('h', nm) in seen:
                        continue
                    seen.add(('h', nm))
                    plan['profiles'].append(dict(on='host', kind='speed', name=nm, period=r.choice([-1.0, 4.0]),
                                                 points=sorted({r.randint(1, 8) * 0.25: r.choice([0.5, 0.25, 1.0])
                                                                for _ in range(r.randint(1, 3))}.items())))
                elif plan['links']:
                    nm = r.choice(plan['links'])['name']
                    if ('l', nm) in seen:
                        continue
                    seen.add(('l', nm))
                    plan['profiles'].append(dict(on='link', kind='bw', name=nm, period=-1.0,
                                                 points=sorted({r.randint(1, 8) * 0.25: r.choice([5e5, 2e6, 1e7])
                                                                for _ in range(r.randint(1, 2))}.items())))
            for p in plan['profiles']:
                p['points'] = [list(x) for x in p['points']]
        gen.knobs(plan, r, layout_p=0.0)
        return plan

    def oracle(self, plan, res):
        v = self.crash_violations(plan, res)
        if v:
            return v
        recs = self.recs(res)
        amount = {}
        for r in recs:
            if r.t == 'C' and r.kind in ('exec', 'exec_async', 'sendto', 'io', 'io_async'):
                name = '%s.%d.%d' % (r.aid, r.inc, r.idx)
                th = [int(x[8:]) for x in r.args if x.startswith('threads=')]
                th = th[0] if th else 1      # a multi-threaded exec has flops x threads of work
                if r.kind == 'exec':
                    amount[name] = float(r.args[0]) * th
                elif r.kind == 'exec_async':
                    amount[r.args[0]] = float(r.args[1]) * th
                elif r.kind == 'sendto':
                    amount[name if r.args[0] == '-' else r.args[0]] = float(r.args[3])
                elif r.kind == 'io':
                    amount[name] = float(r.args[1])
        last = {}
        prevcap = {h['name']: h['speeds'][0] * h.get('cores', 1) for h in plan['hosts']}
        prevcap.update({l['name']: l['bw'] for l in plan.get('links', [])})
        clock = 0.0
        nadv = 0
        overl = 0
        for r in recs:
            if r.t == 'S' and r.kind == 'time_advance':
                clock = r.clock
                nadv += 1
                cur = 0
            elif r.t == 'A':
                name, state = r.args[0], r.args[1]
                rem = float.fromhex(r.kv['rem'])
                if state == 'STARTED':
                    overl = max(overl, sum(1 for x in last.values() if x[1] == 'STARTED'))
                a = amount.get(name)
                if a is not None and rem > a * (1 + RT) + 1e-6:
                    v.append(('remaining_above_amount', '%s has %r left at %r but only %r was requested' % (name, rem, clock, a)))
                if name in last:
                    prem, pst, pclk = last[name]
                    if rem > prem * (1 + RT) + 1e-6:
                        v.append(('remaining_increased', 'remaining work of %s went from %r (t=%r) to %r (t=%r)' %
                                  (name, prem, pclk, rem, clock)))
                if state == 'FINISHED' and rem > 1e-6 + RT * (a or 0):
                    v.append(('finished_with_work_left', '%s reported FINISHED at %r with %r left' % (name, clock, rem)))
                if state == 'STARTED' and rem <= 0 and a:
                    pass
                last[name] = (rem, state, clock)
            elif r.t == 'L':
                for tok in r.args:
                    n, val = tok.split('=')
                    load, cap, on = val.split('/')
                    load, cap = float.fromhex(load), float.fromhex(cap)
                    # the load is that of the interval that just elapsed: its capacity is the one sampled at the
                    # previous time advance (a profile event at this date already changed the current capacity)
                    cap, prevcap[n] = prevcap.get(n, cap), cap
                    if load > cap * (1 + RT) + 1e-6:
                        v.append(('over_capacity', 'at %r resource %s carries %r for a capacity of %r' % (clock, n, load, cap)))
        if plan.get('class') == 'fairshare':
            f = plan['fair']
            want = f['W'] / (f['S'] * min(1.0, f['n'] / float(f['k'])))
            for r in recs:
                if r.t == 'R' and r.kind == 'exec' and not r.kv.get('exc'):
                    got = float.fromhex(r.kv['finish'])
                    if abs(got - want) > 2e-9 + 1e-9 * want:
                        v.append(('fair_share', '%d equal execs of %r flops on %d cores of speed %r: %s finished at %r, expected '
                                  '%r' % (f['k'], f['W'], f['n'], f['S'], r.aid, got, want)))
        res['_st'] = dict(nadv=nadv, overl=overl)
        return v[:6]

    def nontrivial(self, plan, res):
        if '_st' not in res:
            self.oracle(plan, res)
        st = res.get('_st', {})
        return st.get('nadv', 0) >= 3 and (st.get('overl', 0) >= 1 or plan.get('class') == 'fairshare')

    def stats(self, plan, res):
        st = self.base_stats(plan, res)
        s = res.get('_st', {})
        st['time_advances_monitored'] = s.get('nadv', 0)
        st['probe_fairshare_runs'] = 1 if plan.get('class') == 'fairshare' else 0
        st['probe_profile_runs'] = 1 if plan.get('profiles') else 0
        return st


CHECK = C21()
