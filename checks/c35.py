"""C35 private parts of partially shared buffers are transferred exactly (engine C)."""
import mpicommon as M


class C35(M.MpiCheck):
    pid = 'C35'
    rule = ('2..4 ranks, each with a send and a receive buffer from SMPI_PARTIAL_SHARED_MALLOC with seeded shared/private '
            'block layouts (aligned and unaligned, starting at 0 or not, ending at the size or not) and seeded '
            'smpi/shared-malloc-blocksize; messages start inside, before, exactly at and across private blocks, on the '
            'send side, the receive side or both, in every send mode and protocol (seeded thresholds). Oracle only over '
            'bytes private on both sides plus canaries in private regions outside the message. Non-trivial: at least one '
            'message touched a partially shared buffer. Distinct: event-order hash.')
    prof = dict(name='C35', np=(2, 4), nmsg=dict(quick=(3, 10), thorough=(3, 12)), ncomm=(0, 1), wild=0.3, probes=0.3,
                types='basic', psm=True, cap=20000)
    own = ('psm-',)
    probes = M.MpiCheck.probes + ('probe_cross_private_block',)
    budgets = {'quick': dict(runs=1200, wall=22), 'thorough': dict(runs=20000, wall=780)}

    def nontrivial(self, plan, res):
        return res['stats'].get('recvs_checked', 0) >= 1


CHECK = C35()
