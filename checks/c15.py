"""C15 Sharing solvers never exceed capacities (engine B: seeded LMM histories on the three solvers)."""
import lmmcommon as L
import refmaxmin as R


class C15(L.LmmCheck):
    pid = 'C15'
    solvers = ['maxmin', 'fairbottleneck', 'bmf']
    my_monitor_prop = 'C15'
    rule = ('seeded histories of <= 60 LMM API modifications (variable_new/expand incl. repeated expand/'
            'update bound, penalty, capacity/variable_free) interleaved with solves, on <= 12 constraints '
            '(SHARED/FATPIPE/NONLINEAR/WIFI with capacity callbacks, concurrency limits -1 or 1-4) and <= 20 variables, '
            'swarm-varied over solver (maxmin, fairbottleneck, bmf) and selective update; after every solve: weighted '
            'usage <= callback-adjusted capacity (sum for shared, max for fatpipe), suspended/disabled variables at 0, '
            '0 <= value <= bound, and a suspended activity stays suspended. Non-trivial: >= 2 solves on a system where '
            'some constraint carries >= 2 enabled variables; distinct: hash of (solver, selective, op-code sequence, '
            'final allocation).')
    assumptions = L.LmmCheck.base_assumptions

    def check_state(self, plan, res, st, req):
        if st['kind'] != 'solve':
            return []
        out = R.check_capacity(st, plan['solver'])
        # "disabled or suspended activities get rate 0": history-aware part
        for cls, msg in L.check_requested(st, req):
            if cls == 'suspended-runs':
                out.append((cls, msg))
        return out


CHECK = C15()
