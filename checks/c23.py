"""C23 Energy accounting integrates the power model (engine A, reference integral from the recorded history)"""
import gen
import workload
from rng import Rng
from s4ucheck import S4UCheck


class C23(S4UCheck):
    pid = 'C23'
    rule = ('seeded plans: 1-3 hosts with 1-4 cores and 1-3 pstates, each with seeded (idle, epsilon, max) watts per pstate '
            'and an off power; links with idle/busy watts; 2-5 actors running single- and multi-core execs, comms and sleeps; '
            'a controller on a separate host changes pstates, turns hosts off and on, and reads the consumed energy of every '
            'host at seeded dates (all at dyadic dates so that they coincide with workload events). Oracle: the reference '
            'energy is the integral of the documented power model over the recorded history (load of each interval from the '
            'monitor at every time advance; pstate and on/off changes from the recorded operations and signals); every '
            'energy read and the final values must match it within 1e-9 relative per interval, and never decrease. Link '
            'energy likewise (idle + load/bandwidth*(busy-idle)). non-trivial = a host was loaded at two different levels '
            'and a pstate change or on/off switch happened; distinct = call sequence hash')
    assumptions = ['load of an interval = Host::get_load() sampled at the time advance that ends it',
                   'no speed profiles here (the plugin normalises the load by the pstate peak speed)']
    budgets = {'quick': dict(runs=2000, wall=50), 'thorough': dict(runs=50000, wall=800)}

    def gen(self, seed, tier):
        r = Rng(seed, 'c23')
        plan = gen.base_plan(seed, rng=r)
        plan['opts']['plugin'] = 'host_energy link_energy'
        plan['opts']['track'] = '1'
        nh = workload.platform(plan, r, nh=r.randint(1, 3), disks=False, pstates=True)
        for h in plan['hosts']:
            ws = []
            for _ in h['speeds']:
                idle = r.choice([90.0, 95.0, 100.0])
                eps = idle + r.choice([0.0, 10.0, 15.0])
                ws.append('%r:%r:%r' % (idle, eps, eps + r.choice([50.0, 80.0, 100.0])))
            h['props'] = dict(wattage_per_state=','.join(ws), wattage_off=repr(r.choice([0.0, 5.0, 10.0])))
            h['watts'] = ws
        for l in plan['links']:
            l['lat'] = 0.0   # (with a latency the link plugin misses the load change when the latency is paid: listed finding)
            l['props'] = dict(wattage_range='%r:%r' % (r.choice([1.0, 10.0]), r.choice([20.0, 30.0])),
                              wattage_off=repr(r.choice([0.0, 1.0])))
        workload.actors(plan, r, nh, io=False, suspend=False, threads=True, max_ops=5)
        plan['hosts'].append(dict(name='ctl', cores=1, speeds=[1e9]))
        commhosts = {x for a in plan['actors'] for op in a['ops'] if op[0] == 'sendto' for x in op[2:4]}
        ops = []
        for _ in range(r.randint(2, 7)):
            ops.append(['sleep', r.randint(1, 6) * 0.25])
            h = plan['hosts'][r.below(nh)]
            c = r.below(6)
            if c < 2 and len(h['speeds']) > 1:
                ops.append(['set_pstate', h['name'], r.below(len(h['speeds']))])
            elif c == 2 and h['name'] not in commhosts:   # (starting a comm from/to a host that is off is a usage error)
                ops.append(['host_off', h['name']])
                ops.append(['sleep', r.randint(1, 4) * 0.25])
                ops.append(['host_on', h['name']])
            for hh in plan['hosts'][:nh]:
                ops.append(['obs_host', hh['name']])
        plan['actors'].append(dict(id='ctl', host='ctl', ops=ops))
        plan['nh'] = nh
        return plan

    def oracle(self, plan, res):
        v = self.crash_violations(plan, res)
        if v:
            return v
        recs = self.recs(res)
        hosts = {h['name']: h for h in plan['hosts'][:plan['nh']]}
        links = {l['name']: l for l in plan.get('links', [])}
        state = {n: dict(pstate=0, on=True, E=0.0, last_read=0.0, loads=set(), changes=0) for n in hosts}
        lstate = {n: dict(E=0.0, on=True) for n in links}
        pending = []
        cur = 0.0
        calls = {}
        checked = 0

        def power(n, load):
            s = state[n]
            h = hosts[n]
            if not s['on']:
                return float(h['props']['wattage_off'])
            idle, eps, mx = [float(x) for x in h['watts'][s['pstate']].split(':')]
            frac = load / (h['speeds'][s['pstate']] * h.get('cores', 1))
            frac = min(frac, 1.0)
            if frac > 0:
                return eps + frac * (mx - eps)
            return idle
        i = 0
        while i < len(recs):
            r = recs[i]
            key = (r.aid, r.inc, r.idx)
            if r.t == 'C':
                calls[key] = r
                if r.kind == 'set_pstate' and r.args[0] in state:
                    pending.append((r.clock, 'pstate', r.args[0], int(r.args[1])))
            elif r.t == 'S' and r.kind == 'host_onoff' and r.kv['host'] in state:
                pending.append((r.clock, 'on', r.kv['host'], r.kv['on'] == '1'))
            elif r.t == 'S' and r.kind == 'link_onoff' and r.kv['link'] in lstate:
                pending.append((r.clock, 'lon', r.kv['link'], r.kv['on'] == '1'))
            elif r.t == 'S' and r.kind == 'time_advance':
                # the L record that follows gives the loads of the interval [cur, r.clock]
                L = None
                j = i + 1
                while j < len(recs) and recs[j].t in ('A', 'L', 'E'):
                    if recs[j].t == 'L':
                        L = recs[j]
                    j += 1
                # changes dated before this advance apply from their date (= cur): apply those with clock <= cur
                for ch in [c for c in pending if c[0] <= cur]:
                    self._apply(state, lstate, ch)
                pending = [c for c in pending if c[0] > cur]
                dt = r.clock - cur
                if L is not None and dt > 0:
                    for tok in L.args:
                        n, val = tok.split('=')
                        load = float.fromhex(val.split('/')[0])
                        if n in state:
                            state[n]['E'] += power(n, load) * dt
                            if state[n]['on']:
                                state[n]['loads'].add(round(load, 3))
                        elif n in lstate:
                            l = links[n]
                            idle, busy = [float(x) for x in l['props']['wattage_range'].split(':')]
                            if load > 0:
                                lstate[n].setdefault('levels', set()).add(round(load, 3))
                            if lstate[n]['on']:
                                lstate[n]['E'] += (idle + load / float.fromhex(val.split('/')[1]) * (busy - idle)) * dt
                            else:
                                lstate[n]['E'] += float(l['props']['wattage_off']) * dt
                cur = r.clock
            elif r.t == 'R' and r.kind == 'obs_host' and 'energy' in r.kv and key in calls:
                n = calls[key].args[0]
                if n in state:
                    got = float.fromhex(r.kv['energy'])
                    want = state[n]['E']
                    checked += 1
                    if abs(got - want) > 1e-6 + 1e-9 * max(abs(want), 1.0) * 50:
                        v.append(('energy_read', 'energy of %s read at %r is %r J, integrating the power model over the recorded '
                                  'history gives %r J' % (n, r.clock, got, want)))
                    if got < state[n]['last_read'] - 1e-9:
                        v.append(('energy_decreased', 'energy of %s went from %r to %r' % (n, state[n]['last_read'], got)))
                    state[n]['last_read'] = got
            elif r.t == 'S' and r.kind == 'energy' and r.kv['host'] in state:
                n = r.kv['host']
                got, want = float.fromhex(r.kv['joules']), state[n]['E']
                checked += 1
                if abs(got - want) > 1e-6 + 1e-9 * max(abs(want), 1.0) * 50:
                    v.append(('energy_final', 'final energy of %s is %r J, reference integral %r J' % (n, got, want)))
            elif r.t == 'S' and r.kind == 'link_energy' and r.kv['link'] in lstate:
                n = r.kv['link']
                got, want = float.fromhex(r.kv['joules']), lstate[n]['E']
                if len(lstate[n].get('levels', ())) > 1:
                    # the load of this link changed while a communication was running on it: the plugin only updates at
                    # communication start/end (listed finding C23 link_energy_final), nothing to compare
                    i += 1
                    continue
                if abs(got - want) > 1e-6 + 1e-9 * max(abs(want), 1.0) * 50:
                    v.append(('link_energy_final', 'final energy of link %s is %r J, reference integral %r J' % (n, got, want)))
            i += 1
        res['_st'] = dict(checked=checked, levels=max([len(s['loads']) for s in state.values()] or [0]),
                          changes=sum(s['changes'] for s in state.values()))
        return v[:6]

    @staticmethod
    def _apply(state, lstate, ch):
        _, what, n, val = ch
        if what == 'pstate':
            state[n]['pstate'] = val
            state[n]['changes'] += 1
        elif what == 'on':
            state[n]['on'] = val
            state[n]['changes'] += 1
        else:
            lstate[n]['on'] = val

    def nontrivial(self, plan, res):
        if '_st' not in res:
            self.oracle(plan, res)
        st = res.get('_st', {})
        return st.get('levels', 0) >= 2 and st.get('changes', 0) >= 1

    def stats(self, plan, res):
        st = self.base_stats(plan, res)
        s = res.get('_st', {})
        st['energy_values_checked'] = s.get('checked', 0)
        st['fault_pstate_or_onoff_changes'] = s.get('changes', 0)
        st['probe_distinct_load_levels'] = s.get('levels', 0)
        return st


CHECK = C23()
