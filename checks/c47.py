"""C47 Paje traces are well formed (engine A plans incl. fault campaigns, run with tracing enabled)"""
import importlib
import os

import dst
import paje
import s4u
from rng import Rng
from s4ucheck import S4UCheck

SOURCES = ['c11', 'c11', 'c08', 'c21', 'c03', 'c12', 'c09']
OPTS = ['tracing/actor:yes', 'tracing/uncategorized:yes', 'tracing/platform:yes', 'tracing/categorized:yes',
        'tracing/basic:yes', 'tracing/platform/topology:no']
UTIL = ('tracing/uncategorized:yes', 'tracing/categorized:yes')


class C47(S4UCheck):
    pid = 'C47'
    rule = ('seeded engine-A plans drawn from the lifecycle/fault campaign (kills, kill times, host off/on with auto-restart, '
            'suspends), the mailbox, message-queue, timed-wait, timing and workload campaigns, executed with tracing on and a '
            'seeded subset of tracing options (actor, uncategorized, categorized, platform, basic, display-sizes, '
            'topology). Oracle: a Paje checker driven by the trace\'s own %EventDef header: every '
            'container, type and entity value is defined before it is used; timestamps never decrease in file order; no '
            'event names a container after its destruction (nor creates a child in it); state pops never exceed pushes per '
            '(container, state type). non-trivial = the trace has actor containers created and destroyed during the run and '
            'at least 5 state pushes; distinct = call sequence hash + options')
    assumptions = ['SMPI traces (engine C) are not covered by this check',
                   'states still pushed when a container is destroyed are counted (probe) but not reported: the statement '
                   'asks for balance, which an actor killed inside an operation cannot provide']
    budgets = {'quick': dict(runs=1500, wall=50), 'thorough': dict(runs=40000, wall=800)}

    def gen_neardates(self, seed, r):
        """resource-utilisation events are written with the date of the last rate change, i.e. in the past: activities
        that end a fraction of a microsecond (the resolution of the printed dates) after another one starts"""
        import gen
        nh = r.randint(2, 3)
        plan = gen.base_plan(seed, nhosts=nh, rng=r)
        plan['source'] = 'neardates'
        plan['class'] = 'neardates'
        for i in range(r.randint(2, 4)):
            h = 'h%d' % (i % nh)
            base = r.randint(1, 3)
            ops = []
            if r.chance(0.5):
                ops.append(['sleep', float(base)])
                ops.append(['exec', r.randint(1, 3) * 1e9])
            else:
                # ends k/10 microseconds after the date `base`
                ops.append(['exec', base * 1e9 + r.randint(1, 19) * 50.0])
                if r.chance(0.5):
                    ops.append(['exec', r.randint(1, 2) * 1e9])
            plan['actors'].append(dict(id='a%d' % i, host=h, ops=ops))
        plan['trace_opts'] = sorted(set(['tracing/uncategorized:yes'] + r.sample(
            ['tracing/platform:yes', 'tracing/categorized:yes', 'tracing/platform/topology:no'], r.randint(0, 2))))
        return plan

    def gen(self, seed, tier):
        r = Rng(seed, 'c47')
        if r.chance(0.15):
            return self.gen_neardates(seed, r)
        src = r.choice(SOURCES)
        plan = importlib.import_module(src).CHECK.gen(seed, tier)
        plan['source'] = src
        for k in ('mode', 'walk', 'walkseed', 'maxsteps', 'track'):
            plan['opts'].pop(k, None)
        opts = r.sample(OPTS, r.randint(1, 5))
        if r.chance(0.7) and 'tracing/actor:yes' not in opts:
            opts.append('tracing/actor:yes')
        kills = any(a.get('killtime') is not None or a.get('daemon') for a in plan['actors']) or \
            any(op[0] in ('kill', 'kill_all', 'host_off', 'exit', 'create', 'set_kill_time') for a in plan['actors'] for op in a['ops'])
        if kills:
            # resource-utilisation events are dated in the past (last update of the action): with containers created
            # or destroyed during the run they end up after later events (listed finding C47 time_backwards)
            opts = [o for o in opts if o not in UTIL]
        if plan.get('class') in ('perm', 'perm_late'):
            # the receiver state of an eager send to a permanent receiver is popped without having been pushed
            # (listed finding C47 pop_without_push): keep those plans out of the actor-state traces
            opts = [o for o in opts if o != 'tracing/actor:yes'] or ['tracing/platform:yes']
        if 'tracing/disable_power:yes' in opts or 'tracing/disable_link:yes' in opts:
            # utilisation tracing with the corresponding variables disabled throws a TracingError at the first exec/comm
            # (option combination rejected by the library, not a trace): not combined
            opts = [o for o in opts if o not in UTIL]
        plan['trace_opts'] = sorted(opts)
        return plan

    def run(self, plan, scratch):
        tf = '%s/trace.%d' % (scratch, os.getpid())
        args = ['--cfg=tracing:yes', '--cfg=tracing/filename:' + tf] + ['--cfg=' + o for o in sorted(set(plan['trace_opts']))]
        res = s4u.run_plan(plan, scratch, extra_args=args, timeout=self.run_timeout)
        try:
            res['trace'] = open(tf, errors='replace').read()
            os.unlink(tf)
        except OSError:
            res['trace'] = None
        res['hash'] = dst.sha(res['log'], res['rc'], res['trace'] or '')
        return res

    def oracle(self, plan, res):
        if any(r.t == 'S' and r.kind == 'deadlock' for r in self.recs(res)):
            return []   # a deadlocked simulation is a user error and its trace is cut short: not judged
        v = self.crash_violations(plan, res)
        if v:
            return v
        if res['trace'] is None:
            return [('no_trace', 'tracing was enabled but no trace file was produced')]
        viol, st = paje.check(res['trace'])
        res['_st'] = st
        return viol

    def nontrivial(self, plan, res):
        st = res.get('_st') or {}
        return st.get('destroyed', 0) > 0 and st.get('pushes', 0) >= 5

    def signature(self, plan, res):
        return dst.sha(super().signature(plan, res), str(plan['trace_opts']))

    def stats(self, plan, res):
        st = self.base_stats(plan, res)
        s = res.get('_st') or {}
        st['trace_events'] = s.get('events', 0)
        st['probe_state_pushes'] = s.get('pushes', 0)
        st['probe_containers_destroyed'] = s.get('destroyed', 0)
        st['probe_states_left_pushed_at_destroy'] = s.get('left_pushed', 0)
        st['probe_links'] = s.get('links', 0)
        st['source_' + plan.get('source', '?')] = 1
        return st


CHECK = C47()
