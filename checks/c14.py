"""C14 Real runs conform to the reference interleaving semantics (engines A and A')"""
import gen
from rng import Rng
from s4ucheck import S4UCheck
from c08 import COMM_CLASSES


class C14(S4UCheck):
    pid = 'C14'
    rule = ('seeded synchronisation-only programs: <=5 actors, <=12 ops each over mutexes (recursive or not), semaphores, '
            'condition variables, barriers and message queues mixed in one program, including programs with reachable '
            'deadlocks (lock-order inversion, missing release, barrier larger than the number of callers, get without put); '
            'each plan runs under raw, boost or thread factory, with H2 sub-round permutations, or in walk mode (seeded '
            'uniform/sticky/PCT scheduler in the MC computational model). Oracle: refinement - the observed request order '
            'is replayed through the reference model, every observed result must be the model\'s, the final blocked set '
            'must equal the model\'s, and a deadlock is reported iff the model state is a deadlock. non-trivial = at '
            'least two kinds of objects used with some blocking; distinct = hash of the global call/step sequence')
    assumptions = ['order of call records inside a sub-round = kernel handling order (sequential factories)',
                   'ties between timeouts and grants accepted both ways']
    budgets = {'quick': dict(runs=2500, wall=55), 'thorough': dict(runs=60000, wall=800)}

    def gen(self, seed, tier):
        r = Rng(seed, 'c14')
        plan = gen.base_plan(seed, nhosts=r.randint(1, 3), rng=r)
        nm, ns, nc, nb, nq = r.randint(1, 2), r.randint(0, 2), r.randint(0, 1), r.randint(0, 1), r.randint(0, 2)
        nact = r.randint(2, 5)
        muts = [['m%d' % i, 1 if r.chance(0.4) else 0] for i in range(nm + nc)]
        plan['objects'] = dict(mutex=muts, sem=[['s%d' % i, r.choice([0, 1, 1, 2])] for i in range(ns)],
                               cv=['c%d' % i for i in range(nc)],
                               bar=[['b%d' % i, r.randint(1, nact + (1 if r.chance(0.15) else 0))] for i in range(nb)],
                               mq=['q%d' % i for i in range(nq)])
        for i in range(nc):
            muts[nm + i][1] = 0   # the mutex of a condvar is not recursive
        kinds = ['mutex'] * 3 + (['sem'] * 2 if ns else []) + (['cv'] * 2 if nc else []) + (['bar'] if nb else []) + \
                (['mq'] * 2 if nq else [])
        walk = r.chance(0.35)
        for ai in range(nact):
            ops = []
            budget = r.randint(3, 12)
            while len(ops) < budget:
                kd = r.choice(kinds)
                if r.chance(0.4):
                    ops.append(['sleep', gen.think(r, 0.2)])
                if kd == 'mutex':
                    order = sorted(r.sample(range(nm), r.randint(1, nm)))
                    if r.chance(0.2):
                        order.reverse()      # lock-order inversion: reachable deadlock
                    names = ['m%d' % i for i in order]
                    taken = []
                    for n in names:
                        ops.append([r.choice(['lock', 'lock', 'trylock']), n])
                        taken.append(n)
                        if muts[int(n[1:])][1] and r.chance(0.3):
                            ops.append([r.choice(['lock', 'trylock']), n])
                            taken.append(n)
                    if r.chance(0.5):
                        ops.append(['sleep', gen.think(r, 0.3)])
                    for n in reversed(taken):
                        if not r.chance(0.05):   # a missing release now and then
                            ops.append(['unlock', n])
                elif kd == 'sem':
                    s = 's%d' % r.below(ns)
                    c = r.below(4)
                    if c == 0:
                        ops.append(['acquire', s])
                    elif c == 1:
                        ops.append(['acquire_timeout', s, r.randint(0, 8) * 0.25])
                    else:
                        ops.append(['release', s])
                elif kd == 'cv':
                    i = r.below(nc)
                    cv, m = 'c%d' % i, 'm%d' % (nm + i)
                    if r.chance(0.5):
                        ops.append(['lock', m])
                        ops.append(r.choice([['cvwait', cv, m], ['cvwait_for', cv, m, r.randint(0, 8) * 0.25]]))
                        ops.append(['unlock', m])
                    else:
                        ops.append([r.choice(['notify_one', 'notify_all']), cv])
                elif kd == 'bar':
                    ops.append(['barrier', 'b0'])
                elif kd == 'mq' and not walk:
                    q = 'q%d' % r.below(nq)
                    ops.append([r.choice(['mput', 'mget']), q])
            plan['actors'].append(dict(id='a%d' % ai, host='h%d' % r.below(len(plan['hosts'])), ops=ops))
        if walk:
            plan['objects']['mq'] = []
        gen.knobs(plan, r, h2_p=0.6, walk_p=1.0 if walk else 0.0)
        return plan

    def oracle(self, plan, res):
        return self.sync_violations(plan, res, ('mutex', 'trylock', 'sem', 'cv', 'barrier', 'walk') + COMM_CLASSES)

    def nontrivial(self, plan, res):
        st = self.model(plan, res).stats
        used = sum(1 for k in ('contended_lock', 'sem_blocked', 'cv_wait', 'bar_groups', 'mbox_recv_first') if st[k] > 0)
        return used >= 2

    def stats(self, plan, res):
        st = self.base_stats(plan, res)
        ms = self.model(plan, res).stats
        for k in ('contended_lock', 'sem_blocked', 'cv_wait', 'cv_timeout', 'bar_groups', 'tie', 'recursive'):
            st['probe_' + k] = ms[k]
        st['walk_runs'] = 1 if plan['opts'].get('mode') == 'walk' else 0
        st['factory_' + plan['cfg'][0].split(':')[1]] = 1
        return st


CHECK = C14()
