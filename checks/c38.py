"""C38 Model-checker reductions are sound (engine D: simgrid-mc is the system under test; walker D + reference model
are the oracle)"""
import os

import mcd
import mcdgen
from mcdcheck import EngineDCheck, abort_class, abort_msg, hash_of, loop_msg
from rng import Rng


class C38(EngineDCheck):
    pid = 'C38'
    rule = ('seeded programs in the checker\'s computational model: 2-4 actors (+1 created at run time), <= 8 ops each, '
            '1-3 families among mutex / semaphore / condvar / barrier / mailbox (blocking, async+wait/test/wait_any/'
            'test_any, iprobe) / actor create-join-sleep-exit / MC_random, optional assertions on the result of the '
            'previous op; size bounded by the multinomial of the transitions per actor (<= 150 for 55 % of the programs: '
            'those also get the unreduced exploration). Each program: N seeded walks of walker D (uniform / sticky / '
            'pct1-3 / first), each validated by the reference model; then simgrid-mc with reduction none (small '
            'programs), dpor, sdpor, odpor under DFS, one seeded extra configuration among BeFS x {none,uniform} / '
            'DFS x uniform, and udpor on its subset, all with max-errors=-1 so that every terminal state is visited. '
            'Oracle: REF = outcomes / deadlock signatures / assertion failures reached by any walk or any exploration '
            '(each was really executed); every exploration that finished must have reached all of REF; exit status '
            '!= 0 iff it printed a report; up to 3 complete paths printed by each reduced exploration are replayed by '
            'walker D: executable, terminal, outcome among those the application reported, valid for the reference '
            'model. An exploration cut by the wall cap or refused with a clear "not supported" message gives no '
            'verdict. non-trivial = at least 2 terminal outcomes or a reachable deadlock / assertion failure; '
            'distinct = hash of reference sets and per-configuration digests')
    assumptions = ['results compared are those returned by a transition (try_lock, timeout flags, payloads, test/iprobe '
                   'answers, waitany index, MC_random value, exceptions); observations of shared state between two '
                   'transitions are outside the checker\'s computational model and are dropped',
                   'a deadlock is identified by the status lines the kernel prints for the blocked actors '
                   '(EngineImpl::display_all_actor_status), the same function on both sides',
                   'seeded walks give a lower bound of the reachable outcomes; the union with what any exploration '
                   'reached is the reference (every element was produced by a real execution)',
                   'explorations that hit the wall cap (none: 90 s, reduced: 60 s) are not judged']
    budgets = {'quick': dict(runs=36, wall=40), 'thorough': dict(runs=900, wall=900)}
    replay_paths_per_config = 3

    def gen(self, seed, tier):
        r = Rng(seed, 'c38')
        small = r.chance(0.55)
        fams = os.environ.get('VERIF_ENGD_FAMILIES')   # sensitivity runs only: focus the generator
        plan = mcdgen.program(r, seed, 150 if small else (3000 if tier == 'quick' else 20000), min_bound=10 if small else 150,
                              families=fams.split(',') if fams else None)
        plan['walks'] = mcdgen.walk_specs(r, 24 if tier == 'quick' else 64)
        cfgs = []
        if plan['bound'] <= 200:
            cfgs.append(dict(red='none', algo='DFS', strategy='none'))
        for red in ('dpor', 'sdpor', 'odpor'):
            cfgs.append(dict(red=red, algo='DFS', strategy='none'))
        reds = ['dpor', 'sdpor', 'odpor'] + (['none'] if plan['bound'] <= 60 else [])
        x = r.below(3)
        if x == 0:
            cfgs.append(dict(red=r.choice(reds), algo='BeFS', strategy='none'))
        elif x == 1:
            cfgs.append(dict(red=r.choice(reds), algo='BeFS', strategy='uniform', randseed=r.randint(1, 10 ** 6)))
        else:
            cfgs.append(dict(red=r.choice(reds), algo='DFS', strategy='uniform', randseed=r.randint(1, 10 ** 6)))
        if mcdgen.udpor_subset(plan):
            cfgs.append(dict(red='udpor', algo='DFS', strategy='none'))
        plan['mc'] = cfgs
        return plan

    def run(self, plan, scratch):
        ws, viol, nvalid = self.walks(plan, scratch, plan['walks'])
        W_term = set(w['outcome'] for w in ws if w['complete'])
        W_dl = set(w['sig'] for w in ws if w['deadlock'])
        W_as = set(w['assert_key'] for w in ws if w['assert_key'])
        mcs = [self.explore(plan, scratch, cfg, 'm%d' % i) for i, cfg in enumerate(plan['mc'])]
        ref_term, ref_dl, ref_as = set(W_term), set(W_dl), set(W_as)
        who = {}
        for x in W_term | W_dl | W_as:
            who[x] = 'a seeded walk'
        for r in mcs:
            for x in list(r['outcomes']) + list(r['dl_sigs']) + list(r['asserts']):
                who.setdefault(x, 'the exploration ' + r['config'])
            ref_term |= r['outcomes']
            ref_dl |= r['dl_sigs']
            ref_as |= r['asserts']
        for r in mcs:
            red = r['red']
            if r['illegal']:
                viol.append(('illegal_value_' + red, '%s made the application take a value that the transition does not offer: %s'
                             % (r['config'], '; '.join(r['illegal']))))
            if not r['finished']:
                if r['stalled']:
                    viol.append(('stall_' + red, 'simgrid-mc %s: checker and application all sleep without consuming cpu '
                                 '(each waits for the other)' % r['config']))
                elif r['looping']:
                    viol.append(('loop_' + red, loop_msg(r)))
                elif r['stopped_at_error']:
                    pass   # BeFS stops at the first assertion failure whatever max-errors says: not judged
                elif not r['timed_out'] and not r['unsupported']:
                    viol.append((abort_class(r), 'simgrid-mc %s ended with status %s without finishing the exploration: %s'
                                 % (r['config'], r['rc'], abort_msg(r) if r['criticals'] else r['stderr_tail'][-300:])))
                continue
            if r['empty_program']:
                if ref_dl:
                    viol.append(('miss_initial_deadlock', 'simgrid-mc (%s) says "Your program did not do any transition before '
                                 'terminating. I won\'t try to verify it, but that\'s OK." and exits with status %s, but the '
                                 'actors are alive and blocked for ever in the initial state: [%s]' %
                                 (r['config'], r['rc'], _show(sorted(ref_dl, key=str)[0]))))
                continue
            tag = red + ('_befs' if r['algo'] == 'BeFS' and red != 'udpor' else '') + \
                ('_uniform' if r['strategy'] == 'uniform' else '')
            if r['asserts'] and red != 'none':
                # after an assertion failure the reductions go on with a placeholder transition (max-errors != 0): what
                # they miss from there on is kept apart from what they miss on failure-free programs
                tag = 'after_assert_' + tag
            for name, ref, got in (('outcome', ref_term, r['outcomes']), ('deadlock', ref_dl, r['dl_sigs']),
                                   ('assert', ref_as, r['asserts'])):
                miss = sorted(ref - got, key=str)
                if miss:
                    viol.append(('miss_%s_%s' % (name, tag),
                                 '%s finished (%s states, %s traces, exit %s) with %d %s(s) but missed %d reachable one(s), '
                                 'e.g. [%s] reached by %s' % (r['config'], r['states'], r['traces'], r['rc'], len(got),
                                                              name, len(miss), _show(miss[0]), who[miss[0]])))
            has_report = bool(r['reports'])
            if (r['rc'] != 0) != has_report:
                viol.append(('verdict_' + red, '%s: exit status %s but %d failure report(s) printed' %
                             (r['config'], r['rc'], len(r['reports']))))
            kinds = set(x['kind'] for x in r['reports'])
            if bool(r['asserts']) != ('assert' in kinds):
                viol.append(('verdict_' + red, '%s: the application hit %d distinct assertion failure(s) but the checker '
                             'printed %s' % (r['config'], len(r['asserts']), sorted(kinds) or 'no report')))
        # complete paths printed by the reduced explorations: executable, terminal, outcome known, valid for the model
        specs, owner = [], []
        for r in mcs:
            if r['red'] in ('none', 'udpor') or not r['finished']:
                continue
            for p in sorted(set(r['complete_paths']))[:self.replay_paths_per_config]:
                specs.append(dict(path=mcd.path_str(mcd.parse_path(p))))
                owner.append((r, p))
        nreplayed = 0
        if specs:
            rws, rviol, _ = self.walks(plan, scratch, specs, tag='p')
            viol += rviol
            for w, (r, p) in zip(rws, owner):
                nreplayed += 1
                if w['path_invalid'] or not w['complete']:
                    viol.append(('path_invalid_' + r['red'], '%s printed the complete execution %s, which walker D cannot '
                                 'replay to termination: %s' % (r['config'], p, w['path_invalid'] or
                                                               ('deadlock' if w['deadlock'] else 'not terminal'))))
                elif w['outcome'] not in r['outcomes']:
                    viol.append(('path_outcome_' + r['red'], '%s: replaying its complete execution %s gives an outcome '
                                 'that the application never reported under the checker: [%s]' %
                                 (r['config'], p, w['outcome'])))
        res = dict(W=dict(term=sorted(W_term), dl=sorted('; '.join(s) for s in W_dl), asserts=sorted(W_as)),
                   mc=[self.summary(r) for r in mcs], viol=sorted(set(viol))[:12], nwalks=len(ws) + nreplayed,
                   walks_valid=nvalid, walk_steps=sum(w['steps'] for w in ws),
                   ref_outcomes=sorted(ref_term), ref_dl=len(ref_dl), ref_asserts=len(ref_as),
                   walk_found=len(W_term) + len(W_dl) + len(W_as), paths_replayed=nreplayed)
        res['hash'] = hash_of(res)
        return res

    def nontrivial(self, plan, res):
        return len(res['ref_outcomes']) >= 2 or res['ref_dl'] > 0 or res['ref_asserts'] > 0

    def stats(self, plan, res):
        st = self.mc_stats(res)
        st['probe_deadlock_programs'] = 1 if res['ref_dl'] else 0
        st['probe_assert_failure_programs'] = 1 if res['ref_asserts'] else 0
        st['probe_multi_outcome_programs'] = 1 if len(res['ref_outcomes']) >= 2 else 0
        st['probe_none_finished'] = sum(1 for s in res['mc'] if s['config'].startswith('none/') and s['finished'])
        st['probe_udpor_finished'] = sum(1 for s in res['mc'] if s['config'].startswith('udpor/') and s['finished'])
        st['probe_befs_runs'] = sum(1 for s in res['mc'] if '/BeFS/' in s['config'])
        st['probe_uniform_strategy_runs'] = sum(1 for s in res['mc'] if s['config'].endswith('/uniform'))
        st['probe_walks_missed_something'] = 1 if (len(res['ref_outcomes']) + res['ref_dl'] + res['ref_asserts'] >
                                                   res['walk_found']) else 0
        st['paths_replayed'] = res['paths_replayed']
        for f in plan.get('families', []):
            st['family_' + f] = 1
        return st


def _show(x):
    if isinstance(x, tuple):
        return '; '.join(x)
    return str(x)


CHECK = C38()
