"""C39 Declared-independent transitions commute (engine A' walk mode: re-execution of a prefix + both orders)"""
import importlib
import re

import dst
import gen
import s4u
from c42 import C42, mcinfo_of
from rng import Rng
from s4ucheck import S4UCheck

SOURCES = ['c04', 'c05', 'c06', 'c06', 'c07', 'c08', 'c08', 'c11w']
COMM_ID = re.compile(r'comm_id:_?\d+|comm=\d+|comm_id=\d+')
# the observer of a wait/test prints the mailbox the communication is still queued in: '-' with an id that depends on
# which side arrived first once the communication is matched (not part of the kernel state)
WAIT_MBOX = re.compile(r'mbox:-\(id:\d+\)')
# the harness names the n-th instance of a template actor NAME#n from a counter bumped in the creator's user code
INSTANCE = re.compile(r'#\d+')


def strip_ids(s):
    """communication ids come from a global counter: two independent transitions that each create one get swapped ids"""
    return INSTANCE.sub('', WAIT_MBOX.sub('mbox:-', COMM_ID.sub('comm:X', s)))


def steps_of(recs):
    out = []
    for r in recs:
        if r.t == 'S' and r.kind == 'step':
            enc = [(int(x.split(':')[0]), int(x.split(':')[1])) for x in r.kv.get('enc', '').split(',') if x]
            ent = dict((int(x.split(':')[0]), x.split(':', 1)[1]) for x in r.kv.get('ent', '').split(',') if ':' in x)
            out.append(dict(pid=int(r.kv['pid']), tc=int(r.kv['tc']), enc=enc, ent=ent, tr=r.kv.get('tr', '')))
    return out


def family(kind):
    """CONDVAR_WAIT -> CONDVAR, MUTEX_ASYNC_LOCK -> MUTEX, CommWait -> COMM, ActorJoin -> ACTOR ..."""
    if not kind or kind == '-':
        return None
    if '_' in kind:
        return kind.split('_')[0]
    for p in ('Comm', 'Actor', 'Mess', 'Random', 'Activity'):
        if kind.startswith(p):
            return p.upper()
    return kind


def after_path(recs):
    """(fingerprint at the end of the path, canonical list of what happens afterwards)"""
    fpr, rest, seen, infp = [], [], False, False
    for r in recs:
        if r.t == 'S' and r.kind == 'path_end':
            seen, infp = True, True
            continue
        if not seen:
            continue
        if infp and r.t == 'F':
            fpr.append(strip_ids(' '.join(r.raw.split(' ')[1:])))
            continue
        infp = False
        if r.t in ('C', 'R'):
            rest.append(strip_ids('%s %s %d %d %s %s' % (r.t, r.aid, r.inc, r.idx, r.kind, ' '.join(r.args))))
        elif r.t == 'S' and r.kind == 'step':
            rest.append(strip_ids('step %s tc=%s en=%s tr=%s' % (r.kv.get('aid'), r.kv.get('tc'), r.kv.get('en'), r.kv.get('tr'))))
        elif r.t == 'S' and r.kind in ('deadlock', 'blocked', 'actor_end', 'actor_term', 'on_exit'):
            rest.append(strip_ids('%s %s' % (r.kind, ' '.join('%s=%s' % kv for kv in sorted(r.kv.items()) if kv[0] != 'pid'))))
        elif r.t == 'F':
            rest.append(strip_ids(' '.join(r.raw.split(' '))))
    return fpr, rest


class C39(S4UCheck):
    pid = 'C39'
    rule = ('seeded programs (generators of C04-C08 and an actor creation/join mix) are first executed by the in-process seeded '
            'scheduler in the model checker\'s computational model (up to 30 transitions, real mc::Transition objects rebuilt '
            'through serialize/deserialize). Then, for up to 3 (quick) / 8 (thorough) states of that execution in which two '
            'different actors a and b are enabled, the prefix is re-executed in fresh processes followed by a then b, and by '
            'b then a, and both runs continue with the same seeded schedule for up to 20 more transitions. Oracle: when the '
            'checker declares the two executed transitions independent (Transition::dispatch_depends on the real objects), '
            'then b is still enabled after a and a after b, the kernel-state fingerprint after both orders is the same '
            '(mutex owners, semaphore capacities, mailbox queue lengths, every actor\'s pending simcall and enabledness; '
            'communication ids renamed), and everything that happens afterwards under the common schedule is identical '
            '(every call, return value, enabled set and transition). Symmetry: for every pair of transitions of the first '
            'execution, t1.depends(t2) == t2.depends(t1). non-trivial = at least one independent pair was swapped; '
            'distinct = (transition types of the swapped pair, program)')
    assumptions = ['state equality is observed through the fingerprint and the common continuation, not through memory '
                   'comparison', 'pairs in which both transitions create an actor are skipped (the pids of the children '
                   'are swapped: equal up to renaming only)']
    budgets = {'quick': dict(runs=700, wall=55), 'thorough': dict(runs=20000, wall=900)}
    real_vs_stub = C42.real_vs_stub

    def gen(self, seed, tier):
        r = Rng(seed, 'c39')
        src = r.choice(SOURCES)
        if src == 'c11w':
            plan = C42.lifecycle_plan(r, seed)
        else:
            plan = importlib.import_module(src).CHECK.gen(seed, tier)
        plan['source'] = src
        if src == 'c06' and r.chance(0.6):
            # every condition on one mutex (not_full / not_empty): waits on different conditions then compete for it
            for a in plan['actors']:
                for op in a['ops']:
                    for i, x in enumerate(op):
                        if isinstance(x, str) and x.startswith('m') and x[1:].isdigit():
                            op[i] = 'm0'
        for a in plan['actors']:
            # Mailbox::set_receiver is no transition of the checker's model (outside of the programs of C38): executed in
            # the invisible tail of the previous transition, it would make that one depend on every send to the mailbox
            a['ops'] = [op for op in a['ops'] if op[0] != 'set_receiver']
        o = plan['opts']
        for k in ('h2', 'layout', 'aslr', 'track'):
            o.pop(k, None)
        o.update(mode='walk', walk=r.choice(['uniform', 'uniform', 'sticky', 'pct2']), walkseed=str(r.randint(1, 2 ** 31)),
                 maxsteps='30', mcinfo='1')
        plan['swaps'] = [dict(at=r.below(10000), other=r.below(1000), tc=r.below(1000)) for _ in range(3 if tier == 'quick' else 8)]
        plan['suffix_seed'] = r.randint(1, 2 ** 31)
        return plan

    def run(self, plan, scratch):
        base = dict(plan)
        base.pop('swaps', None)
        first = s4u.run_plan(base, scratch, timeout=self.run_timeout)
        out = dict(first)
        out['pairs'] = []
        if first['timed_out'] or first['rc'] != 0:
            out['hash'] = dst.sha(first['log'])
            return out
        steps = steps_of(s4u.parse_log(first['log']))
        cands = [k for k, st in enumerate(steps) if len(st['enc']) >= 2]
        done = set()
        for sw in plan.get('swaps', []):
            if not cands:
                break
            k = cands[sw['at'] % len(cands)]
            st = steps[k]
            others = [(p, m) for p, m in st['enc'] if p != st['pid']]
            # two swaps out of three go to pairs whose pending transitions are of one family (two waits on conditions, two
            # mutex requests, two communications...): the pairs on which a wrong "independent" verdict is most likely
            if sw['at'] % 3 != 0:
                fam = [(kk, p, m) for kk in cands for p, m in steps[kk]['enc']
                       if p != steps[kk]['pid'] and family(steps[kk]['ent'].get(p)) == family(steps[kk]['ent'].get(steps[kk]['pid']))
                       and family(steps[kk]['ent'].get(p)) is not None]
                if fam:
                    k, bp0, bm0 = fam[sw['other'] % len(fam)]
                    st = steps[k]
                    others = [(bp0, bm0)]
            bp, bm = others[sw['other'] % len(others)]
            btc = sw['tc'] % bm
            if (k, bp, btc) in done:
                continue
            done.add((k, bp, btc))
            prefix = ''.join('%d/%d;' % (s['pid'], s['tc']) for s in steps[:k])
            a, b = '%d/%d;' % (st['pid'], st['tc']), '%d/%d;' % (bp, btc)
            runs = []
            for order in (a + b, b + a):
                p = dict(base)
                p['opts'] = dict(base['opts'])
                p['opts'].update(path=prefix + order, fingerprint='1', walk='uniform', walkseed=str(plan['suffix_seed']),
                                 maxsteps=str(k + 2 + 20))
                runs.append(s4u.run_plan(p, scratch, timeout=self.run_timeout))
            out['pairs'].append(dict(k=k, a=a, b=b, ab=runs[0], ba=runs[1]))
        out['hash'] = dst.sha(first['log'], *[x['ab']['log'] + x['ba']['log'] for x in out['pairs']])
        return out

    def oracle(self, plan, res):
        v = self.crash_violations(plan, res)
        if v:
            return v
        aids, types, strs, dep, rdep, hb, races = mcinfo_of(self.recs(res))
        n = len(aids)
        for i in range(n):
            for j in range(i + 1, n):
                if dep[i][j] != rdep[i][j]:
                    v.append(('asymmetric', 'e%d=[%d]%s depends on e%d=[%d]%s: %s, the other way round: %s' %
                              (i, aids[i], strs[i], j, aids[j], strs[j], dep[i][j], rdep[i][j])))
                    return v
        st = dict(indep=0, dep=0, blocked_dep=0, skipped=0, types=[])
        for pr in res['pairs']:
            k = pr['k']
            sides = {}
            for name in ('ab', 'ba'):
                x = pr[name]
                if x['timed_out'] or x['rc'] != 0:
                    return [('crash', 're-execution of the prefix + %s failed: rc=%s %s' %
                             (name, x['rc'], x.get('stderr_tail', '')[-300:].replace('\n', ' | ')))]
                recs = s4u.parse_log(x['log'])
                blocked = [r for r in recs if r.t == 'S' and r.kind == 'path_blocked']
                info = mcinfo_of(recs)
                sides[name] = dict(recs=recs, blocked=blocked, info=info)
            # declared dependency of the two transitions, from the run(s) in which both were executed
            decl = {}
            for name in ('ab', 'ba'):
                sd = sides[name]
                if not sd['blocked'] and len(sd['info'][0]) >= k + 2:
                    i_aids, i_types, i_strs, i_dep = sd['info'][0], sd['info'][1], sd['info'][2], sd['info'][3]
                    decl[name] = (i_dep[k][k + 1] == '1', i_types[k], i_types[k + 1], i_strs[k], i_strs[k + 1], i_aids[k], i_aids[k + 1])
                elif sd['blocked'] and int(sd['blocked'][0].kv['n']) < k + 1:
                    return [('replay_diverged', 'the prefix could not be re-executed: %s' % sd['blocked'][0].raw)]
            if not decl:
                st['skipped'] += 1
                continue
            if any(d[1] == 'ACTOR_CREATE' and d[2] == 'ACTOR_CREATE' for d in decl.values()):
                st['skipped'] += 1
                continue
            indep = [nm for nm, d in decl.items() if not d[0]]
            if not indep:
                st['dep'] += 1
                if len(decl) < 2:
                    st['blocked_dep'] += 1
                continue
            d0 = decl[indep[0]]
            desc = '[%d]%s and [%d]%s (after %d transitions, order %s)' % (d0[5], d0[3], d0[6], d0[4], k, indep[0])
            if len(decl) < 2:
                other = 'ba' if indep[0] == 'ab' else 'ab'
                v.append(('disables', 'declared independent: %s; but in the order %s the second one is not enabled any more: %s' %
                          (desc, other, sides[other]['blocked'][0].raw)))
                return v
            if decl['ab'][0] != decl['ba'][0]:
                v.append(('order_dependent_verdict', 'the checker declares %s independent in one order and dependent in the '
                          'other' % desc))
                return v
            st['indep'] += 1
            st['types'].append('%s|%s' % tuple(sorted([d0[1], d0[2]])))
            fa, ra = after_path(sides['ab']['recs'])
            fb, rb = after_path(sides['ba']['recs'])
            if fa != fb:
                diff = [(x, y) for x, y in zip(fa, fb) if x != y][:2] or [(len(fa), len(fb))]
                v.append(('state_differs', 'declared independent: %s; but the state after a.b and after b.a differs: %s' %
                          (desc, diff)))
                return v
            if ra != rb:
                kk = 0
                while kk < min(len(ra), len(rb)) and ra[kk] == rb[kk]:
                    kk += 1
                v.append(('future_differs', 'declared independent: %s; same fingerprint after both orders, but the common '
                          'continuation diverges at item %d: %r vs %r' %
                          (desc, kk, ra[kk] if kk < len(ra) else '<end>', rb[kk] if kk < len(rb) else '<end>')))
                return v
        res['_st'] = st
        return v

    def nontrivial(self, plan, res):
        return (res.get('_st') or {}).get('indep', 0) > 0

    def signature(self, plan, res):
        return dst.sha(gen.signature_of_calls(self.recs(res)), str((res.get('_st') or {}).get('types')))[:16]

    def stats(self, plan, res):
        st = self.base_stats(plan, res)
        s = res.get('_st') or {}
        st['pairs_swapped_independent'] = s.get('indep', 0)
        st['pairs_dependent'] = s.get('dep', 0)
        st['pairs_dependent_second_disabled'] = s.get('blocked_dep', 0)
        st['pairs_skipped'] = s.get('skipped', 0)
        st['s4usim_executions'] = 1 + 2 * len(res.get('pairs', []))
        for t in s.get('types', []):
            st['swap_' + t] = st.get('swap_' + t, 0) + 1
        st['source_' + plan.get('source', '?')] = 1
        return st

    def shrink(self, plan):
        if len(plan.get('swaps', [])) > 1:
            for i in range(len(plan['swaps'])):
                p = dict(plan)
                p['swaps'] = [plan['swaps'][i]]
                yield p
        for p in gen.shrink_plan(plan):
            p['swaps'] = plan['swaps']
            p['suffix_seed'] = plan['suffix_seed']
            yield p


CHECK = C39()
