"""C41 Reported counter-examples are real and replayable (engine D + walker D + model-check/replay)"""
import os

import mcd
import mcdgen
from mcdcheck import EngineDCheck, abort_class, abort_msg, hash_of, loop_msg
from rng import Rng


class C41(EngineDCheck):
    pid = 'C41'
    rule = ('seeded programs of the C38 generator, biased towards reachable failures (resources not balanced in 60 % of '
            'the programs: lock-order inversion, missing notification, semaphore short of tokens, unmatched receive, '
            'short barrier; assertions on results in 50 %). Each program: 16 seeded walks of walker D give reachable '
            'failures of reference; simgrid-mc with its default settings (first failure, then critical-transition search) '
            'under none (small programs), dpor, sdpor, odpor, udpor (its subset) and one seeded BeFS configuration; one '
            'seeded reduction also with max-errors=-1 (every failure reported). Every reported failure (kind, status lines '
            'of the blocked actors, replay path) is (1) replayed out of the checker with --cfg=model-check/replay:<path>, '
            'twice: same kind of failure as reported (same blocked-actor status for a deadlock), identical output both '
            'times; (2) replayed by walker D: the path is executable step by step, ends in the same failure, and the '
            'history is valid for the reference model (blocked set = model\'s blocked set). Exit status must match the '
            'first report (1 assertion, 2 deadlock). A run that finds no failure although a walk reached one is reported '
            'too. non-trivial = some exploration reported a failure; distinct = hash of reports')
    assumptions = ['programs without any reachable failure are outside the quantifier (counted, not judged)',
                   'with max-errors=-1 only the walker replay is done (class suffix _maxerr), so that a defect of that '
                   'mode cannot hide one of the default mode',
                   'explorations cut by the wall cap are not judged']
    budgets = {'quick': dict(runs=36, wall=45), 'thorough': dict(runs=900, wall=900)}

    def gen(self, seed, tier):
        r = Rng(seed, 'c41')
        small = r.chance(0.75)
        plan = mcdgen.program(r, seed, 120 if small else 2500, want_assert=r.chance(0.5), min_bound=6 if small else 120,
                              balance=r.chance(0.4),
                              families=(os.environ.get('VERIF_ENGD_FAMILIES') or '').split(',') if os.environ.get('VERIF_ENGD_FAMILIES') else None)
        plan['walks'] = mcdgen.walk_specs(r, 16)
        cfgs = []
        if plan['bound'] <= 150:
            cfgs.append(dict(red='none', algo='DFS', strategy='none'))
        for red in ('dpor', 'sdpor', 'odpor'):
            cfgs.append(dict(red=red, algo='DFS', strategy='none'))
        cfgs.append(dict(red=r.choice(['dpor', 'sdpor', 'odpor']), algo='BeFS',
                         strategy=r.choice(['none', 'uniform']), randseed=r.randint(1, 10 ** 6)))
        if mcdgen.udpor_subset(plan):
            cfgs.append(dict(red='udpor', algo='DFS', strategy='none'))
        for c in cfgs:
            c['max_errors'] = None
        c = dict(r.choice(cfgs[:4]))
        c['max_errors'] = -1
        cfgs.append(c)
        plan['mc'] = cfgs
        return plan

    def run(self, plan, scratch):
        ws, viol, nvalid = self.walks(plan, scratch, plan['walks'])
        W_dl = set(w['sig'] for w in ws if w['deadlock'])
        W_as = set(w['assert_key'] for w in ws if w['assert_key'])
        mcs = []
        for i, cfg in enumerate(plan['mc']):
            r = self.explore(plan, scratch, cfg, 'm%d' % i, max_errors=cfg.get('max_errors'))
            r['maxerr'] = cfg.get('max_errors') == -1
            r['config'] += '/all-errors' if r['maxerr'] else ''
            mcs.append(r)
        # every reported failure, by walker D (one batch)
        specs, owner = [], []
        for r in mcs:
            for k, rep in enumerate(r['reports'][:6 if r['maxerr'] else 2]):
                if rep['kind'] in ('deadlock', 'assert') and rep['path'] is not None:
                    specs.append(dict(path=mcd.path_str(mcd.parse_path(rep['path'])) or '-', stopatpathend='1'))
                    owner.append((r, k, rep))
        rws = []
        if specs:
            rws, rviol, _ = self.walks(plan, scratch, specs, tag='p')
            viol += rviol
        nrep = 0
        for w, (r, k, rep) in zip(rws, owner):
            nrep += 1
            sfx = ('_maxerr_' if r['maxerr'] else '_') + r['red']
            what = '%s report #%d (%s, path %s)' % (r['config'], k + 1, rep['kind'], rep['path'] or "''")
            if w['path_invalid']:
                viol.append(('path_unreal' + sfx, '%s: the path cannot be executed: %s' % (what, w['path_invalid'])))
            elif rep['kind'] == 'deadlock':
                if not w['deadlock']:
                    viol.append(('path_unreal' + sfx, '%s: after the path the program is not deadlocked (%s)' %
                                 (what, 'terminated' if w['complete'] else 'an assertion failed' if w['assert_key'] else
                                  'actors can still run')))
                elif w['sig'] != rep['sig']:
                    viol.append(('path_unreal' + sfx, '%s: the path ends in another deadlock: reported [%s], reached [%s]' %
                                 (what, '; '.join(rep['sig']), '; '.join(w['sig']))))
            elif rep['kind'] == 'assert':
                if not w['assert_key']:
                    viol.append(('path_unreal' + sfx, '%s: no assertion fails along the path (%s)' %
                                 (what, 'deadlock' if w['deadlock'] else 'terminated' if w['complete'] else 'can run further')))
                elif w['assert_key'] not in r['asserts']:
                    viol.append(('path_unreal' + sfx, '%s: the assertion failing along the path (%s) is not one the '
                                 'application hit under the checker (%s)' % (what, w['assert_key'], sorted(r['asserts']))))
        # default mode: replay out of the checker, twice
        nreplay = 0
        for r in mcs:
            red = r['red']
            if r['maxerr']:
                continue
            if not r['finished']:
                if not r['timed_out'] and not r['stalled'] and not r['looping'] and not r['unsupported'] and not r['reports']:
                    viol.append((abort_class(r), 'simgrid-mc %s ended with status %s: %s' %
                                 (r['config'], r['rc'], abort_msg(r) if r['criticals'] else r['stderr_tail'][-300:])))
                elif r['stalled']:
                    viol.append(('stall_' + red, 'simgrid-mc %s: checker and application wait for each other' % r['config']))
                elif r['looping']:
                    viol.append(('loop_' + red, loop_msg(r)))
            if r['finished'] and r['empty_program'] and W_dl:
                viol.append(('miss_initial_deadlock', 'simgrid-mc (%s) refuses to verify the program ("did not do any '
                             'transition before terminating ... that\'s OK", status %s) although its actors are blocked for '
                             'ever in the initial state: [%s]' % (r['config'], r['rc'], '; '.join(sorted(W_dl)[0]))))
            elif r['finished'] and not r['reports'] and (W_dl or W_as):
                tag = red + ('_befs' if r['algo'] == 'BeFS' and red != 'udpor' else '') + \
                    ('_uniform' if r['strategy'] == 'uniform' else '')
                viol.append(('missed_' + tag, '%s finished with exit status %s and no report, but a seeded walk reaches %s' %
                             (r['config'], r['rc'], ('the deadlock [%s]' % '; '.join(sorted(W_dl)[0])) if W_dl else
                              ('the assertion failure %s' % sorted(W_as)[0]))))
            if not r['reports']:
                continue
            rep = r['reports'][0]
            want_rc = {'assert': 1, 'deadlock': 2, 'crash': 4}.get(rep['kind'])
            if r['rc'] in (0, 1, 2, 3, 4, 5) and r['rc'] != want_rc:
                viol.append(('verdict_' + red, '%s reported a %s first but exited with status %s' %
                             (r['config'], rep['kind'], r['rc'])))
            if rep['kind'] not in ('deadlock', 'assert') or rep['path'] is None:
                continue
            path = mcd.parse_path(rep['path'])
            a = mcd.run_replay(plan, scratch, path, tag='r1')
            b = mcd.run_replay(plan, scratch, path, tag='r2')
            nreplay += 2
            what = '%s reported a %s with --cfg=model-check/replay:\'%s\'' % (r['config'], rep['kind'], rep['path'])
            if a['kind'] != rep['kind']:
                viol.append(('replay_' + red, '%s; replaying it gives: %s %s' % (what, a['kind'], a['msg'] or a['stderr_tail'][-200:])))
            elif rep['kind'] == 'deadlock' and a['sig'] != rep['sig']:
                viol.append(('replay_' + red, '%s; the replay ends in another deadlock: reported [%s], replayed [%s]' %
                             (what, '; '.join(rep['sig']), '; '.join(a['sig']))))
            if (a['kind'], a['sig'], a['stdout'], a['rc']) != (b['kind'], b['sig'], b['stdout'], b['rc']):
                viol.append(('replay_nondet_' + red, '%s; two replays differ (%s rc=%s / %s rc=%s)' %
                             (what, a['kind'], a['rc'], b['kind'], b['rc'])))
        res = dict(W=dict(dl=sorted('; '.join(s) for s in W_dl), asserts=sorted(W_as)),
                   mc=[self.summary(r) for r in mcs], viol=sorted(set(viol))[:12], nwalks=len(ws) + nrep,
                   walks_valid=nvalid, walk_steps=sum(w['steps'] for w in ws), ref_outcomes=[],
                   reports=sum(len(r['reports']) for r in mcs), reports_checked=nrep, replays=nreplay,
                   kinds=sorted(set(rep['kind'] for r in mcs for rep in r['reports'])))
        for s, r in zip(res['mc'], mcs):
            s['first_report'] = [r['reports'][0]['kind'], r['reports'][0]['path']] if r['reports'] else None
        res['hash'] = hash_of(res)
        return res

    def nontrivial(self, plan, res):
        return res['reports'] > 0

    def stats(self, plan, res):
        st = self.mc_stats(res)
        st['reports_seen'] = res['reports']
        st['reports_replayed_by_walker'] = res['reports_checked']
        st['replays_out_of_checker'] = res['replays']
        st['probe_deadlock_reports'] = 1 if 'deadlock' in res['kinds'] else 0
        st['probe_assert_reports'] = 1 if 'assert' in res['kinds'] else 0
        st['probe_programs_without_failure'] = 1 if not res['reports'] and not res['W']['dl'] and not res['W']['asserts'] else 0
        st['probe_multi_error_runs'] = sum(1 for s in res['mc'] if s['config'].endswith('all-errors') and s['nreports'] > 1)
        for f in plan.get('families', []):
            st['family_' + f] = 1
        return st



CHECK = C41()
