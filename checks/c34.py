"""C34 - RMA windows behave like shared memory under their locks.

Plans of 2-4 ranks over one window of W ints per rank: a sequence of phases, each delimited by barriers and using one
synchronisation style (fence / lock-unlock exclusive+shared / lock_all / post-start-complete-wait), with seeded lists
of Put/Get/Accumulate/Get_accumulate/Fetch_and_op/Compare_and_swap and think times.  Oracle: RmaSearch of
lib/refmpi_coll.py looks, per target, for a serialisation consistent with locks and program order that explains
every fetched value and the window snapshot taken after the closing synchronisation."""
import re
import sys

sys.path.insert(0, '/verif/lib')
import dst
from rng import Rng
import mpicollcommon as mc
import refmpi_coll as ref

ACC_OPS = ['sum', 'sum', 'max', 'min', 'bxor', 'bor', 'band', 'prod', 'replace']


def _segments(r, W):
    cuts = sorted(set([0, W] + [r.randint(1, W - 1) for _ in range(r.randint(2, 5))]))
    return [(cuts[i], cuts[i + 1]) for i in range(len(cuts) - 1)]


def gen_phase(r, np, W, kind, opid0):
    """-> phase dict; roles[t] = list of (lo, hi, role)"""
    roles = []
    for t in range(np):
        segs = []
        for lo, hi in _segments(r, W):
            choices = [('put', 3), ('get', 2), ('acc', 3), ('cas', 1.5), ('idle', 0.5)]
            if kind == 'lock':
                choices.append(('excl', 3))
            role = r.wchoice(choices)
            if role == 'put':
                role = 'put:%d' % r.below(np)
            elif role == 'acc':
                role = 'acc:' + r.choice(ACC_OPS)
            segs.append((lo, hi, role))
        roles.append(segs)
    ops = {rk: [] for rk in range(np)}
    oid = [opid0]

    def new(rk, **kw):
        kw['id'] = oid[0]
        oid[0] += 1
        kw.setdefault('think', r.choice([0, 0, 1, 5, 20, 100, 400]))
        ops[rk].append(kw)
        return kw

    def data_ops(rk, t, n, excl_epoch, used):
        """n RMA operations of origin rk on target t respecting the roles; used: locations already accessed by a
        non-accumulate access of this origin in this epoch (at most one such access per location and epoch)"""
        for _ in range(n):
            segs = [s for s in roles[t] if s[2] != 'idle' and (s[2] != 'excl' or excl_epoch) and
                    (not s[2].startswith('put:') or s[2] == 'put:%d' % rk or excl_epoch and False)]
            if not segs:
                return
            lo, hi, role = r.choice(segs)
            d = r.randint(lo, hi - 1)
            c = r.randint(1, min(4, hi - d))
            locs = set(range(d, d + c))
            if role.startswith('put:'):
                if locs & used:
                    continue
                used |= locs
                new(rk, what='put', target=t, disp=d, count=c, seed=r.below(1 << 30) + 1)
            elif role == 'get':
                new(rk, what='get', target=t, disp=d, count=c)
            elif role.startswith('acc:'):
                op = role[4:]
                w = r.wchoice([('acc', 4), ('gacc', 2), ('fop', 2), ('fopn', 1), ('gaccn', 0.7)])
                if w == 'acc':
                    new(rk, what='acc', target=t, disp=d, count=c, op=op, seed=r.below(1 << 30) + 1)
                elif w == 'gacc':
                    new(rk, what='gacc', target=t, disp=d, count=c, op=op, seed=r.below(1 << 30) + 1)
                elif w == 'fop':
                    new(rk, what='fop', target=t, disp=d, count=1, op=op, seed=r.below(1 << 30) + 1)
                elif w == 'fopn':
                    new(rk, what='fop', target=t, disp=d, count=1, op='noop', seed=1)
                else:
                    new(rk, what='gacc', target=t, disp=d, count=c, op='noop', seed=1)
            elif role == 'cas':
                if r.chance(0.75):
                    # compare value: a plausible current content (initial values are 6..14) or a previously swapped-in one
                    new(rk, what='cas', target=t, disp=d, count=1, cmp=r.choice([6, 7, 8, 9, 10, 11, 12, 13, 14, 77, 78]),
                        newv=r.choice([77, 78, 6, 10]))
                else:
                    new(rk, what='fop', target=t, disp=d, count=1, op='noop', seed=1)
            elif role == 'excl':
                if locs & used:
                    continue
                used |= locs
                w = r.wchoice([('put', 3), ('get', 3), ('acc', 2), ('gacc', 1.5)])
                if w == 'put':
                    new(rk, what='put', target=t, disp=d, count=c, seed=r.below(1 << 30) + 1)
                elif w == 'get':
                    new(rk, what='get', target=t, disp=d, count=c)
                else:
                    new(rk, what=w, target=t, disp=d, count=c, op=r.choice(['sum', 'replace', 'max', 'bxor']),
                        seed=r.below(1 << 30) + 1)

    ph = dict(kind=kind, init=r.below(1 << 30) + 1, roles=[[list(s) for s in segs] for segs in roles])
    if kind == 'fence':
        ph['fassert'] = 1 if r.chance(0.8) else 0
    lockmode = r.choice(['mixed', 'mixed', 'excl', 'shared']) if kind == 'lock' else None
    if kind in ('fence', 'pscw'):
        group = [0] * (np * np)
        if kind == 'pscw':
            for o in range(np):
                for t in range(np):
                    if o != t and r.chance(0.6):
                        group[o * np + t] = 1
            if not any(group):
                group[0 * np + 1] = 1
            ph['group'] = group
        for rk in range(np):
            used = {t: set() for t in range(np)}
            for _ in range(r.randint(0, 5)):
                targets = [t for t in range(np) if (kind == 'fence' or group[rk * np + t])]
                if not targets:
                    break
                t = r.choice(targets)
                data_ops(rk, t, 1, False, used[t])
    elif kind == 'lockall':
        for rk in range(np):
            if r.chance(0.85):
                new(rk, what='lockall')
                used = {t: set() for t in range(np)}
                for _ in range(r.randint(0, 5)):
                    t = r.below(np)
                    data_ops(rk, t, 1, False, used[t])
                    if r.chance(0.2):
                        new(rk, what=r.choice(['flushall', 'flush', 'flushl']), target=t)
                new(rk, what='unlockall')
    else:   # lock
        nexcl = {t: 0 for t in range(np)}
        for rk in range(np):
            for _ in range(r.randint(0, 3)):
                t = r.below(np)
                excl = 1 if r.chance(0.55) else 0
                if lockmode != 'mixed':
                    excl = 1 if lockmode == 'excl' else 0
                if excl and nexcl[t] >= 4:
                    if lockmode == 'excl':
                        continue
                    excl = 0
                nexcl[t] += excl
                new(rk, what='lock', target=t, excl=excl)
                used = set()
                n = r.randint(0, 3)
                for _ in range(n):
                    data_ops(rk, t, 1, bool(excl), used)
                    if r.chance(0.15):
                        new(rk, what=r.choice(['flush', 'flushl']), target=t, think=0)
                new(rk, what='unlock', target=t)
    ph['ops'] = {str(k): v for k, v in ops.items()}
    return ph, oid[0]


class C34(dst.Check):
    pid = 'C34'
    level = 'exploration'
    rule = ('case = seeded RMA plan (2-4 ranks, window of 8-24 ints, 1-5 phases among fence / exclusive+shared lock epochs / '
            'lock_all(+flush) / post-start-complete-wait, 0-5 Put/Get/Accumulate/Get_accumulate/Fetch_and_op/'
            'Compare_and_swap per origin and phase, think times); non-trivial = at least one location of a window is '
            'accessed by two different origins in the same phase; distinct = hash of the per-rank op sequences '
            '(kind, target, location role) and of the order in which fetched values were observed')
    assumptions = [
        'Conflicting accesses are avoided as the standard requires: plain Put/Get of different origins (or of shared '
        'epochs) touch disjoint locations; accumulate-type calls on one location use one op (or MPI_NO_OP) per phase; '
        'at most one non-accumulate access per location, origin and epoch.',
        'The oracle is a search for ONE serialisation per target (per-location program order of each origin, epochs of '
        'an origin in order, exclusive epochs not overlapping any other epoch of the target); if its state budget is '
        'exhausted the run is accepted (counted in probe_search_exhausted).',
        'Window snapshots are read by the target after a barrier that follows the closing synchronisation.',
        'A wall-clock kill (20 s) or a reported deadlock is classified hang.',
    ]
    real_vs_stub = {'SMPI RMA (smpi_win.cpp, rma requests), locks, fences, PSCW': 'real', 'SimGrid kernel + network': 'real',
                    'MPI application': 'real (generated plan interpreter sim/mpicoll.c, rma mode)',
                    'memory semantics': 'lib/refmpi_coll.py RmaSearch'}
    budgets = {'quick': dict(runs=3000, wall=40), 'thorough': dict(runs=60000, wall=800)}
    max_reported = 12
    shrink_budget = 150

    def gen(self, seed, tier):
        r = Rng(seed, 'c34')
        np = r.wchoice([(2, 3), (3, 4), (4, 4)])
        W = r.choice([8, 12, 16, 24])
        plat, hosts = mc.gen_platform(Rng(seed, 'platform'), np)
        cfg = {}
        kn = Rng(seed, 'knobs')
        if kn.chance(0.5):      # async-small-thresh stays 0: see checks/c29.py (point-to-point ordering defect, C28)
            cfg['smpi/send-is-detached-thresh'] = kn.choice([0, 16, 1024, 65536])
        phases = []
        oid = 0
        for _ in range(r.randint(1, 5)):
            kind = r.wchoice([('fence', 3), ('lock', 4), ('lockall', 2), ('pscw', 2)])
            ph, oid = gen_phase(r, np, W, kind, oid)
            phases.append(ph)
        return dict(np=np, wsize=W, winalloc=1 if r.chance(0.3) else 0, plat=plat, hosts=hosts, cfg=cfg, phases=phases)

    def _text_plan(self, plan):
        p = dict(plan)
        p['phases'] = [dict(ph, ops={int(k): v for k, v in ph['ops'].items()}) for ph in plan['phases']]
        return mc.rma_plan_text(p)

    def run(self, plan, scratch):
        sd = '%s/c34' % scratch
        try:
            rc, out, err, to = mc.run_smpi(sd, plan['np'], plan['plat'], plan['hosts'], plan['cfg'],
                                           self._text_plan(plan), timeout=20)
        finally:
            mc.cleanup(sd)
        W, G, E, D, order = {}, {}, [], set(), []
        lines = out.split('\n')
        for line in lines[:-1]:
            p = line.split()
            try:
                if p[0] == 'W':
                    W['%s,%s' % (p[1], p[2])] = [int(x) for x in p[3:]]
                elif p[0] == 'G':
                    G[p[3]] = [int(x) for x in p[4:]]
                    order.append(int(p[3]))
                elif p[0] == 'E':
                    E.append([int(x) for x in p[1:]])
                elif p[0] == 'D':
                    D.add(int(p[1]))
            except (ValueError, IndexError):
                if rc == 0:
                    raise dst.Infra('malformed harness line: ' + line[:200])
        errl = [l for l in err.splitlines() if l.strip()]
        res = dict(rc=rc, timed_out=to, W=W, G=G, E=E, done=sorted(D), order=order, err='\n'.join(errl[:40])[:4000])
        res['hash'] = dst.sha(rc, to, sorted(W.items()), sorted(G.items()), E, res['done'], order,
                              [l for l in re.sub(r'0x[0-9a-f]+|[0-9]+\.[0-9]+', '#', res['err']).splitlines()
                               if 'CRITICAL' in l][:3])
        return res

    # ---- oracle -------------------------------------------------------------------------------------------
    def _micro(self, plan, res, p, ph, t, prev):
        """(init dict, seqs, final dict, problems) for target t of phase p"""
        np = plan['np']
        Wn = plan['wsize']
        init_vals = mc.rma_init_values(ph['init'], t, Wn) if ph.get('init') else prev
        seqs = []
        touched = set()
        for o in range(np):
            epochs = []
            cur = None
            for op in ph['ops'][str(o)]:
                w = op['what']
                if w == 'lock':
                    if op['target'] == t:
                        cur = [op['excl'], []]
                    continue
                if w == 'lockall':
                    cur = [0, []]
                    continue
                if w in ('unlock', 'unlockall'):
                    if cur is not None and (w == 'unlockall' or op['target'] == t):
                        epochs.append((cur[0], cur[1]))
                        cur = None
                    continue
                if w in ('flush', 'flushl', 'flushall', 'think') or op.get('target') != t:
                    continue
                if ph['kind'] in ('fence', 'pscw') and cur is None:
                    cur = [0, []]
                if cur is None:
                    continue
                got = res['G'].get(str(op['id']))
                if w == 'put':
                    vals = mc.rma_origin_values(op, o)
                    for k in range(op['count']):
                        cur[1].append((op['disp'] + k, 'w', vals[k], None))
                elif w == 'get':
                    for k in range(op['count']):
                        cur[1].append((op['disp'] + k, 'r', None, got[k] if got and k < len(got) else None))
                elif w == 'acc':
                    vals = mc.rma_origin_values(op, o)
                    for k in range(op['count']):
                        cur[1].append((op['disp'] + k, 'a', (op['op'], vals[k]), None))
                elif w in ('gacc', 'fop'):
                    vals = mc.rma_origin_values(op, o)
                    for k in range(op['count']):
                        cur[1].append((op['disp'] + k, 'f', (op['op'], vals[k]), got[k] if got and k < len(got) else None))
                elif w == 'cas':
                    cur[1].append((op['disp'], 'c', (op['cmp'], op['newv']), got[0] if got else None))
            if cur is not None and ph['kind'] in ('fence', 'pscw'):
                epochs.append((cur[0], cur[1]))
            for e in epochs:
                for m in e[1]:
                    touched.add(m[0])
            seqs.append(epochs)
        return init_vals, seqs, touched

    def oracle(self, plan, res):
        np = plan['np']
        Wn = plan['wsize']
        viol = []
        complete = res['rc'] == 0 and not res['timed_out'] and len(res['done']) == np
        self._exhausted = 0
        g0 = 0 if plan.get('winalloc') else mc.GUARD
        prev = {t: None for t in range(np)}
        for p, ph in enumerate(plan['phases']):
            snaps = [res['W'].get('%d,%d' % (p, t)) for t in range(np)]
            if any(s is None for s in snaps):
                break
            for t in range(np):
                snap = snaps[t]
                data = snap[g0:g0 + Wn]
                if g0 and (any(x != mc.CANARY for x in snap[:g0]) or any(x != mc.CANARY for x in snap[g0 + Wn:])):
                    viol.append(('content', 'phase %d (%s) target %d: memory outside the window modified' % (p, ph['kind'], t)))
                init_vals, seqs, touched = self._micro(plan, res, p, ph, t, prev[t])
                if init_vals is None:
                    prev[t] = data
                    continue
                # untouched locations keep their value
                for l in range(Wn):
                    if l not in touched and data[l] != init_vals[l]:
                        viol.append(('content', 'phase %d (%s) target %d: location %d not accessed by anybody changed from '
                                     '%d to %d' % (p, ph['kind'], t, l, init_vals[l], data[l])))
                        break
                missing = [m for o in seqs for e in o for m in e[1] if m[1] in 'rfc' and m[3] is None]
                if missing:
                    viol.append(('getvalue', 'phase %d target %d: a Get-type operation printed no value' % (p, t)))
                elif touched:
                    s = ref.RmaSearch({l: init_vals[l] for l in touched}, seqs, {l: data[l] for l in touched})
                    if not s.solve():
                        # which half is inexplicable: the fetched values alone, or only together with the final content?
                        s2 = ref.RmaSearch({l: init_vals[l] for l in touched}, seqs, {})
                        if s2.solve():
                            cls, what = 'content', 'no serialisation of the epochs yields the final window content'
                        else:
                            cls, what = 'getvalue', 'the values returned by Get-type calls match no serialisation of the epochs'
                        # narrow the class: the first location that is inexplicable on its own, and what touches it
                        sig = 'multi'
                        for l in sorted(touched):
                            sub = [[(e[0], [m for m in e[1] if m[0] == l]) for e in o] for o in seqs]
                            fin = {l: data[l]} if cls == 'content' else {}
                            if not ref.RmaSearch({l: init_vals[l]}, sub, fin).solve():
                                kinds = sorted(set(m[1] for o in sub for e in o for m in e[1]))
                                norig = sum(1 for o in sub if any(e[1] for e in o))
                                sig = '%s:%d' % ('+'.join(kinds), norig)
                                what += ' (location %d alone is inexplicable)' % l
                                break
                        kinds = sig.split(':')[0].split('+')
                        mixed = ph['kind'] == 'lock' and len(set(
                            op['excl'] for ops in ph['ops'].values() for op in ops
                            if op['what'] == 'lock' and op['target'] == t)) > 1
                        if mixed:
                            # shared and exclusive epochs on this very target: named first, whatever operations are inside
                            cause = 'other_lock_mixed'
                        elif 'c' in kinds:
                            cause = 'cas'
                        elif 'a' in kinds and 'f' in kinds:
                            cause = 'acc_vs_fetch'
                        else:
                            pk = ph['kind']
                            if pk == 'lock':
                                ex = set(op['excl'] for ops in ph['ops'].values() for op in ops if op['what'] == 'lock')
                                pk = 'lock_mixed' if len(ex) > 1 else 'lock_pure'
                            cause = 'other_' + pk
                        what += ' [%s]' % sig
                        cls = '%s:%s' % (cls, cause)
                        viol.append((cls, 'phase %d (%s) target %d: %s; init=%s final=%s ops=%s' % (
                            p, ph['kind'], t, what, {l: init_vals[l] for l in sorted(touched)},
                            {l: data[l] for l in sorted(touched)},
                            [[(e[0], [(m[0], m[1], m[3]) for m in e[1]]) for e in o] for o in seqs])))
                    if s.exhausted:
                        self._exhausted += 1
                prev[t] = data
        for e in res['E']:
            viol.append(('content', 'phase %d rank %d op %d returned MPI error code %d' % tuple(e[:4])))
        if not complete:
            kind, msg = mc.classify_abort(res['rc'], res['err'], res['timed_out'])
            if kind == 'refused':
                kind = 'crash'
            viol.append((kind, msg))
        # one message per class
        seen = {}
        for c, m in viol:
            seen.setdefault(c, m)
        return sorted(seen.items())

    def _contended(self, plan):
        n = 0
        lockc = 0
        for ph in plan['phases']:
            acc = {}
            locks = {}
            for o, ops in ph['ops'].items():
                for op in ops:
                    if 'disp' in op:
                        for k in range(op.get('count', 1)):
                            acc.setdefault((op['target'], op['disp'] + k), set()).add(o)
                    if op['what'] == 'lock':
                        locks.setdefault(op['target'], set()).add(o)
            n += sum(1 for v in acc.values() if len(v) > 1)
            lockc += sum(1 for v in locks.values() if len(v) > 1)
        return n, lockc

    def nontrivial(self, plan, res):
        return self._contended(plan)[0] > 0

    def signature(self, plan, res):
        shape = [[(ph['kind'], o, [(op['what'], op.get('target'), op.get('disp'), op.get('count'), op.get('op'),
                                    op.get('excl')) for op in ops]) for o, ops in sorted(ph['ops'].items())]
                 for ph in plan['phases']]
        return dst.sha(plan['np'], shape, res.get('order'))

    def stats(self, plan, res):
        n, lockc = self._contended(plan)
        s = {'probe_shared_location': n, 'probe_lock_contended': lockc, 'sim_seconds': 0.0,
             'probe_search_exhausted': getattr(self, '_exhausted', 0)}
        for ph in plan['phases']:
            s['phase_' + ph['kind']] = s.get('phase_' + ph['kind'], 0) + 1
            for ops in ph['ops'].values():
                for op in ops:
                    if op['what'] in ('put', 'get', 'acc', 'gacc', 'fop', 'cas'):
                        s['op_' + op['what']] = s.get('op_' + op['what'], 0) + 1
                        if str(op['target']) == '':
                            pass
                    if op['what'] == 'lock':
                        s['probe_lock_exclusive' if op['excl'] else 'probe_lock_shared'] = \
                            s.get('probe_lock_exclusive' if op['excl'] else 'probe_lock_shared', 0) + 1
        for ph in plan['phases']:
            for o, ops in ph['ops'].items():
                s['probe_self_target'] = s.get('probe_self_target', 0) + sum(
                    1 for op in ops if 'disp' in op and str(op['target']) == o)
        # CAS that succeeded / failed as observed
        for ph in plan['phases']:
            for ops in ph['ops'].values():
                for op in ops:
                    if op['what'] == 'cas':
                        g = res['G'].get(str(op['id']))
                        if g:
                            k = 'probe_cas_success' if g[0] == op['cmp'] else 'probe_cas_failure'
                            s[k] = s.get(k, 0) + 1
        s.setdefault('probe_cas_success', 0)
        s.setdefault('probe_cas_failure', 0)
        return s

    def describe(self, plan, res):
        return dict(np=plan['np'], wsize=plan['wsize'], cfg=plan['cfg'],
                    phases=[dict(kind=ph['kind'], ops={o: [(op['what'], op.get('target'), op.get('disp'), op.get('count'),
                                                           op.get('op')) for op in ops][:8]
                                                      for o, ops in ph['ops'].items()}) for ph in plan['phases']][:3],
                    signature=self.signature(plan, res))

    def shrink(self, plan):
        phs = plan['phases']

        def wp(phases, **kw):
            p = dict(plan)
            p['phases'] = phases
            p.update(kw)
            return p
        if len(phs) > 1:
            for i in range(len(phs)):
                yield wp([phs[i]])
            for i in range(len(phs)):
                yield wp(phs[:i] + phs[i + 1:])
        if plan['cfg']:
            yield wp(phs, cfg={})
        np = plan['np']
        if plan['hosts'] != list(range(np)) or plan['plat']['kind'] != 'cluster':
            yield wp(phs, hosts=list(range(np)),
                     plat=dict(kind='cluster', nhosts=max(np, 2), lat_us=10, bw_MBps=125, loop_lat_us=0))
        if plan.get('winalloc'):
            yield wp(phs, winalloc=0)
        for i, ph in enumerate(phs):
            for o in sorted(ph['ops']):
                ops = ph['ops'][o]
                # drop a whole epoch (lock..unlock) or one data op
                j = 0
                while j < len(ops):
                    if ops[j]['what'] in ('lock', 'lockall'):
                        k = j
                        while k < len(ops) and ops[k]['what'] not in ('unlock', 'unlockall'):
                            k += 1
                        new = ops[:j] + ops[k + 1:]
                        yield wp(phs[:i] + [dict(ph, ops=dict(ph['ops'], **{o: new}))] + phs[i + 1:])
                        j = k + 1
                    else:
                        j += 1
                for j, op in enumerate(ops):
                    if op['what'] not in ('lock', 'unlock', 'lockall', 'unlockall'):
                        new = ops[:j] + ops[j + 1:]
                        yield wp(phs[:i] + [dict(ph, ops=dict(ph['ops'], **{o: new}))] + phs[i + 1:])
                for j, op in enumerate(ops):
                    if op.get('think'):
                        new = ops[:j] + [dict(op, think=0)] + ops[j + 1:]
                        yield wp(phs[:i] + [dict(ph, ops=dict(ph['ops'], **{o: new}))] + phs[i + 1:])
                    if op.get('count', 1) > 1:
                        new = ops[:j] + [dict(op, count=1)] + ops[j + 1:]
                        yield wp(phs[:i] + [dict(ph, ops=dict(ph['ops'], **{o: new}))] + phs[i + 1:])

    def known_matchers(self):
        def ops(plan):
            for ph in plan['phases']:
                for o, lst in ph['ops'].items():
                    for op in lst:
                        yield ph, o, op

        def has_cas(plan, cls, msg):
            return any(op['what'] == 'cas' for _, _, op in ops(plan))

        def has_acc_and_fetch(plan, cls, msg):
            return any(op['what'] == 'acc' for _, _, op in ops(plan)) and \
                any(op['what'] in ('gacc', 'fop') for _, _, op in ops(plan))

        def has_excl_lock(plan, cls, msg):
            return any(op['what'] == 'lock' and op['excl'] for _, _, op in ops(plan))

        def has_excl_and_shared(plan, cls, msg):
            # some target is locked both ways within one phase
            for ph in plan['phases']:
                modes = {}
                for lst in ph['ops'].values():
                    for op in lst:
                        if op['what'] == 'lock':
                            modes.setdefault(op['target'], set()).add(bool(op['excl']))
                if any(len(m) > 1 for m in modes.values()):
                    return True
            return False

        def fence_noassert_then_pscw(plan, cls, msg):
            seen = False
            for ph in plan['phases']:
                if ph['kind'] == 'fence' and not ph.get('fassert'):
                    seen = True
                if ph['kind'] == 'pscw' and seen:
                    return 'MPI_ERR_WIN' in msg or 'already opened' in msg
            return False

        def pscw_nodetach(plan, cls, msg):
            return any(ph['kind'] == 'pscw' for ph in plan['phases']) and \
                str(plan['cfg'].get('smpi/send-is-detached-thresh')) == '0'
        def excl_shared_not_owner(plan, cls, msg):
            return has_excl_and_shared(plan, cls, msg) and "you're not the owner" in msg

        return dict(excl_shared_not_owner=excl_shared_not_owner, has_cas=has_cas, has_acc_and_fetch=has_acc_and_fetch, has_excl_lock=has_excl_lock,
                    has_excl_and_shared=has_excl_and_shared, fence_noassert_then_pscw=fence_noassert_then_pscw,
                    pscw_nodetach=pscw_nodetach)


CHECK = C34()
mc.install_proposed_findings()
