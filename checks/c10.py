"""C10 Resource failures are reported to every live participant (engine A, fault enumeration over event dates)"""
import copy

import dst
import gen
import s4u
import workload
from rng import Rng
from s4ucheck import S4UCheck

EPS = 1e-4     # "just before / just after" an event date
TIE = 1e-7     # two dates closer than this are simultaneous for the oracle (either order is accepted)
COMM_CREATE = ('put', 'put_async', 'put_detach', 'get', 'get_async')


def routes_of(plan):
    rt = {}
    for r in plan['routes']:
        links = [l.split(':')[0] for l in r['links']]
        rt[(r['src'], r['dst'])] = links
        if r.get('sym', True):
            rt[(r['dst'], r['src'])] = list(reversed(links))
    return rt


class Op:
    """one operation instance of the log: call record, return record, what it uses"""
    __slots__ = ('key', 'kind', 'c', 'r', 'exc', 'args', 'rkv', 'cseq', 'rseq')


def ops_of(recs):
    out = {}
    order = []
    for r in recs:
        if r.t == 'C':
            o = Op()
            o.key, o.kind, o.c, o.r, o.exc, o.args, o.rkv, o.cseq, o.rseq = \
                (r.aid, r.inc, r.idx), r.kind, r.clock, None, None, r.args, {}, r.seq, None
            out[o.key] = o
            order.append(o)
        elif r.t == 'R':
            o = out.get((r.aid, r.inc, r.idx))
            if o is not None:
                o.r, o.exc, o.rkv, o.rseq = r.clock, r.kv.get('exc'), r.kv, r.seq
    return out, order


class C10(S4UCheck):
    pid = 'C10'
    level = 'fault_enumeration'
    rule = ('seeded communicating programs (3-5 actors on 3-4 hosts with private and shared links: rendezvous put/get on '
            'one mailbox per ordered actor pair, put_async/get_async + wait, detached puts, host-to-host sendto, local and '
            'remote execs, exec_async + wait, sleeps, on_exit callbacks). The program first runs fault free; the set of '
            'its distinct event dates is the fault-date space. Then a failure (host or link turned off for good) is '
            'injected at a date drawn from that set, or 1e-4 before / after it, through the API (a controller actor on a '
            'host that never fails) or through a state profile; a second failure is drawn the same way from the event '
            'dates of the run with the first one. Oracle over the recorded histories: (A) every actor alive on a failed host '
            'terminates at the failure date, its on_exit callbacks run with failed=1 and it logs nothing later; (B) every '
            'operation of a surviving actor that uses a failed resource (exec on the host; matched communication whose '
            'source or destination host failed or whose route crosses the failed link - matching rebuilt from the FIFO '
            'order of each mailbox) returns at max(start of use, failure date) with HostFailure / NetworkFailure, and '
            'never later or never; (C) no failure exception without a failed resource in use; no exception at all in '
            'the fault-free run; (D) a run may end in deadlock only with actors blocked on communications that never '
            'found their peer. Dates closer than 1e-7 to the failure are ties: both outcomes are accepted. '
            'non-trivial = at least one activity was in flight on the failed resource; '
            'distinct = (program, resource, date index, offset, via) tuple')
    assumptions = ['a communication that has not found its peer uses no resource: staying blocked on it after the peer died '
                   'is the documented behaviour and is not reported',
                   'timeouts, synchronisation objects, suspends and restarts are left to C04-C11',
                   'failures are permanent within one run (turn_on after a failure is covered by C11)']
    budgets = {'quick': dict(runs=900, wall=55), 'thorough': dict(runs=30000, wall=900)}
    run_timeout = 40

    # ------------------------------------------------------------------ generation
    def gen(self, seed, tier):
        r = Rng(seed, 'c10')
        pool = 60 if tier == 'quick' else 4000
        pseed = r.below(pool)           # few programs, many faults each: the (resource x date) space gets covered
        plan = self.program(pseed)
        plan['seed'] = seed
        plan['prog'] = pseed
        nf = 1 if r.chance(0.7) else 2
        plan['faults'] = [dict(res=r.below(1000), date=r.below(100000), off=r.choice([-1, 0, 0, 1]),
                               via=r.choice(['api', 'api', 'profile'])) for _ in range(nf)]
        return plan

    def program(self, pseed):
        r = Rng(pseed, 'c10prog')
        nh = r.randint(3, 4)
        plan = gen.base_plan(pseed, nhosts=nh, rng=r)
        workload.platform(plan, r, nh=nh, multicore=True, disks=False)
        plan['hosts'].append(dict(name='ctl', cores=1, speeds=[1e9]))
        na = r.randint(3, 5)
        acts = [dict(id='a%d' % i, host='h%d' % (i % nh if i < nh else r.below(nh)), ops=[], onexit=r.randint(0, 2))
                for i in range(na)]
        mb = set()
        sn = [0]

        def slot():
            sn[0] += 1
            return 'x%d' % sn[0]
        pending = {a['id']: [] for a in acts}
        for _ in range(r.randint(4, 14)):
            c = r.below(20)
            a = r.choice(acts)
            if c < 8:
                # an exchange: ops appended to both scripts in one global order (so the fault-free run cannot deadlock)
                b = r.choice([x for x in acts if x is not a])
                m = 'm_%s_%s' % (a['id'], b['id'])
                mb.add(m)
                size = r.choice([1e4, 1e5, 1e6, 4e6])
                sk = r.below(10)
                if sk < 5:
                    a['ops'].append(['put', m, size])
                elif sk < 8:
                    s = slot()
                    a['ops'].append(['put_async', s, m, size])
                    pending[a['id']].append(s)
                else:
                    a['ops'].append(['put_detach', m, size])
                if r.chance(0.65):
                    b['ops'].append(['get', m])
                else:
                    s = slot()
                    b['ops'].append(['get_async', s, m])
                    pending[b['id']].append(s)
            elif c < 11:
                a['ops'].append(['exec', r.randint(1, 8) * 0.25e9])
            elif c < 13:
                a['ops'].append(['exec', r.randint(1, 8) * 0.25e9, 'host=h%d' % r.below(nh)])
            elif c < 14:
                s = slot()
                a['ops'].append(['exec_async', s, r.randint(1, 8) * 0.25e9, 'host=h%d' % r.below(nh)])
                pending[a['id']].append(s)
            elif c < 16:
                src = r.below(nh)
                dstn = (src + 1 + r.below(nh - 1)) % nh
                a['ops'].append(['sendto', '-', 'h%d' % src, 'h%d' % dstn, r.choice([1e5, 1e6, 4e6])])
            elif c < 18:
                a['ops'].append(['sleep', r.randint(1, 8) * 0.25])
            elif pending[a['id']]:
                s = pending[a['id']].pop(r.below(len(pending[a['id']])))
                a['ops'].append(['wait', s])
        for a in acts:
            for s in pending[a['id']]:
                a['ops'].append(['wait', s])
            if r.chance(0.3):
                a['ops'].append(['sleep', r.randint(1, 4) * 0.25])
        plan['actors'] = acts
        plan['objects'] = dict(mbox=sorted(mb))
        plan['profiles'] = []
        gen.knobs(plan, r, layout_p=0.0)
        return plan

    # ------------------------------------------------------------------ execution
    def resources(self, plan):
        return [('host', h['name']) for h in plan['hosts'] if h['name'] != 'ctl'] + \
               [('link', l['name']) for l in plan['links']]

    def with_faults(self, plan, faults):
        p = copy.deepcopy(plan)
        p.pop('faults', None)
        ctl = []
        for t, (kind, name), via in faults:
            if via == 'api':
                ctl.append(['sleep_until', t])
                ctl.append(['host_off' if kind == 'host' else 'link_off', name])
            else:
                p.setdefault('profiles', []).append(dict(on=kind, kind='state', name=name, period=-1.0, points=[[t, 0]]))
        p['actors'] = p['actors'] + [dict(id='zc', host='ctl', ops=ctl or [['yield']])]
        return p

    @staticmethod
    def event_dates(recs, after=None):
        ds = sorted({r.clock for r in recs if r.clock is not None})
        if after is not None:
            ds = [d for d in ds if d >= after - TIE]
        return ds

    def run(self, plan, scratch):
        logs, faults, rcs, to = [], [], [], False
        res0 = s4u.run_plan(self.with_faults(plan, []), scratch, timeout=self.run_timeout)
        logs.append(res0)
        resources = self.resources(plan)
        cur = res0
        for f in plan.get('faults', []):
            if cur['timed_out'] or cur['rc'] != 0 or not resources:
                break
            recs = s4u.parse_log(cur['log'])
            ds = self.event_dates(recs, after=faults[-1][0] if faults else None)
            if not ds:
                break
            rest = [x for x in resources if x not in [q[1] for q in faults]] or resources
            di = f['date'] % len(ds)
            t = ds[di] + f['off'] * EPS
            if t < 0 or (faults and t < faults[-1][0]):
                t = ds[di]
            via = f['via']
            if via == 'profile' and t <= 0:
                via = 'api'
            faults.append((t, rest[f['res'] % len(rest)], via, di, f['off']))
            cur = s4u.run_plan(self.with_faults(plan, [q[:3] for q in faults]), scratch, timeout=self.run_timeout)
            logs.append(cur)
        res = dict(runs=logs, faults=faults, rc=max(abs(x['rc']) if x['rc'] is not None else 99 for x in logs),
                   timed_out=any(x['timed_out'] for x in logs), log=logs[-1]['log'],
                   stderr_tail=logs[-1].get('stderr_tail', ''))
        res['hash'] = dst.sha(*[x['log'] for x in logs])
        return res

    # ------------------------------------------------------------------ oracle
    def analyse(self, plan, recs, faults):
        """-> (violations, probes): constraints A-D of one run under `faults` = [(t, (kind, name)), ...]"""
        v = []
        probes = dict(inflight=0, failed_ops=0, killed=0, tie=0, blocked_unmatched=0)
        host_of = {a['id']: a['host'] for a in plan['actors']}
        host_of['zc'] = 'ctl'
        rt = routes_of(plan)
        off_host = {n: t for t, (k, n) in faults if k == 'host'}
        off_link = {n: t for t, (k, n) in faults if k == 'link'}
        ops, order = ops_of(recs)
        start, term, onexit, last_rec = {}, {}, {}, {}
        reaped = None
        for r in recs:
            if r.t == 'S' and r.kind == 'actor_start':
                start[r.aid] = r.clock
            elif r.t == 'S' and r.kind == 'deadlock':
                reaped = set()       # the actors still blocked when the deadlock is reported are reaped afterwards
            elif r.t == 'S' and r.kind == 'actor_term':
                term.setdefault(r.aid, r.clock)
                if reaped is not None:
                    reaped.add(r.aid)
            elif r.t == 'S' and r.kind == 'on_exit':
                onexit.setdefault(r.aid, []).append((r.clock, r.kv.get('failed')))
            elif r.t in ('C', 'R'):
                last_rec[r.aid] = r.clock
        end_clock = max([r.clock for r in recs if r.clock is not None] or [0.0])
        deadlock = any(r.t == 'S' and r.kind == 'deadlock' for r in recs)

        # (A) actors on failed hosts
        death = {}
        for aid, h in host_of.items():
            if h in off_host and aid in start:
                t = off_host[h]
                if start[aid] > t + TIE:
                    continue
                tt = term.get(aid)
                if tt is not None and tt < t - TIE:
                    continue     # ended before the failure
                death[aid] = t
                if tt is None or tt > t + TIE:
                    v.append(('survivor', 'actor %s lives on %s, turned off at %r, but terminates at %r' % (aid, h, t, tt)))
                    continue
                probes['killed'] += 1
                selfend = any(r.t == 'S' and r.kind == 'actor_end' and r.aid == aid for r in recs)
                for clk, failed in onexit.get(aid, []):
                    if abs(clk - t) > TIE:
                        v.append(('onexit_date', 'on_exit of %s ran at %r, host failed at %r' % (aid, clk, t)))
                    elif failed != '1' and not selfend:
                        v.append(('onexit_flag', 'on_exit of %s killed by the failure of %s at %r got failed=%s' %
                                  (aid, h, t, failed)))
                if last_rec.get(aid, 0.0) > t + TIE:
                    v.append(('zombie', 'actor %s logged an operation at %r after its host %s failed at %r' %
                              (aid, last_rec[aid], h, t)))

        def dead_at(aid, clk):
            return aid in death and death[aid] <= clk + TIE

        # communications: FIFO matching per mailbox (one sender and one receiver per mailbox by construction)
        slot_act = {}          # slot -> op that created the activity
        usage = {}             # op key -> dict(start=, hosts=set, links=set, kind=)
        by_mbox = {}
        for o in order:
            if o.kind in COMM_CREATE:
                m = o.args[1] if o.kind in ('put_async', 'get_async') else o.args[0]
                side = 's' if o.kind.startswith('put') else 'r'
                by_mbox.setdefault(m, dict(s=[], r=[]))[side].append(o)
                if o.kind in ('put_async', 'get_async'):
                    slot_act[o.args[0]] = o
            elif o.kind == 'exec_async':
                slot_act[o.args[0]] = o
        match = {}             # creating op key -> (match date or None, peer op or None)
        for m, sides in by_mbox.items():
            for i, so in enumerate(sides['s']):
                ro = sides['r'][i] if i < len(sides['r']) else None
                if ro is None:
                    match[so.key] = (None, None)
                    continue
                first, second = (so, ro) if so.cseq < ro.cseq else (ro, so)
                md = max(so.c, ro.c)
                # the side that posted first must still be alive (or detached) when the other one arrives
                gone = dead_at(first.key[0], md) and first.kind != 'put_detach'
                # (the second one may be killed at the very date of its call, before the kernel handles it)
                tie = any(x.key[0] in death and abs(death[x.key[0]] - md) <= TIE for x in (first, second))
                if gone and not tie:
                    match[so.key] = match[ro.key] = (None, None)
                else:
                    match[so.key] = (md, ro, tie)
                    match[ro.key] = (md, so, tie)
            for ro in sides['r'][len(sides['s']):]:
                match[ro.key] = (None, None)

        def comm_usage(o):
            mt = match.get(o.key)
            if not mt or mt[0] is None:
                return None
            peer = mt[1]
            sh, rh = (host_of[o.key[0]], host_of[peer.key[0]])
            if not o.kind.startswith('put'):
                sh, rh = rh, sh
            return dict(start=mt[0], hosts={sh, rh}, links=set(rt.get((sh, rh), [])), kind='comm', tie=mt[2])

        def exec_host(o, args):
            hs = [x[5:] for x in args if x.startswith('host=')]
            return hs[0] if hs else host_of[o.key[0]]

        def failure_date(u):
            """earliest date from which the activity uses a failed resource, or None"""
            ds = [off_host[h] for h in u['hosts'] if h in off_host] + [off_link[l] for l in u['links'] if l in off_link]
            return max(min(ds), u['start']) if ds else None

        prev_ret = getattr(self, '_prev_ret', {})
        for o in order:
            aid = o.key[0]
            u = None
            want = None
            if o.kind in ('put', 'get'):
                u = comm_usage(o)
                want = 'NetworkFailure'
            elif o.kind == 'sendto' and o.args[0] == '-':
                u = dict(start=o.c, hosts={o.args[1], o.args[2]}, links=set(rt.get((o.args[1], o.args[2]), [])),
                         kind='comm', tie=False)
                want = 'NetworkFailure'
            elif o.kind == 'exec':
                u = dict(start=o.c, hosts={exec_host(o, o.args)}, links=set(), kind='exec', tie=False)
                want = 'HostFailure'
            elif o.kind == 'wait':
                co = slot_act.get(o.args[0])
                if co is None:
                    continue
                if co.kind == 'exec_async':
                    u = dict(start=co.c, hosts={exec_host(co, co.args)}, links=set(), kind='exec', tie=False)
                    want = 'HostFailure'
                else:
                    u = comm_usage(co)
                    want = 'NetworkFailure'
            else:
                if o.exc in ('NetworkFailure', 'HostFailure') and o.kind not in ('exec_async', 'put_async', 'get_async', 'put_detach'):
                    v.append(('spurious', '%s of %s returned %s' % (o.kind, aid, o.exc)))
                continue
            fd = failure_date(u) if u else None
            died = death.get(aid)
            if died is not None and (o.r is None or o.r >= died - TIE) and o.c <= died + TIE:
                continue   # the caller itself is killed during the operation: (A) covers it
            if fd is None:
                # nothing it uses ever fails: no failure exception allowed
                if o.exc in ('NetworkFailure', 'HostFailure'):
                    v.append(('spurious', '%s of %s (op %d) returned %s at %r although nothing it uses has failed (%s)' %
                              (o.kind, aid, o.key[2], o.exc, o.r, 'unmatched' if u is None else
                               'hosts %s links %s' % (sorted(u['hosts']), sorted(u['links'])))))
                continue
            # the operation is in use of a failed resource from date fd on (if it lasts until then)
            ustart = max(fd, o.c)      # a wait issued after the failure reports it at once
            done = self.done_date(o)
            if done is not None and done < fd - TIE:
                if o.exc in ('NetworkFailure', 'HostFailure'):
                    v.append(('spurious', '%s of %s (op %d) returned %s at %r, before the failure at %r' %
                              (o.kind, aid, o.key[2], o.exc, o.r, fd)))
                continue   # completed before
            probes['inflight'] += 1
            # tie: without the new failure the operation completed at the very date of the failure
            tie = u.get('tie') or (o.key in prev_ret and prev_ret[o.key][1] is None and
                                   prev_ret[o.key][0] is not None and abs(prev_ret[o.key][0] - fd) <= TIE)
            if o.r is None and u.get('tie'):
                probes['tie'] += 1    # the peer died at the very date of the match: the match may not have happened
            elif o.r is None or o.r > ustart + TIE:
                v.append(('missed_failure', '%s of %s (op %d, called at %r) uses %s which failed at %r, but it %s' %
                          (o.kind, aid, o.key[2], o.c, self.failed_of(u, off_host, off_link), fd,
                           'never returns' if o.r is None else 'returns at %r (exc=%s)' % (o.r, o.exc))))
            elif o.exc != want:
                if tie and o.exc is None:
                    probes['tie'] += 1
                else:
                    v.append(('wrong_outcome', '%s of %s (op %d) uses %s which failed at %r: returned at %r with %s '
                              'instead of %s' % (o.kind, aid, o.key[2], self.failed_of(u, off_host, off_link), fd, o.r,
                                                 o.exc or 'success', want)))
            else:
                probes['failed_ops'] += 1
        # (D) final state
        if deadlock:
            for r in recs:
                if r.t == 'S' and r.kind == 'blocked' and (r.aid not in term or r.aid in (reaped or ())):
                    o = ops.get((r.aid, int(r.kv['inc']), int(r.kv['op'])))
                    if o is None:
                        continue
                    co = o
                    if o.kind == 'wait':
                        co = slot_act.get(o.args[0], o)
                    if co.kind in COMM_CREATE and match.get(co.key, (None, None))[0] is None:
                        probes['blocked_unmatched'] += 1
                    elif co.kind in COMM_CREATE and len(match[co.key]) > 2 and match[co.key][2]:
                        probes['tie'] += 1
                    elif not any(c == 'missed_failure' for c, _ in v):
                        v.append(('stuck', 'run ends in deadlock with %s blocked in %s (op %d) which is not an unmatched '
                                  'communication' % (r.aid, o.kind, o.key[2])))
        return v, probes

    @staticmethod
    def done_date(o):
        """date at which the activity of the operation ended (a wait may be issued long after)"""
        if o.r is not None and o.kind == 'wait' and o.rkv.get('state') == 'FINISHED' and 'finish' in o.rkv:
            return min(o.r, s4u.hx(o.rkv['finish']))
        return o.r

    @staticmethod
    def failed_of(u, off_host, off_link):
        return ', '.join(sorted([h for h in u['hosts'] if h in off_host] + [l for l in u['links'] if l in off_link]))

    def oracle(self, plan, res):
        v = []
        for i, x in enumerate(res['runs']):
            if x['timed_out']:
                return [('hang', 'run %d (with %d failures) did not finish within %ds wall' % (i, i, self.run_timeout))]
            recs = s4u.parse_log(x['log'])
            fatal = [r for r in recs if r.t == 'X']
            if fatal or x['rc'] != 0 or not any(r.t == 'S' and r.kind == 'end' for r in recs[-40:]):
                tail = x.get('stderr_tail', '')[-500:].replace('\n', ' | ')
                return [('crash', 'run %d (faults %s): rc=%s %s ; %s' % (i, res['faults'][:i], x['rc'],
                                                                         fatal[0].raw if fatal else '', tail))]
        probes_tot = {}
        prev = None
        for i, x in enumerate(res['runs']):
            recs = s4u.parse_log(x['log'])
            faults = [(t, rs) for t, rs, via, di, off in res['faults'][:i]]
            # return dates of the previous run (same history up to the new failure): tie detection
            self._prev_ret = {}
            if prev is not None:
                pops, _ = ops_of(prev)
                self._prev_ret = {k: (self.done_date(o), o.exc) for k, o in pops.items()}
            vi, probes = self.analyse(plan, recs, faults)
            if i == 0:
                if any(r.t == 'S' and r.kind == 'deadlock' for r in recs):
                    vi.append(('gen_deadlock', 'generator defect: the fault-free run deadlocks'))
            for c, m in vi:
                v.append((c, 'run %d, failures %s: %s' % (i, [(t, n, via) for t, (k, n), via, _, _ in res['faults'][:i]], m)))
            for k, n in probes.items():
                probes_tot[k] = probes_tot.get(k, 0) + n
            prev = recs
        res['_probes'] = probes_tot
        return v

    def nontrivial(self, plan, res):
        p = res.get('_probes') or {}
        return len(res['runs']) > 1 and (p.get('inflight', 0) + p.get('killed', 0)) > 0

    def signature(self, plan, res):
        return dst.sha(plan.get('prog'), str([(rs, di, off, via) for t, rs, via, di, off in res['faults']]))[:16]

    def stats(self, plan, res):
        p = res.get('_probes') or {}
        st = dict(sim_seconds=0.0)
        recs = s4u.parse_log(res['runs'][-1]['log'])
        end = [r for r in recs if r.t == 'S' and r.kind == 'end']
        st['sim_seconds'] = end[0].clock if end else 0.0
        for t, (k, n), via, di, off in res['faults']:
            st['fault_%s_off_via_%s' % (k, via)] = st.get('fault_%s_off_via_%s' % (k, via), 0) + 1
            st['fault_offset_%s' % {-1: 'before', 0: 'at_event_date', 1: 'after'}[off]] = \
                st.get('fault_offset_%s' % {-1: 'before', 0: 'at_event_date', 1: 'after'}[off], 0) + 1
        st['fault_pairs'] = 1 if len(res['faults']) > 1 else 0
        st['probe_ops_in_flight_on_failed_resource'] = p.get('inflight', 0)
        st['probe_ops_failed_as_expected'] = p.get('failed_ops', 0)
        st['probe_actors_killed_by_host_failure'] = p.get('killed', 0)
        st['probe_ties_accepted'] = p.get('tie', 0)
        st['probe_blocked_on_unmatched_comm'] = p.get('blocked_unmatched', 0)
        st['s4usim_executions'] = len(res['runs'])
        return st

    def shrink(self, plan):
        if len(plan.get('faults', [])) > 1:
            for i in range(len(plan['faults'])):
                p = copy.deepcopy(plan)
                del p['faults'][i]
                yield p
        for f_i, f in enumerate(plan.get('faults', [])):
            if f['off'] != 0:
                p = copy.deepcopy(plan)
                p['faults'][f_i]['off'] = 0
                yield p
            if f['via'] != 'api':
                p = copy.deepcopy(plan)
                p['faults'][f_i]['via'] = 'api'
                yield p
        for p in gen.shrink_plan(plan):
            yield p

    def describe(self, plan, res):
        d = gen.small_desc(plan)
        d['faults'] = [dict(t=t, resource=n, via=via, date_index=di, offset=off) for t, (k, n), via, di, off in res['faults']]
        return d


CHECK = C10()

if __name__ == '__main__':
    dst.main_check(CHECK)
