"""C02 Outcome does not depend on context factory or worker threads (engine A inside engine E, differential)"""
import importlib
import os
import re

import dst
import gen
import s4u
from rng import Rng
from s4ucheck import S4UCheck

SOURCES = ['c04', 'c05', 'c06', 'c07', 'c08', 'c09', 'c11', 'c11', 'c12', 'c03', 'c10p', 'c21']
FACTORIES = ['raw', 'boost', 'thread']
NTHREADS = [1, 2, 4]
SYNCHRO = ['futex', 'posix', 'busy_wait']
S4USIM_DS = dst.BIN + '/s4usim_ds'


def canon(log):
    """event log modulo what parallel execution may legally change: the global sequence numbers and the order in which
    the actors of one scheduling sub-round wrote their records (lines sorted within each sub-round segment)"""
    out, seg = [], []
    for line in log.split('\n'):
        if not line:
            continue
        tk = line.split(' ')
        if tk[0] in ('C', 'R', 'S', 'B', 'X'):
            del tk[1]
        l2 = ' '.join(tk)
        if tk[0] == 'B':
            out.extend(sorted(seg))
            seg = []
            out.append(l2)
        else:
            seg.append(l2)
    out.extend(sorted(seg))
    return out


class C02(S4UCheck):
    pid = 'C02'
    rule = ('each seeded plan (drawn from the generators of the mutex, semaphore, condvar, barrier, mailbox, message-queue, '
            'lifecycle/fault, timed-wait, timing, failure and workload campaigns) is executed once sequentially (raw '
            'factory, 1 thread: the reference) and then under 3 (quick) or 8 (thorough) configurations drawn from '
            'contexts/factory {raw, boost, thread} x contexts/nthreads {1, 2, 4} x contexts/synchro {futex, posix, '
            'busy_wait}, with the real threads of the library (Parmap workers, one thread per actor for the thread '
            'factory) parked and released one at a time by the seeded scheduler detsched (uniform, sticky, PCT or '
            'round-robin strategy; injected faults: spurious condition-variable wake-ups, futex EINTR/EAGAIN/spurious 0, '
            'late thread start, starvation episodes). Oracle: the event log of every configuration - every call and '
            'return of every actor with hex-exact clocks and values, kernel signals, on_exit order, time advances, '
            'sub-round boundaries - equals the reference log once sequence numbers are dropped and the records of one '
            'scheduling sub-round are sorted; no deadlock / step-cap abort of the thread scheduler. '
            'non-trivial = at least one parallel configuration had a sub-round with 2+ actors running and the thread '
            'scheduler had choice points; distinct = call sequence hash + configurations')
    assumptions = ['actors of the generated programs share no memory but through the simulated synchronisations (the '
                   'harness keeps its own tables per actor; plans whose actors touch each other\'s activity handles in one '
                   'sub-round are not generated)',
                   'thread interleavings are decided by detsched at the intercepted synchronisation points '
                   '(pthread_*, sem_*, futex, sched_yield, hook H3 in Parmap), not by the OS']
    budgets = {'quick': dict(runs=400, wall=55), 'thorough': dict(runs=12000, wall=900)}
    run_timeout = 60

    def gen(self, seed, tier):
        r = Rng(seed, 'c02')
        src = r.choice(SOURCES)
        if src == 'c10p':
            plan = importlib.import_module('c10').CHECK.program(r.below(100000))
        else:
            plan = importlib.import_module(src).CHECK.gen(seed, tier)
        plan['seed'] = seed
        plan['source'] = src
        if src == 'c21':
            # the tuner of the workload campaign names activities of other actors through the harness' handle table
            plan['actors'] = [a for a in plan['actors'] if a['id'] != 'tun']
        if src == 'c11':
            # a restarted incarnation registers itself in the harness' name table from its own context, while controllers
            # look their victims up by name: memory shared between actors outside of the simulated synchronisations, which
            # the property excludes. Host reboots with auto-restart stay in C11/C01 (sequential).
            for a in plan['actors']:
                a.pop('autorestart', None)
                a['ops'] = [op for op in a['ops'] if op[0] not in ('host_off', 'host_on')]
        for k in ('mode', 'walk', 'walkseed', 'maxsteps', 'layout', 'aslr'):
            plan['opts'].pop(k, None)
        plan['cfg'] = [c for c in plan.get('cfg', []) if not c.startswith('contexts/')]
        nv = 3 if tier == 'quick' else 8
        vs = []
        for i in range(nv):
            f = r.choice(FACTORIES)
            n = r.choice(NTHREADS) if i else r.choice([2, 4])     # at least one parallel configuration
            if i == 0 and f == 'thread' and r.chance(0.5):
                f = r.choice(['raw', 'boost'])
            strat = r.choice(['uniform', 'uniform', 'sticky', 'pct,d=2', 'pct,d=3', 'rr'])
            spec = 'strategy=%s' % strat
            if r.chance(0.4):
                spec += ',spur=0.05,futex=0.05,late=0.2'
            if r.chance(0.2):
                spec += ',starve=2,starvek=30'
            vs.append(dict(factory=f, nthreads=n, synchro=r.choice(SYNCHRO), dseed=r.randint(1, 2 ** 31), spec=spec))
        plan['variants'] = vs
        return plan

    def run(self, plan, scratch):
        base = dict(plan)
        base.pop('variants', None)
        ref = s4u.run_plan(base, scratch, extra_args=['--cfg=contexts/factory:raw'], timeout=self.run_timeout)
        out = dict(ref)
        out['others'] = []
        for v in plan['variants']:
            p = dict(base)
            p['opts'] = dict(base['opts'])
            p['opts']['detsched'] = '%d:%s' % (v['dseed'], v['spec'])
            args = ['--cfg=contexts/factory:' + v['factory'], '--cfg=contexts/nthreads:%d' % v['nthreads'],
                    '--cfg=contexts/synchro:' + v['synchro']]
            saved = s4u.S4USIM
            s4u.S4USIM = S4USIM_DS
            try:
                res = s4u.run_plan(p, scratch, extra_args=args, timeout=self.run_timeout)
            finally:
                s4u.S4USIM = saved
            m = re.search(r'DETSCHED trace=(\w+) steps=(\d+) switches=(\d+) choice_points=(\d+) threads=(\d+) max_runnable=(\d+)',
                          res.get('stderr_tail', ''))
            ds = dict(zip(('trace', 'steps', 'switches', 'choice_points', 'threads', 'max_runnable'), m.groups())) if m else {}
            out['others'].append(dict(rc=res['rc'], log=res['log'], timed_out=res['timed_out'], ds=ds,
                                      tail=res.get('stderr_tail', '')[-400:]))
        out['hash'] = dst.sha(ref['log'], *[o['log'] + str(o['ds'].get('trace')) for o in out['others']])
        return out

    def oracle(self, plan, res):
        v = []
        if res['timed_out']:
            return [('hang', 'the sequential reference run did not finish')]
        a = canon(res['log'])
        for o, cf in zip(res['others'], plan['variants']):
            name = '%s/nthreads=%d/%s detsched %d:%s' % (cf['factory'], cf['nthreads'], cf['synchro'], cf['dseed'], cf['spec'])
            if o['timed_out']:
                v.append(('hang', 'configuration %s did not finish within %ds' % (name, self.run_timeout)))
                continue
            if o['rc'] in (42, 43):
                v.append(('sched_deadlock' if o['rc'] == 42 else 'sched_stepcap',
                          'configuration %s: the real threads %s ; %s' %
                          (name, 'are all blocked (lost wake-up?)' if o['rc'] == 42 else 'never finish (step cap)',
                           o['tail'].replace('\n', ' | ')[-300:])))
                continue
            b = canon(o['log'])
            if b != a or o['rc'] != res['rc']:
                k = 0
                while k < min(len(a), len(b)) and a[k] == b[k]:
                    k += 1
                v.append(('differs', 'configuration %s differs from the sequential run at canonical line %d: %r vs %r '
                          '(rc %s vs %s) %s' % (name, k, a[k] if k < len(a) else '<end>', b[k] if k < len(b) else '<end>',
                                                res['rc'], o['rc'], o['tail'].replace('\n', ' | ')[-200:] if o['rc'] else '')))
        return v[:2]

    def nontrivial(self, plan, res):
        multi = any(r.t == 'B' and int(r.raw.split('n=')[1]) >= 2 for r in self.recs(res) if r.t == 'B' and 'n=' in r.raw)
        chosen = any(int(o['ds'].get('choice_points', 0)) > 0 for o in res['others'])
        return multi and chosen

    def signature(self, plan, res):
        return dst.sha(gen.signature_of_calls(self.recs(res)),
                       str([(c['factory'], c['nthreads'], c['synchro']) for c in plan['variants']]))[:16]

    def stats(self, plan, res):
        st = self.base_stats(plan, res)
        st['configurations_compared'] = len(res['others'])
        for c, o in zip(plan['variants'], res['others']):
            st['cfg_%s_n%d_%s' % (c['factory'], c['nthreads'], c['synchro'])] = 1
            st['detsched_steps'] = st.get('detsched_steps', 0) + int(o['ds'].get('steps', 0))
            st['detsched_choice_points'] = st.get('detsched_choice_points', 0) + int(o['ds'].get('choice_points', 0))
            st['detsched_switches'] = st.get('detsched_switches', 0) + int(o['ds'].get('switches', 0))
            for k in ('spur', 'futex', 'late', 'starve'):
                if k + '=' in c['spec']:
                    st['fault_cfg_' + k] = st.get('fault_cfg_' + k, 0) + 1
        st['source_' + plan.get('source', '?')] = 1
        return st

    def shrink(self, plan):
        if len(plan['variants']) > 1:
            for i in range(len(plan['variants'])):
                p = dict(plan)
                p['variants'] = [plan['variants'][i]]
                yield p
        for p in gen.shrink_plan(plan):
            p['variants'] = plan['variants']
            yield p

    def describe(self, plan, res):
        d = gen.small_desc(plan)
        d['variants'] = plan['variants']
        return d


CHECK = C02()
