"""C22 Availability profiles are applied exactly (engine A)"""
import gen
from rng import Rng
from s4ucheck import S4UCheck
from refsync import close, EPS


def events_of(p, until):
    """absolute (date, value) events of a profile up to 'until' (exclusive of dates within EPS of it)"""
    out = []
    k = 0
    while True:
        base = k * p['period'] if p['period'] > 0 else 0.0
        for d, v in p['points']:
            if base + d >= until - 10 * EPS:
                return out
            out.append((base + d, v))
        if p['period'] <= 0:
            return out
        k += 1
        if k > 10000:
            return out


def value_at(p, t, initial):
    v = initial
    for d, x in events_of(p, t + 1e30 if p['period'] <= 0 else t + p['period'] + 1):
        if d <= t + EPS:
            v = x
        else:
            break
    return v


class C22(S4UCheck):
    pid = 'C22'
    rule = ('seeded plans: hosts and links carrying speed / bandwidth / latency / state profiles of 1-8 points (dyadic dates, '
            'several points at one date, values > 0), with or without periodic repetition; a sampler actor on an '
            'unaffected host reads speed ratio, bandwidth, latency and on/off state at dates on, just after and between the '
            'profile dates; a lone exec runs on a host with a speed profile and a lone communication on a link with a '
            'bandwidth profile. Oracle: the speed / bandwidth / on-off change signals fire at exactly the profile dates (all '
            'repetitions up to the end of the run, in order); every sampled value equals the piecewise-constant reference; '
            'the lone exec finishes when the integral of the available speed reaches its flops, the lone communication when '
            'the integral of the bandwidth (after the latency phase) reaches its size. non-trivial = at least 3 profile '
            'events fired and an activity spanned one; distinct = hash of profiles and sampling dates')
    assumptions = ['zero speed / bandwidth values are not generated (listed finding C15 cap-zerocap-mm)',
                   'samples taken exactly at an event date are accepted with either the old or the new value only for '
                   'latency (no signal exists to order them); speed/bandwidth/state samples at the date must show the new value']
    budgets = {'quick': dict(runs=2000, wall=50), 'thorough': dict(runs=50000, wall=800)}

    def gen(self, seed, tier):
        r = Rng(seed, 'c22')
        plan = gen.base_plan(seed, nhosts=3, rng=r, factory='raw')
        plan['hosts'][0]['speeds'] = [1e9]
        plan['hosts'][1]['speeds'] = [r.choice([1e9, 2e9])]
        plan['links'] = [dict(name='l0', bw=r.choice([1e6, 4e6]), lat=r.choice([0.0, 0.0, 0.125]), policy='SHARED'),
                         dict(name='l1', bw=1e6, lat=0.25, policy='SHARED')]
        plan['routes'] = [dict(src='h0', dst='h1', links=['l0'], sym=True), dict(src='h0', dst='h2', links=['l1'], sym=True)]
        plan['cfg'] += ['network/model:CM02', 'network/crosstraffic:0', 'network/TCP-gamma:0']

        def mk(kind, on, name, values):
            n = r.randint(1, 8)
            dates = sorted(r.randint(1, 24) * 0.25 for _ in range(n))
            pts = [[d, r.choice(values)] for d in dates]
            period = -1.0
            if r.chance(0.4):
                period = dates[-1] + r.choice([0.0, 0.25, 1.0, 2.5])
                if period <= 0:
                    period = -1.0
            return dict(on=on, kind=kind, name=name, period=period, points=pts)
        profs = []
        if r.chance(0.8):
            profs.append(mk('speed', 'host', 'h1', [0.25, 0.5, 1.0, 0.75]))
        if r.chance(0.7):
            profs.append(mk('bw', 'link', 'l0', [5e5, 1e6, 2e6, 8e6]))
        if r.chance(0.4):
            profs.append(mk('lat', 'link', 'l1', [0.125, 0.5, 0.25]))
        if r.chance(0.5):
            profs.append(mk('state', 'host', 'h2', [0.0, 1.0]))
        if r.chance(0.4):
            profs.append(mk('state', 'link', 'l1', [0.0, 1.0]))
        plan['profiles'] = profs
        # sampler on h0
        ops = []
        t = 0.0
        dates = set()
        for p in profs:
            for d, _ in p['points'][:4]:
                dates.add(d)
                dates.add(d + 0.0625)
        for _ in range(r.randint(2, 6)):
            dates.add(r.randint(0, 60) * 0.25 + r.choice([0.0, 0.125]))
        for d in sorted(dates)[:14]:
            ops.append(['sleep_until', d])
            ops += [['obs_host', 'h1'], ['obs_host', 'h2'], ['obs_link', 'l0'], ['obs_link', 'l1']]
        plan['actors'].append(dict(id='s', host='h0', ops=ops))
        plan['W'] = r.randint(1, 16) * 0.5e9
        plan['actors'].append(dict(id='e', host='h1', ops=[['sleep', r.randint(0, 4) * 0.25], ['exec', plan['W']]]))
        plan['S'] = r.choice([1e6, 4e6, 1.6e7])
        plan['actors'].append(dict(id='c', host='h0', ops=[['sleep', r.randint(0, 4) * 0.25], ['sendto', '-', 'h0', 'h1', plan['S']]]))
        return plan

    @staticmethod
    def integrate(p, initial, scale, start, amount):
        """date at which the integral of scale*value(t) from start reaches amount"""
        t = start
        left = amount
        evs = events_of(p, 1e9) if p and p['period'] <= 0 else (events_of(p, start + 4000.0) if p else [])
        v = initial
        for d, x in evs:
            if d <= start + 0.0:
                v = x
        for d, x in evs:
            if d <= start:
                continue
            cap = scale * v
            if cap > 0 and left <= cap * (d - t):
                return t + left / cap
            left -= cap * (d - t)
            t = d
            v = x
        return t + left / (scale * v)

    def oracle(self, plan, res):
        v = self.crash_violations(plan, res)
        if v:
            return v
        recs = self.recs(res)
        end = max([r.clock for r in recs if r.clock is not None] or [0.0])
        prof = {(p['on'], p['kind'], p['name']): p for p in plan['profiles']}
        hosts = {h['name']: h for h in plan['hosts']}
        links = {l['name']: l for l in plan['links']}
        fired = 0
        # (1) signals
        for (on, kind, name), p in sorted(prof.items()):
            if kind == 'lat':
                continue
            want = events_of(p, end)
            if kind == 'speed':
                got = [(r.clock, float.fromhex(r.kv['avail'])) for r in recs if r.t == 'S' and r.kind == 'host_speed' and r.kv['host'] == name]
            elif kind == 'bw':
                got = [(r.clock, float.fromhex(r.kv['bw'])) for r in recs if r.t == 'S' and r.kind == 'link_bw' and r.kv['link'] == name]
            else:
                sig = 'host_onoff' if on == 'host' else 'link_onoff'
                key = 'host' if on == 'host' else 'link'
                got = [(r.clock, float(r.kv['on'])) for r in recs if r.t == 'S' and r.kind == sig and r.kv[key] == name]
                # only actual changes are signalled
                w2, cur = [], 1.0
                for d, x in want:
                    x = 1.0 if x > 0 else 0.0
                    if x != cur:
                        w2.append((d, x))
                        cur = x
                want = w2
            got = [g for g in got if g[0] < end - 10 * EPS]
            fired += len(got)
            if len(got) != len(want) or any(not close(a[0], b[0]) or a[1] != b[1] for a, b in zip(got, want)):
                k = 0
                while k < min(len(got), len(want)) and close(got[k][0], want[k][0]) and got[k][1] == want[k][1]:
                    k += 1
                v.append(('signal_' + kind, '%s profile of %s: change #%d observed %s, expected %s (%d observed, %d expected '
                          'before t=%r)' % (kind, name, k, got[k] if k < len(got) else None, want[k] if k < len(want) else None,
                                             len(got), len(want), end)))
        # (2) samples
        for r in recs:
            if r.t != 'R' or r.kind not in ('obs_host', 'obs_link') or r.aid != 's':
                continue
            c = [x for x in recs if x.t == 'C' and (x.aid, x.idx) == (r.aid, r.idx)][0]
            name = c.args[0]
            t = r.clock
            if r.kind == 'obs_host':
                p = prof.get(('host', 'speed', name))
                if p:
                    want = value_at(p, t, 1.0)
                    if float.fromhex(r.kv['avail']) != want:
                        v.append(('sample_speed', 'available speed ratio of %s read at %r is %r, the profile says %r' %
                                  (name, t, float.fromhex(r.kv['avail']), want)))
                p = prof.get(('host', 'state', name))
                if p:
                    want = 1 if value_at(p, t, 1.0) > 0 else 0
                    if int(r.kv['on']) != want:
                        v.append(('sample_state', 'host %s read at %r is on=%s, the profile says %d' % (name, t, r.kv['on'], want)))
            else:
                p = prof.get(('link', 'bw', name))
                if p:
                    want = value_at(p, t, links[name]['bw'])
                    if float.fromhex(r.kv['bw']) != want:
                        v.append(('sample_bw', 'bandwidth of %s read at %r is %r, the profile says %r' %
                                  (name, t, float.fromhex(r.kv['bw']), want)))
                p = prof.get(('link', 'lat', name))
                if p:
                    want = value_at(p, t, links[name]['lat'])
                    before = value_at(p, t - 4 * EPS, links[name]['lat'])
                    if float.fromhex(r.kv['lat']) not in (want, before):
                        v.append(('sample_lat', 'latency of %s read at %r is %r, the profile says %r' %
                                  (name, t, float.fromhex(r.kv['lat']), want)))
                p = prof.get(('link', 'state', name))
                if p:
                    want = 1 if value_at(p, t, 1.0) > 0 else 0
                    if int(r.kv['on']) != want:
                        v.append(('sample_state', 'link %s read at %r is on=%s, the profile says %d' % (name, t, r.kv['on'], want)))
        # (3) integrals
        spanned = 0
        for r in recs:
            if r.t == 'R' and r.aid == 'e' and r.kind == 'exec' and not r.kv.get('exc'):
                st, fi = float.fromhex(r.kv['start']), float.fromhex(r.kv['finish'])
                p = prof.get(('host', 'speed', 'h1'))
                want = self.integrate(p, 1.0, hosts['h1']['speeds'][0], st, plan['W'])
                if p and any(st < d < fi for d, _ in events_of(p, fi + 1)):
                    spanned += 1
                if abs(fi - want) > 4e-9 + 1e-9 * want:
                    v.append(('exec_integral', 'lone exec of %r flops started at %r on h1 finished at %r; integrating the speed '
                              'profile gives %r' % (plan['W'], st, fi, want)))
            if r.t == 'R' and r.aid == 'c' and r.kind == 'sendto' and not r.kv.get('exc'):
                st, fi = float.fromhex(r.kv['start']), float.fromhex(r.kv['finish'])
                p = prof.get(('link', 'bw', 'l0'))
                lat = links['l0']['lat']
                want = self.integrate(p, links['l0']['bw'], 1.0, st + lat, plan['S'])
                if p and any(st < d < fi for d, _ in events_of(p, fi + 1)):
                    spanned += 1
                if abs(fi - want) > 4e-9 + 1e-9 * want:
                    v.append(('comm_integral', 'lone comm of %r bytes started at %r on l0 (latency %r) finished at %r; '
                              'integrating the bandwidth profile gives %r' % (plan['S'], st, lat, fi, want)))
        res['_st'] = dict(fired=fired, spanned=spanned)
        return v[:6]

    def nontrivial(self, plan, res):
        if '_st' not in res:
            self.oracle(plan, res)
        st = res.get('_st', {})
        return st.get('fired', 0) >= 3 and st.get('spanned', 0) >= 1

    def signature(self, plan, res):
        import dst
        return dst.sha(str(plan['profiles']), str(plan['actors'][0]['ops'][:8]), plan['W'], plan['S'])

    def stats(self, plan, res):
        st = self.base_stats(plan, res)
        s = res.get('_st', {})
        st['fault_profile_events_fired'] = s.get('fired', 0)
        st['probe_activity_spanning_event'] = s.get('spanned', 0)
        st['probe_periodic_profiles'] = sum(1 for p in plan['profiles'] if p['period'] > 0)
        st['probe_same_date_points'] = sum(1 for p in plan['profiles'] if len({d for d, _ in p['points']}) < len(p['points']))
        return st

    def shrink(self, plan):
        import copy
        for i in range(len(plan['profiles'])):
            p = copy.deepcopy(plan)
            del p['profiles'][i]
            yield p
        for i, pr in enumerate(plan['profiles']):
            for j in range(len(pr['points'])):
                if len(pr['points']) > 1:
                    p = copy.deepcopy(plan)
                    del p['profiles'][i]['points'][j]
                    if p['profiles'][i]['period'] > 0:
                        p['profiles'][i]['period'] = max(p['profiles'][i]['period'], p['profiles'][i]['points'][-1][0])
                    yield p
            if pr['period'] > 0:
                p = copy.deepcopy(plan)
                p['profiles'][i]['period'] = -1.0
                yield p
        a = plan['actors'][0]
        for k in range(0, len(a['ops']), 5):
            p = copy.deepcopy(plan)
            del p['actors'][0]['ops'][k:k + 5]
            yield p


CHECK = C22()
