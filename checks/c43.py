"""C43 Checker and application agree on every transition (engine A' round trip + engine D: simgrid-mc must terminate)"""
import gen
import mcd
import mcdfields
from mcdcheck import EngineDCheck, hash_of, loop_msg, slug
from rng import Rng

KINDS = ('mutex_lock', 'mutex_trylock', 'mutex_recursive', 'sem_acquire', 'sem_timeout', 'cv_wait', 'cv_wait_for',
         'barrier', 'comm_blocking', 'comm_async_wait', 'comm_test', 'comm_wait_any', 'comm_test_any', 'comm_iprobe',
         'mq_blocking', 'mq_async', 'actor_create', 'actor_join', 'actor_sleep', 'actor_exit', 'mc_random')


def _program(kind, r, seed):
    plan = gen.base_plan(seed, nhosts=1, rng=r, factory=r.choice(['raw', 'boost']))
    o = {}
    acts = []

    def A(i, ops, **kw):
        acts.append(dict(id='a%d' % i, host='h0', ops=ops, **kw))
    nm = r.randint(1, 4)
    mi = r.below(nm)
    m = 'm%d' % mi
    if kind.startswith('mutex') or kind.startswith('cv'):
        o['mutex'] = [['m%d' % i, 1 if (kind == 'mutex_recursive' and i == mi) else 0] for i in range(nm)]
    if kind == 'mutex_lock':
        for i in range(r.randint(2, 3)):
            A(i, [['lock', m], ['unlock', m]])
    elif kind == 'mutex_trylock':
        A(0, [['lock', m], ['unlock', m]])
        A(1, [['trylock', m], ['unlock', m]])
    elif kind == 'mutex_recursive':
        A(0, [['lock', m], ['lock', m], ['unlock', m], ['unlock', m]])
        A(1, [['trylock', m], ['unlock', m]])
    elif kind in ('sem_acquire', 'sem_timeout'):
        ns = r.randint(1, 3)
        si = r.below(ns)
        o['sem'] = [['s%d' % i, r.randint(0, 2)] for i in range(ns)]
        s = 's%d' % si
        if kind == 'sem_acquire':
            A(0, [['acquire', s], ['release', s]])
            A(1, [['release', s], ['acquire', s]])
        else:
            A(0, [['acquire_timeout', s, r.choice([0.5, 1.0, 2.0])]])
            A(1, [['release', s]])
    elif kind in ('cv_wait', 'cv_wait_for'):
        nc = r.randint(1, 3)
        ci = r.below(nc)
        o['cv'] = ['c%d' % i for i in range(nc)]
        c = 'c%d' % ci
        w = ['cvwait', c, m] if kind == 'cv_wait' else ['cvwait_for', c, m, r.choice([0.5, 1.0, 3.0])]
        A(0, [['lock', m], w, ['unlock', m]])
        A(1, [[r.choice(['notify_one', 'notify_all']), c]])
        if r.chance(0.4):
            A(2, [['lock', m], [r.choice(['notify_one', 'notify_all']), c], ['unlock', m]])
    elif kind == 'barrier':
        nb = r.randint(1, 3)
        bi = r.below(nb)
        n = r.randint(2, 3)
        o['bar'] = [['b%d' % i, n if i == bi else 2] for i in range(nb)]
        for i in range(n):
            A(i, [['barrier', 'b%d' % bi]])
    elif kind.startswith('comm'):
        nb = r.randint(2, 4)
        o['mbox'] = ['mb%d' % i for i in range(nb)]
        b1 = 'mb%d' % r.below(nb)
        b2 = 'mb%d' % r.below(nb)
        if kind == 'comm_blocking':
            A(0, [['put', b1, 1.0]])
            A(1, [['get', b1]])
            if r.chance(0.5):
                A(2, [['put', b1, 1.0]])
                acts[1]['ops'].append(['get', b1])
        elif kind == 'comm_async_wait':
            A(0, [['put_async', 'x1', b1, 1.0], ['wait', 'x1']])
            A(1, [['get_async', 'x2', b1], ['wait', 'x2']])
        elif kind == 'comm_test':
            A(0, [['get_async', 'x1', b1], ['test', 'x1'], ['wait', 'x1']])
            A(1, [['put', b1, 1.0]])
        elif kind == 'comm_wait_any':
            A(0, [['get_async', 'x1', b1], ['get_async', 'x2', b2], ['wait_any', 'x1', 'x2']])
            A(1, [['put', b1, 1.0]])
            if r.chance(0.6):
                A(2, [['put', b2, 1.0]])
        elif kind == 'comm_test_any':
            A(0, [['get_async', 'x1', b1], ['get_async', 'x2', b2], ['test_any', 'x1', 'x2'], ['wait', 'x1']])
            A(1, [['put', b1, 1.0]])
        elif kind == 'comm_iprobe':
            A(0, [['iprobe', b1, r.choice(['send', 'recv'])], ['get', b1]])
            A(1, [['put', b1, 1.0], ['iprobe', b2, r.choice(['send', 'recv'])]])
    elif kind.startswith('mq'):
        nq = r.randint(1, 3)
        o['mq'] = ['q%d' % i for i in range(nq)]
        q = 'q%d' % r.below(nq)
        if kind == 'mq_blocking':
            A(0, [['mput', q]])
            A(1, [['mget', q]])
        else:
            A(0, [['mput_async', 'x1', q], ['wait', 'x1']])
            A(1, [['mget_async', 'x2', q], ['wait', 'x2']])
    elif kind == 'actor_create':
        A(0, [['sleep', 1.0]] * r.randint(0, 1) + [['create', 't0']] + ([['join', 't0']] if r.chance(0.5) else []))
        A(1, [['sleep', 1.0]])
        acts.append(dict(id='t0', host='h0', template=True, ops=[['sleep', 1.0]]))
    elif kind == 'actor_join':
        n = r.randint(2, 3)
        for i in range(n):
            A(i, [['join', 'a%d' % ((i + 1) % n)]] if i < n - 1 else [['sleep', 1.0]])
        if r.chance(0.3):
            acts[-1]['ops'] = [['join', 'a0']]   # a cycle of joins: deadlock
    elif kind == 'actor_sleep':
        A(0, [['sleep', r.choice([0.5, 1.0, 10.0])], ['sleep', 1.0]])
        A(1, [['sleep', 2.0]])
    elif kind == 'actor_exit':
        A(0, [['sleep', 1.0], ['exit'], ['sleep', 1.0]])
        A(1, [['join', 'a0']])
    elif kind == 'mc_random':
        lo = r.randint(0, 3)
        hi = lo + r.randint(1, 2)
        A(0, [['mc_random', lo, hi]])
        A(1, [['mc_random', 0, 1], ['sleep', 1.0]])
    plan['objects'] = o
    plan['actors'] = acts
    plan['kind'] = kind
    plan['families'] = [kind]
    plan['bound'], plan['ntransitions'] = mcd.interleavings_bound(plan)
    return plan


class C43(EngineDCheck):
    pid = 'C43'
    rule = ('one seeded program per observable simcall kind (mutex lock / try_lock / recursive, semaphore acquire / '
            'acquire_timeout / release, condvar wait / wait_for / notify, barrier, mailbox blocking / async+wait / test / '
            'wait_any / test_any / iprobe, message queue blocking / async, actor create / join / sleep / exit, MC_random) '
            'with seeded parameters: object index among 1-4 decoys, capacities, timeouts, bounds, 2-3 actors. '
            '(1) walker D with mcinfo on 4 seeded schedules: for every executed transition the observer is serialised '
            'and decoded by the real deserialize_transition; oracle: type, actor, object ids and parameters printed by '
            'the application-side observer equal those of the decoded transition and those of the plan (creation order '
            'of the objects, pids, bounds). (2) simgrid-mc on the program with every reduction (message queues: dpor only '
            'in the quick tier): it must end with a verdict or a clear "not supported" message; a run where checker and '
            'application all sleep without consuming cpu for 12 s (protocol deadlock) or that is still running at the '
            '150 s cap is a hang; a run killed by a signal or an internal assertion is a crash. non-trivial = some '
            'transition was compared and some exploration finished; distinct = kind + parameters hash')
    assumptions = ['the wall-clock cap (150 s for programs of at most a few dozen interleavings, three orders of magnitude '
                   'above the idle run time) and the 12 s no-cpu stall rule are used only to decide "hangs"',
                   'fields compared are those both sides print; the memory-access trace is not compared']
    budgets = {'quick': dict(runs=64, wall=40), 'thorough': dict(runs=1500, wall=900)}
    mc_timeout = dict(none=150, reduced=150)

    def gen(self, seed, tier):
        r = Rng(seed, 'c43')
        kind = KINDS[r.below(len(KINDS))]
        plan = _program(kind, r, seed)
        plan['walks'] = [dict(walk=w, walkseed=str(r.randint(1, 2 ** 31)), mcinfo='1', decodealarm='5')
                         for w in ('first', 'uniform', 'uniform', 'pct2')]
        if kind.startswith('mq') and tier == 'quick':
            plan['walks'] = plan['walks'][:1]   # each blocked decoding costs the 5 s alarm
        reds = ['none', 'dpor', 'sdpor', 'odpor', 'udpor']
        if kind.startswith('mq') and tier == 'quick':
            reds = ['dpor']
        plan['mc'] = [dict(red=x, algo='DFS', strategy='none') for x in reds]
        return plan

    def run(self, plan, scratch):
        kind = plan.get('kind', '?')
        ws = mcd.run_walks(plan, scratch, plan['walks'])
        viol = []
        ncmp = 0
        types = set()
        for wi, w in enumerate(ws):
            blocked = [x for x in w['recs'] if x.t == 'X' and x.kv.get('decode_blocked')]
            if blocked:
                dec = [x for x in w['recs'] if x.t == 'S' and x.kind == 'decoding']
                ob = dec[-1].kv.get('ob', '?') if dec else '?'
                import refwalkd
                viol.append(('decode_blocked_' + refwalkd.tr_type(ob), 'kind %s, walk %d: deserialize_transition never '
                             'returns on what the observer %s serialised (it waits for more bytes than were sent; under '
                             'simgrid-mc checker and application then wait for each other)' % (kind, wi, ob)))
                continue
            if w['crashed']:
                viol.append(('crash_walker', 'walker D crashed on kind %s (%s)' % (kind, w['crashed'])))
                continue
            pids = {}
            cur = {}
            Rk = {}
            for rec in w['recs']:
                if rec.t == 'R':
                    Rk[(rec.aid, rec.idx)] = rec
            last_step = None
            for rec in w['recs']:
                if rec.t == 'S' and rec.kind == 'actor_start':
                    pids[rec.aid.split('#')[0]] = int(rec.kv['pid'])
                elif rec.t == 'C':
                    cur[rec.aid] = rec
                elif rec.t == 'S' and rec.kind == 'step':
                    last_step = rec
                elif rec.t == 'T' and last_step is not None:
                    app = mcdfields.parse_ob(rec.kv.get('ob', ''))
                    chk = mcdfields.parse_tr(rec.kv.get('type', '?'), rec.kv.get('str', ''))
                    c = cur.get(last_step.kv.get('aid'))
                    exp = {}
                    if c is not None:
                        exp = mcdfields.expected_from_plan(plan, [c.kind] + list(c.args), pids, Rk.get((c.aid, c.idx)))
                    ncmp += 1
                    types.add(chk['type'])
                    for d in mcdfields.compare(app, chk, exp, int(last_step.kv['pid']), int(rec.kv['aid'])):
                        viol.append(('decode_' + chk['type'], 'kind %s, walk %d step %s (%s %s): %s  [application: %s | '
                                     'checker: %s]' % (kind, wi, rec.args[0], c.kind if c else '?',
                                                       ' '.join(c.args) if c else '', d, rec.kv.get('ob'), rec.kv.get('str'))))
        mcs = [self.explore(plan, scratch, cfg, 'm%d' % i) for i, cfg in enumerate(plan['mc'])]
        for r in mcs:
            if r['finished']:
                continue
            if r['stalled']:
                viol.append(('hang_' + kind, 'simgrid-mc %s on a %d-transition %s program: checker and application all '
                             'slept without consuming cpu for 12 s (each waits for the other); last lines: %s' %
                             (r['config'], plan['ntransitions'], kind, _tail(r))))
            elif r['looping']:
                viol.append(('hang_' + kind, loop_msg(r)))
            elif r['timed_out']:
                viol.append(('hang_' + kind, 'simgrid-mc %s on a %d-transition %s program still running after %d s; last '
                             'lines: %s' % (r['config'], plan['ntransitions'], kind, self.mc_timeout['reduced'], _tail(r))))
            elif r['unsupported']:
                pass   # a clear error message
            else:
                viol.append(('crash_%s_%s' % (kind, slug(r['criticals'][0]) if r['criticals'] else 'rc%s' % r['rc']),
                             'simgrid-mc %s on kind %s ended with status %s: %s' %
                             (r['config'], kind, r['rc'], ' | '.join(r['criticals'][:2]) or _tail(r))))
        res = dict(W=dict(kind=kind, ncmp=ncmp, types=sorted(types)), mc=[self.summary(r) for r in mcs],
                   viol=sorted(set(viol))[:12], nwalks=len(ws), walk_steps=sum(w['steps'] for w in ws), ncmp=ncmp,
                   types=sorted(types), ref_outcomes=[])
        res['hash'] = hash_of(res)
        return res

    def nontrivial(self, plan, res):
        return res['ncmp'] > 0 and any(s['finished'] for s in res['mc'])

    def stats(self, plan, res):
        st = self.mc_stats(res)
        st['transitions_compared'] = res['ncmp']
        for k in KINDS:
            st['probe_kind_' + k] = 1 if plan.get('kind') == k else 0
        for t in res['types']:
            st['type_' + t] = 1
        st['mc_verdicts'] = sum(1 for s in res['mc'] if s['finished'])
        st['mc_clear_errors'] = sum(1 for s in res['mc'] if s['unsupported'])
        return st



def _tail(r):
    lines = [l for l in r['stderr_tail'].split('\n') if l.strip() and 'xbt_cfg' not in l]
    return ' | '.join(lines[-2:])[:300]


CHECK = C43()
