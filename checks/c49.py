"""C49 Parallel map processes each element exactly once - engine E (detsched).

simgrid::xbt::Parmap<int> from /repo's CURRENT src/xbt/parmap.hpp runs on real threads that are parked and
released one at a time by the seeded scheduler /verif/sim/detsched.cpp; every atomic access of the header, every
pthread mutex/condvar operation, every futex system call and every sched_yield is a scheduling point."""
import multiprocessing as mp
import os

import dst
from rng import Rng

MODES = ['posix', 'futex', 'busy_wait']
FAULT_KEYS = ['spur', 'futex', 'late', 'starve']


def est_steps(mode, workers, applies, destroy):
    """rough number of scheduling points of a run under a non-spinning schedule (PCT change points and
    starvation episodes are drawn in [1, est]); calibrated on the unchanged tree, deliberately not exact"""
    per_elem = 2.0
    per_apply = {'posix': 9.0, 'futex': 5.0, 'busy_wait': 5.0}[mode] * workers + 4
    tot = 3.0 * workers + sum(per_elem * n + per_apply for n in applies)
    if destroy:
        tot += per_apply + 2 * workers
    return max(20, int(tot))


class C49(dst.Check):
    pid = 'C49'
    level = 'exploration'
    rule = ('one case = (mode in posix/futex/busy_wait, 1-16 workers, 1-5 applies of 0-40 (quick) / 0-500 (thorough) '
            'elements, destroy or leak the pool, scheduler strategy in uniform/sticky/PCT(d<=4)/round-robin, subset of '
            'faults in spurious condvar wake-up / futex EINTR-EAGAIN-spurious 0 / late thread start / starvation), all '
            'drawn from the case seed. Non-trivial: >=2 workers, >=1 element and >=1 scheduling point with several '
            'runnable threads. Distinct: the scheduler trace hash (sequence of (thread, operation kind, chosen '
            'thread)), i.e. distinct interleavings actually executed.')
    assumptions = [
        'sequential consistency at the granularity of intercepted operations: threads are serialised, so weak-memory '
        'reorderings (the relaxed fetch_add in next()/work()) and word tearing are out of reach',
        'std::mutex/std::condition_variable/std::thread of libstdc++ map to the interposed pthread functions; '
        'futex waits go through syscall(2) (checked: FutexSynchro uses syscall(SYS_futex, ...))',
        'FUTEX_WAIT compares and enqueues atomically, a FUTEX_WAKE without waiter is lost (kernel semantics)',
        'a spurious wake-up or an early futex return never rescues a deadlock: nobody runnable while somebody is '
        'unfinished is reported even if a fault is pending',
        'a wall-clock timeout of the harness (60 s) is infrastructure, livelock is caught by the step cap instead',
    ]
    real_vs_stub = {
        'Parmap (src/xbt/parmap.hpp)': 'real (current header, compiled into the harness with instrumented atomics)',
        'worker threads': 'real pthreads, serialised by detsched',
        'pthread mutex/cond, futex, sched_yield': 'stub: simulated by detsched (that is the seam)',
        'context factory / EngineImpl': 'real (an Engine is created; workers create their maestro-like context)',
    }
    budgets = {'quick': dict(runs=20000, wall=40), 'thorough': dict(runs=250000, wall=600)}
    shrink_budget = 300

    # ------------------------------------------------------------------------------------------------------
    def gen(self, seed, tier):
        r = Rng(seed, 'c49')
        mode = r.choice(MODES)
        workers = r.wchoice([(1, 4), (2, 18), (3, 18), (4, 16), (r.randint(5, 8), 28), (r.randint(9, 16), 16)])
        napplies = r.randint(1, 5)
        if tier == 'quick':
            maxlen = 40
        else:
            maxlen = r.wchoice([(40, 70), (150, 22), (500, 8)])
        shape = r.wchoice([('random', 6), ('increasing', 3), ('tiny', 2)])
        applies = []
        for _ in range(napplies):
            x = r.random()
            if x < 0.08:
                n = 0
            elif x < 0.14:
                n = 1
            elif shape == 'tiny':
                n = r.randint(1, min(maxlen, 2 * workers))
            else:
                n = r.randint(1, maxlen)
            applies.append(n)
        if shape == 'increasing':
            applies.sort()
        strat = r.wchoice([('uniform', 22), ('sticky', 22), ('pct', 40), ('rr', 16)])
        sched = dict(strat=strat)
        if strat == 'sticky':
            sched['sticky'] = r.choice([0.5, 0.8, 0.95])
        elif strat == 'pct':
            sched['d'] = r.randint(1, 4)
        elif strat == 'rr':
            sched['quantum'] = r.randint(1, 6)
        destroy = 1 if r.chance(0.85) else 0
        faults = {}
        nf = r.wchoice([(0, 30), (1, 30), (2, 25), (3, 10), (4, 5)])
        for k in r.sample(FAULT_KEYS, nf):
            if k in ('spur', 'futex'):
                faults[k] = r.choice([0.05, 0.2, 0.5])
            elif k == 'late':
                faults['late'] = r.choice([0.3, 0.7, 1.0])
                faults['latemax'] = r.choice([20, 100, 400])
            else:
                faults['starve'] = r.randint(1, 3)
                faults['starvek'] = r.choice([20, 100, 300])
        est0 = est_steps(mode, workers, applies, destroy)
        est = max(10, int(est0 * r.choice([0.5, 1.0, 1.0, 1.5])))
        # step cap (livelock): measured steps/est0 on the unchanged tree: median 0.9, max 14 (starvation + late start)
        return dict(seed=seed & 0x7fffffffffffffff, mode=mode, workers=workers, applies=applies, destroy=destroy,
                    sched=sched, faults=faults, est=est, cap=100 * est0 + 20000)

    # ------------------------------------------------------------------------------------------------------
    def binary(self):
        return os.environ.get('VERIF_PARMAPSIM', dst.BIN + '/parmapsim')

    def cmdline(self, plan):
        a = ['seed=%d' % plan['seed'], 'mode=%s' % plan['mode'], 'workers=%d' % plan['workers'],
             'applies=%s' % ','.join(str(n) for n in plan['applies']), 'destroy=%d' % plan['destroy'],
             'est=%d' % plan['est'], 'cap=%d' % plan['cap']]
        for k in sorted(plan['sched']):
            a.append('%s=%s' % (k, plan['sched'][k]))
        for k in sorted(plan['faults']):
            a.append('%s=%s' % (k, plan['faults'][k]))
        return a

    # Pool workers keep one `parmapsim server` each: plans run one after the other inside that process (process
    # creation - exec or fork - costs 5-25 ms here and anti-scales with concurrency; a plan itself costs 1-5 ms).
    # After a clean plan no thread is left and all lazy initialisation was done by the warm-up, so a plan behaves
    # as in a fresh process (bin/selftest-detsched compares server and stand-alone hashes). After any verdict other
    # than ok the server exits and is restarted. Everything outside the pool (violation gate, shrinking, replay,
    # --dump) executes a fresh parmapsim process per plan through dst.run_proc.
    _server = None

    def _server_run(self, exe, args):
        import select
        import subprocess
        for attempt in (0, 1):
            sv = C49._server
            if sv is None or sv.poll() is not None:
                sv = C49._server = subprocess.Popen([exe, 'server'], stdin=subprocess.PIPE, stdout=subprocess.PIPE,
                                                    stderr=subprocess.STDOUT, start_new_session=True,
                                                    preexec_fn=dst._die_with_parent)
            try:
                sv.stdin.write((' '.join(args) + '\n').encode())
                sv.stdin.flush()
            except (BrokenPipeError, OSError):
                pass  # it died (e.g. in its warm-up): what it printed is the result
            buf = b''
            fd = sv.stdout.fileno()
            eof = False
            while True:
                r, _, _ = select.select([fd], [], [], 90)
                if not r:
                    sv.kill()
                    C49._server = None
                    raise dst.Infra('parmapsim server silent for 90 s: %s' % ' '.join(args))
                chunk = os.read(fd, 65536)
                if not chunk:
                    eof = True
                    break
                buf += chunk
                if buf.endswith(b'\n') and buf[buf.rfind(b'\n', 0, -1) + 1:].startswith(b'END '):
                    break
            lines = buf.decode(errors='replace').splitlines()
            if eof or not lines or not lines[-1].startswith('END '):
                # the server died while running this plan: a crash of the code under test (or the 60 s alarm)
                rc = sv.wait()
                C49._server = None
                if not buf and attempt == 0:
                    continue
                if rc == -14:
                    raise dst.Infra('parmapsim wall-clock timeout (60 s): %s' % ' '.join(args))
                body = lines
            else:
                end = dict(kv.split('=', 1) for kv in lines[-1].split()[1:] if '=' in kv)
                rc = int(end.get('rc', -1))
                body = lines[:-1]
                if rc != 0:
                    C49._server = None  # it exits by itself after a violation
            out = '\n'.join(l for l in body if not l.startswith('DETSCHED '))
            err = '\n'.join(l for l in body if l.startswith('DETSCHED ') or not l[:1].isupper())
            return rc, out, err
        raise dst.Infra('parmapsim server could not be started')

    def run(self, plan, scratch):
        exe = self.binary()
        if not os.path.exists(exe):
            raise dst.Infra('harness %s missing' % exe)
        ident = mp.current_process()._identity
        ncpu = os.cpu_count() or 1
        cpu = ((ident[0] - 1) if ident else os.getpid()) % ncpu
        if os.environ.get('VERIF_C49_CPU'):
            cpu = int(os.environ['VERIF_C49_CPU'])
        args = self.cmdline(plan) + ['cpu=%d' % cpu]
        if ident and not os.environ.get('VERIF_C49_NOSERVER'):
            rc, out, err = self._server_run(exe, args)
        else:
            rc, out, err, timed_out = dst.run_proc([exe] + args, timeout=60)
            if timed_out:
                raise dst.Infra('parmapsim wall-clock timeout (60 s): %s' % ' '.join(args))
            out = out.decode(errors='replace')
            err = err.decode(errors='replace')
        res = dict(rc=rc, verdict=None, fields={}, violation='', pending='', stderr=err[-600:], applies_ok=0)
        if 'START' not in out and 'RESULT ' not in out and 'WARMUP' not in out:
            raise dst.Infra('parmapsim did not start (rc=%s): %s %s' % (rc, out[-200:], err[-300:]))
        for line in out.splitlines():
            if line.startswith('RESULT '):
                f = dict(kv.split('=', 1) for kv in line.split()[1:] if '=' in kv)
                res['fields'] = f
                res['verdict'] = f.get('verdict')
            elif line.startswith('VIOLATION '):
                res['violation'] = line[len('VIOLATION '):]
            elif line.startswith('PENDING '):
                res['pending'] = line
            elif line.startswith('APPLY '):
                res['applies_ok'] += 1
        res['detsched'] = [l for l in err.splitlines() if l.startswith('DETSCHED ')][:1]
        res['hash'] = dst.sha(rc, res['verdict'], res['fields'].get('hash'), res['fields'].get('steps'),
                              res['violation'], res['applies_ok'])
        return res

    # ------------------------------------------------------------------------------------------------------
    def oracle(self, plan, res):
        v = []
        f = res['fields']
        rc = res['rc']
        verdict = res['verdict']
        where = 'phase=%s apply=%s' % (f.get('phase'), f.get('apply'))
        if verdict is None or rc not in (0, 1, 42, 43):
            v.append(('crash', 'parmapsim died rc=%s without verdict (%s) stderr: %s' % (rc, where, res['stderr'][-300:])))
            return v
        if verdict in ('count', 'early_return', 'join'):
            v.append((verdict, res['violation'] or res['pending'] or where))
        elif verdict == 'deadlock' or rc == 42:
            v.append(('deadlock', 'nobody runnable, somebody unfinished (%s): %s' % (where, ' '.join(res['detsched']))))
        elif verdict == 'stepcap' or rc == 43:
            v.append(('stepcap', 'step cap reached (%s): %s' % (where, ' '.join(res['detsched']))))
        elif verdict == 'ok':
            # cross-checks on what the binary printed (oracle also outside the binary)
            if rc != 0:
                v.append(('crash', 'verdict ok but rc=%d' % rc))
            if int(f.get('applies_done', -1)) != len(plan['applies']) or res['applies_ok'] != len(plan['applies']):
                v.append(('early_return', 'only %s of %d applies reported' % (f.get('applies_done'), len(plan['applies']))))
            if int(f.get('elems', -1)) != sum(plan['applies']):
                v.append(('count', '%s elements processed, %d expected' % (f.get('elems'), sum(plan['applies']))))
            if int(f.get('threads', -1)) != plan['workers']:
                v.append(('join', '%s threads created for %d workers' % (f.get('threads'), plan['workers'])))
            if plan['destroy'] and int(f.get('live', -1)) != 1:
                v.append(('join', '%s threads alive after destruction' % f.get('live')))
        else:
            v.append(('crash', 'unknown verdict %s' % verdict))
        return v

    def nontrivial(self, plan, res):
        f = res['fields']
        return plan['workers'] >= 2 and sum(plan['applies']) > 0 and int(f.get('choice_points', 0)) > 0

    def signature(self, plan, res):
        return res['fields'].get('hash', '')

    def stats(self, plan, res):
        f = res['fields']
        g = lambda k: int(f.get(k, 0))
        s = {}
        for k in f:
            if k.startswith('fault_'):
                s[k] = g(k)
        s['steps'] = g('steps')
        s['switches'] = g('switches')
        s['elements'] = g('elems')
        multi = plan['workers'] >= 2 and sum(plan['applies']) > 0
        s['probe_maestro_worked'] = 1 if multi and g('maestro_elems') > 0 else 0
        s['probe_maestro_idle'] = 1 if multi and g('maestro_elems') == 0 else 0
        s['probe_worker_idle_round'] = 1 if g('idle_worker_rounds') > 0 else 0
        s['probe_all_workers_active'] = 1 if multi and g('active_workers') == plan['workers'] else 0
        s['probe_spurious_wake'] = 1 if g('fault_spurious') > 0 else 0
        s['probe_futex_early_return'] = 1 if g('fault_futex_eintr') + g('fault_futex_eagain') + g('fault_futex_spur0') > 0 else 0
        s['probe_late_start'] = 1 if g('fault_late_start') > 0 else 0
        s['probe_starved'] = 1 if g('fault_starve') > 0 else 0
        s['fair_forced_runs'] = 1 if g('fair_forced') > 0 else 0
        s['probe_empty_apply'] = 1 if 0 in plan['applies'] else 0
        s['probe_pool_leaked'] = 0 if plan['destroy'] else 1
        s['mode_' + plan['mode']] = 1
        s['strat_' + plan['sched']['strat']] = 1
        s['workers_ge9'] = 1 if plan['workers'] >= 9 else 0
        return s

    # ------------------------------------------------------------------------------------------------------
    def shrink(self, plan):
        def mk(**kw):
            p = dict(plan)
            p.update(kw)
            p['est'] = est_steps(p['mode'], p['workers'], p['applies'], p['destroy'])
            p['cap'] = 100 * p['est'] + 20000
            return p
        ap = plan['applies']
        # fewer applies
        if len(ap) > 1:
            yield mk(applies=ap[:-1])
            for i in range(len(ap) - 1):
                yield mk(applies=ap[:i] + ap[i + 1:])
        # shorter vectors
        for i, n in enumerate(ap):
            for m in sorted(set([0, n // 2, n - 1])):
                if 0 <= m < n:
                    yield mk(applies=ap[:i] + [m] + ap[i + 1:])
        # fewer workers
        for w in sorted(set([2, plan['workers'] // 2, plan['workers'] - 1])):
            if 1 <= w < plan['workers']:
                yield mk(workers=w)
        # fewer faults
        fl = plan['faults']
        for k in FAULT_KEYS:
            if k in fl:
                yield mk(faults={a: b for a, b in fl.items() if not a.startswith(k)})
        # simpler strategy
        sc = plan['sched']
        if sc['strat'] == 'pct' and sc.get('d', 0) > 1:
            yield mk(sched=dict(strat='pct', d=sc['d'] - 1))
        if sc['strat'] == 'pct' and sc.get('d', 0) == 1:
            yield mk(sched=dict(strat='pct', d=0))
        if sc['strat'] in ('sticky', 'rr'):
            yield mk(sched=dict(strat='uniform'))
        if sc['strat'] == 'rr' and sc.get('quantum', 1) > 1:
            yield mk(sched=dict(strat='rr', quantum=1))
        # other seeds of the scheduler on the smaller shapes are not tried: the seed is part of the plan

    def describe(self, plan, res):
        f = res['fields']
        return dict(plan=plan, cmd=' '.join(['parmapsim'] + self.cmdline(plan)), verdict=res['verdict'], rc=res['rc'],
                    trace_hash=f.get('hash'), steps=f.get('steps'), switches=f.get('switches'),
                    active_workers=f.get('active_workers'), violation=res['violation'])

    def known_matchers(self):
        return {}


CHECK = C49()
