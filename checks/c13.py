"""C13 Workflow dependencies are respected (engine A; workflow built by maestro, assignments by maestro or by actors)"""
import gen
from rng import Rng
from s4ucheck import S4UCheck
from refsync import close, EPS


class C13(S4UCheck):
    pid = 'C13'
    rule = ('seeded acyclic workflows of 2-12 (thorough: up to 30) activities - executions, host-to-host communications and '
            'disk I/Os - built through the API before the simulation starts: add_successor edges i->j (i<j, seeded density), '
            'start() called in seeded order, each activity assigned to its host / hosts / disk either before start(), after '
            'start(), or by an actor at a seeded later date (so that assignment, not the dependencies, is sometimes what '
            'delays it); seeded platforms so that activities overlap and share resources. Oracle from the start / completion '
            '/ veto signals: no activity starts before all its predecessors finished and it is assigned; each starts at '
            'max(latest finish of its predecessors, its assignment date, its start() date) exactly; every activity finishes; '
            'a veto only happens while the activity is unassigned or has an unfinished predecessor. non-trivial = at least '
            'one activity with >=2 predecessors and one late assignment; distinct = hash of the DAG and the schedule')
    assumptions = ['DOT loader not covered (the build has no graphviz); DAX/JSON loaders not covered yet']
    budgets = {'quick': dict(runs=2000, wall=45), 'thorough': dict(runs=50000, wall=700)}

    def gen(self, seed, tier):
        r = Rng(seed, 'c13')
        nh = r.randint(2, 3)
        plan = gen.base_plan(seed, nhosts=nh, rng=r)
        plan['opts']['actsig'] = '1'
        for h in plan['hosts']:
            h['cores'] = r.randint(1, 2)
            h['disks'] = [dict(name='d_' + h['name'], rbw=1e6, wbw=1e6)]
        gen.full_mesh(plan, r, lat_choices=(0.0, 0.001), bw_choices=(1e6, 1e7))
        n = r.randint(2, 30 if tier == 'thorough' else 12)
        nodes = []
        mops = []
        late = []
        for i in range(n):
            kind = r.wchoice([('exec', 5), ('comm', 3), ('io', 2)])
            name = 'n%d' % i
            if kind == 'exec':
                mops.append(['exec_init', name, r.randint(1, 8) * 0.25e9, 'nohost'])
                asg = ['assign', name, 'h%d' % r.below(nh)]
            elif kind == 'comm':
                a, b = r.sample(range(nh), 2)
                mops.append(['comm_init', name, r.choice([1e5, 1e6])])
                asg = ['assign', name, 'h%d' % a, 'h%d' % b]
            else:
                mops.append(['io_dag', name, r.choice([1e5, 5e5, 1e6]), r.choice(['read', 'write'])])
                asg = ['assign', name, 'd_h%d' % r.below(nh)]
            when = r.wchoice([('early', 5), ('after', 3), ('late', 2)])
            if kind == 'comm' and when == 'early':
                when = 'after'   # Comm::set_source/set_destination call start() themselves: an explicit start() afterwards
                                 # would start the communication twice (usage error), so comms are started first
            nodes.append(dict(name=name, kind=kind, preds=[], asg=asg, when=when))
        dens = r.choice([0.15, 0.3, 0.5])
        for j in range(n):
            for i in range(j):
                if r.chance(dens) and len(nodes[j]['preds']) < 4:
                    nodes[j]['preds'].append(nodes[i]['name'])
                    mops.append(['dep', nodes[i]['name'], nodes[j]['name']])
        for nd in nodes:
            if nd['when'] == 'early':
                mops.append(nd['asg'])
        order = list(range(n))
        r.shuffle(order)
        for i in order:
            mops.append(['start', nodes[i]['name']])
        for nd in nodes:
            if nd['when'] == 'after':
                mops.append(nd['asg'])
        lateops = []
        for nd in nodes:
            if nd['when'] == 'late':
                lateops.append((r.randint(1, 16) * 0.25, nd['asg']))
        lateops.sort(key=lambda x: x[0])
        ops = []
        for d, asg in lateops:
            ops.append(['sleep_until', d])
            ops.append(asg)
        plan['mops'] = mops
        plan['nodes'] = nodes
        plan['actors'].append(dict(id='late', host='h0', ops=ops or [['sleep', 0.25]]))
        return plan

    def oracle(self, plan, res):
        v = self.crash_violations(plan, res)
        if v:
            return v
        recs = self.recs(res)
        start, done, asg_clock, asg_seq, start_call = {}, {}, {}, {}, {}
        vetoes = []
        calls = {}
        for r in recs:
            if r.t == 'S' and r.kind == 'act_start':
                start.setdefault(r.kv['name'], (r.clock, r.seq))
            elif r.t == 'S' and r.kind == 'act_done':
                done.setdefault(r.kv['name'], (r.clock, r.kv.get('state'), r.seq))
            elif r.t == 'S' and r.kind == 'act_veto':
                vetoes.append((r.kv['name'], r.clock, r.seq))
            elif r.t == 'R' and r.kind == 'assign' and (r.aid, r.inc, r.idx) in calls:
                asg_seq[calls[(r.aid, r.inc, r.idx)].args[0]] = r.seq   # fully assigned once the operation returned
            elif r.t == 'C':
                calls[(r.aid, r.inc, r.idx)] = r
                if r.kind == 'assign':
                    asg_clock[r.args[0]] = r.clock
                elif r.kind == 'start':
                    start_call[r.args[0]] = r.clock
        late = 0
        for nd in plan['nodes']:
            n = nd['name']
            if n not in done or done[n][1] != 'FINISHED':
                v.append(('not_finished', 'activity %s (%s) never finished: %s' % (n, nd['kind'], done.get(n))))
                continue
            if n not in start:
                v.append(('no_start_signal', 'activity %s finished without a start signal' % n))
                continue
            st = start[n][0]
            pf = [done[p][0] for p in nd['preds'] if p in done]
            want = max(pf + [asg_clock.get(n, 0.0), start_call.get(n, 0.0)])
            for p in nd['preds']:
                if p not in done or done[p][0] > st + EPS:
                    v.append(('started_before_pred', 'activity %s started at %r before its predecessor %s finished (%s)' %
                              (n, st, p, done.get(p, ('never',))[0])))
            if asg_clock.get(n, 0.0) > st + EPS:
                v.append(('started_unassigned', 'activity %s started at %r, assigned only at %r' % (n, st, asg_clock[n])))
            if not close(st, want):
                v.append(('start_date', 'activity %s started at %r; predecessors finished at %s, assigned at %r, start() at %r: '
                          'expected %r' % (n, st, pf, asg_clock.get(n), start_call.get(n), want)))
            if nd['when'] == 'late' and asg_clock.get(n, 0) >= max(pf + [0.0]):
                late += 1
        byname = {nd['name']: nd for nd in plan['nodes']}
        for n, clk, seq in vetoes:
            nd = byname.get(n)
            if nd is None:
                continue
            unassigned = asg_seq.get(n, 1 << 60) > seq
            pending = any(p not in done or done[p][2] > seq for p in nd['preds'])
            if not unassigned and not pending:
                v.append(('veto_spurious', 'activity %s was vetoed at %r although it was assigned and all its predecessors had '
                          'finished' % (n, clk)))
        res['_st'] = dict(late=late, multi=sum(1 for nd in plan['nodes'] if len(nd['preds']) >= 2), vetoes=len(vetoes))
        return v[:6]

    def nontrivial(self, plan, res):
        st = res.get('_st') or {}
        return st.get('multi', 0) >= 1 and st.get('late', 0) >= 1

    def signature(self, plan, res):
        import dst
        return dst.sha(str(plan['mops']), str(plan['actors'][0]['ops']))

    def stats(self, plan, res):
        st = self.base_stats(plan, res)
        s = res.get('_st') or {}
        st['probe_assignment_delayed_start'] = s.get('late', 0)
        st['probe_nodes_with_2plus_preds'] = s.get('multi', 0)
        st['probe_vetoes'] = s.get('vetoes', 0)
        st['activities'] = len(plan['nodes'])
        return st

    def shrink(self, plan):
        import copy
        names = [nd['name'] for nd in plan['nodes']]
        for n in reversed(names):
            p = copy.deepcopy(plan)
            p['nodes'] = [nd for nd in p['nodes'] if nd['name'] != n]
            for nd in p['nodes']:
                nd['preds'] = [x for x in nd['preds'] if x != n]
            p['mops'] = [op for op in p['mops'] if n not in op[1:3]]
            ops = p['actors'][0]['ops']
            keep = []
            i = 0
            while i < len(ops):
                if ops[i][0] == 'sleep_until' and i + 1 < len(ops) and ops[i + 1][1] == n:
                    i += 2
                    continue
                keep.append(ops[i])
                i += 1
            p['actors'][0]['ops'] = keep or [['sleep', 0.25]]
            yield p
        for k, op in enumerate(plan['mops']):
            if op[0] == 'dep':
                p = copy.deepcopy(plan)
                del p['mops'][k]
                for nd in p['nodes']:
                    if nd['name'] == op[2]:
                        nd['preds'] = [x for x in nd['preds'] if x != op[1]]
                yield p


CHECK = C13()
