"""C19 Update algorithms and solver options give the same timings (engine A, differential)"""
import dst
import gen
import s4u
import workload
from rng import Rng
from s4ucheck import S4UCheck

CONFIGS = {
    'lazy': ['cpu/optim:Lazy', 'network/optim:Lazy'],
    'full': ['cpu/optim:Full', 'network/optim:Full', 'cpu/maxmin-selective-update:no',
             'network/maxmin-selective-update:no'],
    'full_sel': ['cpu/optim:Full', 'network/optim:Full', 'cpu/maxmin-selective-update:yes',
                 'network/maxmin-selective-update:yes'],
    'ti': ['cpu/optim:TI', 'network/optim:Lazy'],
}


class C19(S4UCheck):
    pid = 'C19'
    rule = ('seeded workloads: 2-5 actors on 2-4 hosts (1-4 cores) and shared links: execs (blocking, asynchronous, with '
            'bounds and priorities, priority changes), host-to-host comms sharing links, disk I/Os, activity suspend/resume '
            'at dyadic dates, host speed and link bandwidth profiles in a fraction of runs. Each plan runs under cpu/optim '
            'x network/optim x selective update in {Lazy/Lazy, Full/Full without selective update, Full/Full with it} and, '
            'when the plan has single-core hosts and neither bounds nor priorities, cpu/optim:TI. Oracle: the return date '
            'of every operation (hence the completion date of every activity) is the same in all configurations within '
            '1e-6 relative + 1e-8 absolute. non-trivial = at least two activities overlapped on one resource and a '
            'suspend/resume or priority change or profile event happened; distinct = call sequence hash of the first run')
    assumptions = ['tolerance 1e-6 relative + 1e-8 absolute (calibrated on the unchanged tree: lazy and full updates round '
                   'differently)', 'TI compared only on workloads it supports (single core, no bound/priority/profile)']
    budgets = {'quick': dict(runs=600, wall=55), 'thorough': dict(runs=20000, wall=800)}

    def gen(self, seed, tier):
        r = Rng(seed, 'c19')
        plan = gen.base_plan(seed, rng=r, factory='raw')
        ti = r.chance(0.25)
        nh = workload.platform(plan, r, multicore=not ti)
        workload.actors(plan, r, nh, bounds=not ti, prios=not ti, suspend=not ti, threads=not ti)
        plan['ti'] = ti
        plan['profiles'] = []
        if not ti and r.chance(0.4):
            for _ in range(r.randint(1, 2)):
                if r.chance(0.5):
                    plan['profiles'].append(dict(on='host', kind='speed', name='h%d' % r.below(nh), period=r.choice([-1.0, 4.0]),
                                                 points=[[r.randint(1, 8) * 0.25, r.choice([0.5, 0.25, 1.0])] for _ in range(r.randint(1, 3))]))
                elif plan['links']:
                    plan['profiles'].append(dict(on='link', kind='bw', name=r.choice(plan['links'])['name'], period=-1.0,
                                                 points=[[r.randint(1, 8) * 0.25, r.choice([5e5, 2e6, 1e7])] for _ in range(r.randint(1, 2))]))
            # one profile per (resource, kind)
            uniq = {}
            for p in plan['profiles']:
                uniq[(p['on'], p['kind'], p['name'])] = p
            plan['profiles'] = [uniq[k] for k in sorted(uniq)]
            for p in plan['profiles']:
                p['points'].sort()
                # strictly increasing dates
                seen, pts = set(), []
                for d, v in p['points']:
                    if d not in seen:
                        seen.add(d)
                        pts.append([d, v])
                p['points'] = pts
        return plan

    def run(self, plan, scratch):
        names = ['lazy', 'full', 'full_sel'] + (['ti'] if plan.get('ti') else [])
        outs = {}
        for n in names:
            p = dict(plan)
            p['cfg'] = list(plan['cfg']) + CONFIGS[n]
            outs[n] = s4u.run_plan(p, scratch, timeout=self.run_timeout)
        res = dict(outs['lazy'])
        res['others'] = {n: dict(rc=o['rc'], log=o['log'], timed_out=o['timed_out'], stderr_tail=o.get('stderr_tail', ''))
                         for n, o in outs.items() if n != 'lazy'}
        res['hash'] = dst.sha(*[outs[n]['log'] for n in names])
        return res

    def oracle(self, plan, res):
        v = self.crash_violations(plan, res)
        if v:
            return v
        base = workload.completion_dates(self.recs(res))
        for n, o in sorted(res['others'].items()):
            if o['timed_out'] or o['rc'] != 0:
                v.append(('crash_' + n, 'configuration %s: rc=%s timed_out=%s %s' % (n, o['rc'], o['timed_out'], o['stderr_tail'][-300:])))
                continue
            other = workload.completion_dates(s4u.parse_log(o['log']))
            for k in sorted(base):
                if k not in other:
                    v.append(('missing_' + n, 'operation %s completed under Lazy/Lazy but not under %s' % (k, n)))
                    break
                a, b = base[k][0], other[k][0]
                if abs(a - b) > 1e-8 + 1e-6 * max(abs(a), abs(b)) or base[k][1] != other[k][1]:
                    v.append(('date_differs_' + n, 'operation %s of %s returned at %r under Lazy/Lazy and at %r under %s' %
                              (k[2], k[0], a, b, CONFIGS[n])))
                    break
        return v[:4]

    def nontrivial(self, plan, res):
        ops = [op[0] for a in plan['actors'] for op in a['ops']]
        return ops.count('exec') + ops.count('exec_async') + ops.count('sendto') >= 2 and \
            ('asuspend' in ops or 'set_prio' in ops or bool(plan.get('profiles')) or plan.get('ti'))

    def stats(self, plan, res):
        st = self.base_stats(plan, res)
        st['configs_compared'] = 1 + len(res['others'])
        st['probe_ti_runs'] = 1 if plan.get('ti') else 0
        st['probe_profile_runs'] = 1 if plan.get('profiles') else 0
        ops = [op[0] for a in plan['actors'] for op in a['ops']]
        st['fault_activity_suspends'] = ops.count('asuspend')
        st['probe_priority_changes'] = ops.count('set_prio')
        return st


CHECK = C19()
