"""C32 groups and communicators (engine C)."""
import mpicommon as M


class C32(M.MpiCheck):
    pid = 'C32'
    rule = ('worlds of 1..12 ranks; seeded group algebra (incl, excl, range_incl, range_excl, union, intersection, '
            'difference, translate_ranks, compare) and communicator constructors (Comm_split with seeded colours/keys incl. '
            'MPI_UNDEFINED and duplicate keys, Comm_dup, Comm_create with one group or two disjoint groups, splits of '
            'splits, constructors in the middle of traffic), every result compared with the MPI definition; then '
            'concurrent traffic with identical tags on all live communicators. Non-trivial: at least 3 constructor/algebra '
            'results and one message were checked. Distinct: event-order hash.')
    prof = dict(name='C32', np=(1, 12), nmsg=dict(quick=(4, 24), thorough=(4, 30)), ncomm=(1, 4), groups=True, wild=0.5,
                probes=0.5, midcoll=1, types='basic', cap=5000, free_comms=True, cross=1.5)
    own = ('split-', 'dup-', 'create-', 'group-', 'inter-order', 'translate', 'compare', 'cross-comm', 'match-comm')
    max_reported = 4
    probes = M.MpiCheck.probes + ('probe_wildcard_choice>1',)
    budgets = {'quick': dict(runs=1200, wall=22), 'thorough': dict(runs=20000, wall=780)}

    def nontrivial(self, plan, res):
        return res['stats'].get('comm_steps_checked', 0) >= 3


CHECK = C32()
