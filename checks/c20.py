"""C20 Isolated activities follow the documented formulas (engine A; degenerate one-party simulation)"""
import gen
from rng import Rng
from s4ucheck import S4UCheck

GAMMA = 4194304.0


def piecewise(spec, size):
    """'t1:v1;t2:v2;...' : value of the largest threshold <= size"""
    best = None
    for part in spec.split(';'):
        t, v = part.split(':')
        t, v = float(t), float(v)
        if size > t and (best is None or t >= best[0]):  # sizes exactly on a threshold are not generated
            best = (t, v)
    return best[1] if best else 1.0


class C20(S4UCheck):
    pid = 'C20'
    rule = ('seeded single-activity plans on generated platforms: exec of W flops on a host of speed S (1-4 cores, '
            'pstates); sleep d; host-to-host communication of s bytes over a route of 1-4 links (SHARED / FATPIPE / '
            'SPLITDUPLEX, symmetric or not) under network models raw (network/model:CM02 with all factors 1 and gamma 0), '
            'CM02, LV08 (documented constants 13.01 / 0.97 or seeded constant factors) and SMPI (seeded piecewise '
            'factors), TCP gamma 0 / default / seeded, cross-traffic on/off; disk read/write of s bytes; parallel task of '
            'pure computation on 1-4 hosts (host/model:ptask_L07). Oracle: closed forms of docs/source/Models.rst, '
            'relative tolerance 1e-9 + 2e-9 absolute. non-trivial = communication with latency>0 and size>0, or ptask on '
            '>=2 hosts, or multi-link route; distinct = (kind, model, parameters) hash')
    assumptions = ['gamma-limited transfers are only checked with bandwidth factor 1 (the code applies the bandwidth factor '
                   'to the gamma bound as well; the documentation is silent on that combination)',
                   'one-party plans: no interleaving dimension, the observable is simulated time']
    budgets = {'quick': dict(runs=2500, wall=45), 'thorough': dict(runs=60000, wall=600)}

    def gen(self, seed, tier):
        r = Rng(seed, 'c20')
        kind = r.wchoice([('comm', 6), ('exec', 2), ('sleep', 1), ('io', 2), ('ptask', 2)])
        plan = gen.base_plan(seed, nhosts=r.randint(2, 4), rng=r, factory='raw')
        plan['kind'] = kind
        for h in plan['hosts']:
            h['speeds'] = [r.choice([1e9, 2.5e9, 1e8, 7.3e8])]
            h['cores'] = r.randint(1, 4)
        exp = {}
        ops = []
        if kind == 'exec':
            W = r.choice([1e9, 3.7e8, 12345678.0, 1.0, 5e10])
            ops = [['exec', W]]
            exp = dict(dur=W / plan['hosts'][0]['speeds'][0])
        elif kind == 'sleep':
            d = r.choice([0.5, 1.0, 1e-3, 123.456, 1e5])
            ops = [['sleep', d]]
            exp = dict(dur=d, sleep=True)
        elif kind == 'io':
            rb, wb = r.choice([1e6, 5e7, 123456.0]), r.choice([1e6, 2e7, 654321.0])
            plan['hosts'][0]['disks'] = [dict(name='d0', rbw=rb, wbw=wb)]
            s = r.choice([1.0, 1e6, 123456789.0, 4096.0])
            t = r.choice(['read', 'write'])
            ops = [['io', 'd0', s, t]]
            exp = dict(dur=s / (rb if t == 'read' else wb))
        elif kind == 'ptask':
            plan['cfg'].append('host/model:ptask_L07')
            n = r.randint(1, len(plan['hosts']))
            hs = plan['hosts'][:n]
            fl = [r.choice([1e9, 2e8, 5e9, 0.0]) for _ in hs]
            if all(f == 0 for f in fl):
                fl[0] = 1e9
            gen.full_mesh(plan, r, lat_choices=(0.001,), bw_choices=(1e8,))
            ops = [['ptask', '-', n] + [h['name'] for h in hs] + fl + [0.0] * (n * n)]
            exp = dict(dur=max(f / h['speeds'][0] for f, h in zip(fl, hs)))
        else:
            model = r.choice(['raw', 'CM02', 'LV08', 'LV08f', 'SMPI'])
            nl = r.randint(1, 4)
            pol = r.choice(['SHARED', 'SHARED', 'FATPIPE', 'SPLITDUPLEX'])
            links = []
            for i in range(nl):
                links.append(dict(name='l%d' % i, bw=r.choice([1e6, 1.25e8, 1e9, 3.3e7]), lat=r.choice([0.0, 1e-5, 1e-3, 0.01, 0.1]),
                                  policy=pol if i == 0 else r.choice(['SHARED', pol])))
            plan['links'] = list(links)
            sym = r.chance(0.7)
            names = [(l['name'] + ':UP') if l['policy'] == 'SPLITDUPLEX' else l['name'] for l in links]
            plan['routes'] = [dict(src='h0', dst='h1', links=names, sym=sym)]
            if not sym:
                plan['links'].append(dict(name='back', bw=1e9, lat=1e-4, policy='SHARED'))
                plan['routes'].append(dict(src='h1', dst='h0', links=['back'], sym=False))
            cross = r.chance(0.5)
            gamma = r.choice([0.0, GAMMA, GAMMA, 1e5])
            latf, bwf = 1.0, 1.0
            cfg = ['network/crosstraffic:%d' % (1 if cross else 0)]
            if model == 'raw':
                cfg += ['network/model:CM02', 'network/latency-factor:1.0', 'network/bandwidth-factor:1.0', 'network/weight-S:0.0']
                gamma = 0.0
            elif model == 'CM02':
                cfg += ['network/model:CM02']
            elif model == 'LV08':
                cfg += ['network/model:LV08']
                latf, bwf = 13.01, 0.97
            elif model == 'LV08f':
                latf, bwf = r.choice([1.0, 2.5, 10.4]), r.choice([1.0, 0.92, 0.5])
                cfg += ['network/model:LV08', 'network/latency-factor:%r' % latf, 'network/bandwidth-factor:%r' % bwf]
            # (sizes beyond 2^31 and 2^32 bytes too: message sizes are doubles in the API)
            s = r.choice([1.0, 100.0, 1e4, 65535.0, 65537.0, 1e6, 1e8, 0.0, 2147483649.0, 3e9, 4294967297.0, 1e11])
            if model == 'SMPI':
                ls = '65536:%r;1000:%r;0:%r' % (r.choice([2.0, 11.6]), r.choice([1.5, 3.0]), r.choice([1.0, 2.01]))
                bs = '65536:%r;1000:%r;0:%r' % (r.choice([0.94, 1.0]), r.choice([0.69, 0.5]), r.choice([0.81, 1.0]))
                cfg += ['network/model:SMPI', 'network/latency-factor:' + ls, 'network/bandwidth-factor:' + bs]
                latf, bwf = piecewise(ls, s), piecewise(bs, s)
            cfg.append('network/TCP-gamma:%r' % gamma)
            plan['cfg'] += cfg
            ops = [['sendto', '-', 'h0', 'h1', s]]
            lat = sum(l['lat'] for l in links)
            shared_back = cross and sym
            bw = None
            for l in links:
                b = l['bw']
                if shared_back and l['policy'] == 'SHARED':
                    b = b / 1.05
                bw = b if bw is None else min(bw, b)
            eff = bw * bwf
            gamma_limited = gamma > 0 and lat > 0 and gamma / (2 * lat) < bw
            exp = dict(lat=lat, latf=latf, bwf=bwf, bw=bw, gamma=gamma, gamma_limited=gamma_limited, size=s, model=model)
            if gamma_limited:
                exp['dur'] = (lat * latf + s / (gamma / (2 * lat))) if bwf == 1.0 else None
            else:
                exp['dur'] = lat * latf + (s / eff if s > 0 else 0.0)
        plan['expect'] = exp
        plan['actors'] = [dict(id='a0', host='h0', ops=ops)]
        return plan

    def oracle(self, plan, res):
        v = self.crash_violations(plan, res)
        if v:
            return v
        exp = plan['expect']
        if exp.get('dur') is None:
            return []
        rec = [r for r in self.recs(res) if r.t == 'R' and r.aid == 'a0' and r.idx == 0]
        if not rec or rec[0].kv.get('exc'):
            return [('no_result', 'the activity did not complete normally: %s' % (rec[0].raw if rec else 'no return record'))]
        r = rec[0]
        if exp.get('sleep'):
            got = r.clock
        else:
            got = float.fromhex(r.kv['finish']) - float.fromhex(r.kv['start'])
            if abs(r.clock - float.fromhex(r.kv['finish'])) > 2e-9:
                v.append(('return_date', 'activity finished at %s but the wait returned at %r' % (r.kv['finish'], r.clock)))
        want = exp['dur']
        if abs(got - want) > 2e-9 + 1e-9 * abs(want):
            v.append(('formula_' + plan['kind'], '%s took %r, the documented formula gives %r (%s)' %
                      (plan['kind'], got, want, {k: exp[k] for k in exp if k != 'dur'})))
        return v

    def nontrivial(self, plan, res):
        e = plan['expect']
        if plan['kind'] == 'comm':
            return e['lat'] > 0 and e['size'] > 0 and e.get('dur') is not None
        if plan['kind'] == 'ptask':
            return plan['actors'][0]['ops'][0][2] >= 2
        return True

    def signature(self, plan, res):
        import dst
        return dst.sha(plan['kind'], str(sorted(plan['expect'].items())), str(plan['cfg']))

    def stats(self, plan, res):
        st = self.base_stats(plan, res)
        st['kind_' + plan['kind']] = 1
        e = plan['expect']
        if plan['kind'] == 'comm':
            st['model_' + e['model']] = 1
            st['probe_gamma_limited'] = 1 if e['gamma_limited'] else 0
            st['probe_unchecked_gamma_with_bw_factor'] = 1 if e.get('dur') is None else 0
        return st

    def shrink(self, plan):
        return []


CHECK = C20()
