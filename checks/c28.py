"""C28 MPI point-to-point matching and non-overtaking (engine C, sim/mpisim.c)."""
import mpicommon as M


class C28(M.MpiCheck):
    pid = 'C28'
    rule = ('seeded MPI programs of 2..6 ranks: a global sequence of messages projected on the ranks (deadlock-free under '
            'fully synchronous sends, checked by a pessimistic executor), modes Send/Isend/Ssend/Issend/Bsend/Ibsend/Rsend/'
            'Irsend/Sendrecv, receives Recv/Irecv/Probe+Recv/Iprobe+Recv with ANY_TAG anywhere and ANY_SOURCE in fan-in phases, '
            'completion by Wait/Test/Waitall/Waitany/Testall, 1..3 communicators, sizes around smpi/async-small-thresh and '
            'smpi/send-is-detached-thresh (both varied), seeded platform and think times. Non-trivial: at least two '
            'messages were received and checked. Distinct: hash of the global order of (rank, call kind, peer/message) '
            'events as they happened in simulated time.')
    prof = dict(name='C28', np=(2, 6), nmsg=dict(quick=(6, 28), thorough=(6, 40)), ncomm=(0, 2), wild=1, probes=1,
                trunc=0.15, self_msgs=True, types='basic', cap=40000)
    own = ('bytes', 'canary', 'late-copy', 'status-', 'count', 'trunc-', 'rc', 'match-', 'cross-comm', 'dup', 'overtake',
           'lost', 'probe-', 'req-twice', 'recv-order', 'stuck-match')
    probes = M.MpiCheck.probes + ('probe_wildcard_choice>1', 'probe_truncate')
    budgets = {'quick': dict(runs=1500, wall=22), 'thorough': dict(runs=24000, wall=780)}

    def nontrivial(self, plan, res):
        return res['stats'].get('recvs_checked', 0) >= 2


CHECK = C28()
