"""C06 Condition variable semantics (engine A native)"""
import gen
from rng import Rng
from s4ucheck import S4UCheck


class C06(S4UCheck):
    pid = 'C06'
    rule = ('seeded plans: 2-6 actors, 1-2 condition variables each with its own mutex, or two conditions sharing one mutex; waiters do lock; wait | '
            'wait_for(t) | wait_until(d); unlock, notifiers do notify_one | notify_all with or without the mutex; dyadic '
            'think times so notifications land before, between, at the deadline of, and after waits; t includes 0. '
            'Oracle: FIFO reference model (oldest waiter woken or notification lost, notify_all wakes those present, '
            'return only after the mutex is re-acquired through its FIFO, timeout iff not notified within t). '
            'non-trivial = at least one wait was issued and a notification or timeout woke it; distinct = call sequence hash')
    assumptions = ['order of call records inside a sub-round = kernel handling order (sequential factories)',
                   'notification and timeout at the same date (within 2e-9): either outcome accepted']
    budgets = {'quick': dict(runs=2500, wall=50), 'thorough': dict(runs=60000, wall=800)}

    def gen(self, seed, tier):
        r = Rng(seed, 'c06')
        plan = gen.base_plan(seed, nhosts=r.randint(1, 3), rng=r)
        ncv = r.randint(1, 2)
        plan['objects'] = dict(cv=['c%d' % i for i in range(ncv)], mutex=[['m%d' % i, 0] for i in range(ncv)])
        nact = r.randint(2, 6)
        zero_class = r.chance(0.25)
        shared_mutex = ncv == 2 and r.chance(0.35)    # two conditions on one mutex (not_full / not_empty)
        for ai in range(nact):
            ops = []
            waiter = r.chance(0.55)
            for _ in range(r.randint(1, 4)):
                i = r.below(ncv)
                cv, m = 'c%d' % i, ('m0' if shared_mutex else 'm%d' % i)
                if r.chance(0.7):
                    ops.append(['sleep', gen.think(r, 0.25)])
                if waiter if r.chance(0.8) else not waiter:
                    ops.append(['lock', m])
                    c = r.below(10)
                    if c < 4:
                        ops.append(['cvwait', cv, m])
                    elif c < 8:
                        t = r.choice([0.0, -1.0]) if (zero_class and r.chance(0.4)) else r.randint(1, 8) * 0.25
                        ops.append(['cvwait_for', cv, m, t])
                    else:
                        ops.append(['cvwait_until', cv, m, r.randint(0, 16) * 0.25])
                    if r.chance(0.3):
                        ops.append(['sleep', gen.think(r, 0.3)])
                    ops.append(['unlock', m])
                else:
                    withm = r.chance(0.5)
                    if withm:
                        ops.append(['lock', m])
                    ops.append([r.choice(['notify_one', 'notify_one', 'notify_all']), cv])
                    if withm:
                        if r.chance(0.3):
                            ops.append(['sleep', gen.think(r, 0.3)])
                        ops.append(['unlock', m])
            plan['actors'].append(dict(id='a%d' % ai, host='h%d' % r.below(len(plan['hosts'])), ops=ops))
        # a final broadcaster so that most runs terminate
        if r.chance(0.7):
            ops = [['sleep', 6.0]]
            for i in range(ncv):
                ops.append(['notify_all', 'c%d' % i])
            plan['actors'].append(dict(id='z', host='h0', ops=ops))
        gen.knobs(plan, r, walk_p=0.35)
        return plan

    def oracle(self, plan, res):
        return self.sync_violations(plan, res, ('cv', 'mutex'))

    def nontrivial(self, plan, res):
        return self.model(plan, res).stats['cv_wait'] > 0

    def stats(self, plan, res):
        st = self.base_stats(plan, res)
        ms = self.model(plan, res).stats
        st['probe_cv_waits'] = ms['cv_wait']
        st['probe_cv_timeouts'] = ms['cv_timeout']
        st['probe_lost_notifications'] = ms['cv_lost_notify']
        st['probe_tie_timeout_vs_notify'] = ms['tie']
        st['probe_relock_contended'] = ms['contended_lock']
        return st


CHECK = C06()
