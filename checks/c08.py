"""C08 Mailbox communications are exactly-once, FIFO and intact (engine A native)"""
import gen
from rng import Rng
from s4ucheck import S4UCheck

COMM_CLASSES = ('dup', 'invented', 'order', 'ghost', 'payload', 'unmatched_return', 'lost')


class C08(S4UCheck):
    pid = 'C08'
    rule = ('seeded plans: 2-6 actors on 2-4 hosts joined by links with seeded latency/bandwidth, 1-3 mailboxes; every '
            'put carries a unique payload object (id, size, checksum); ops: put / put(timeout) / put_async+wait|test|'
            'wait_any / put_init+start / put_detach, get / get(timeout) / get_async+wait|wait_for|test, cancel, '
            'mailboxes with a permanent receiver set before any traffic (class "perm") or after sends are queued (class '
            '"perm_late", a fraction of runs); class "filter": blocking puts/gets carrying match data (tag) and/or a match filter '
            '(only peers with a given tag are accepted), mixed with plain requests; dyadic think times. Oracle: FIFO matching reference model over the '
            'request order: each successful get returns the payload of the oldest unmatched put that both filters accept, at most '
            'once, intact; '
            'a put that reported a failure is never delivered; a blocking put/get returns normally only if matched. '
            'non-trivial = at least 2 payloads delivered and both receive-first and send-first matches or a timeout '
            'occurred; distinct = hash of the global (actor, op, object) call sequence')
    assumptions = ['order of call records inside a sub-round = kernel handling order (sequential factories)',
                   'a request timing out at the very date a counterpart is posted: either outcome accepted (follows the run)',
                   'fault-free campaign: no kills or resource failures here (those are in C10/C11 campaigns)']
    budgets = {'quick': dict(runs=2500, wall=55), 'thorough': dict(runs=60000, wall=800)}

    def gen_filter(self, plan, r, nh, mbs):
        """match data and match filters (the low-level send/recv of s4u::Comm): tagged and untagged blocking puts,
        gets that only accept one tag, puts that only accept tagged gets, mixed with plain asynchronous requests.
        No timeout, cancel or permanent receiver in this class."""
        nact = r.randint(3, 6)
        sn = [0]
        for ai in range(nact):
            ops = []
            sender = r.chance(0.5)
            for _ in range(r.randint(2, 6)):
                mb = r.choice(mbs[:2])
                if r.chance(0.6):
                    ops.append(['sleep', gen.think(r, 0.2)])
                send = sender if r.chance(0.8) else not sender
                c = r.below(10)
                size = r.choice([1.0, 1000.0, 1e5])
                tag = r.choice([1, 2, 3])
                if send:
                    if c < 3:
                        ops.append(['put', mb, size, 'tag=%d' % tag])
                    elif c < 5:
                        ops.append(['put', mb, size])
                    elif c < 6:
                        ops.append(['put', mb, size, 'tag=%d' % tag, 'want=%d' % r.choice([1, 2, 3])])
                    elif c < 7:
                        ops.append(['put', mb, size, 'want=%d' % r.choice([1, 2])])
                    else:
                        sn[0] += 1
                        ops.append(['put_async', 'x%d' % sn[0], mb, size])
                        ops.append(['wait', 'x%d' % sn[0]])
                else:
                    if c < 4:
                        ops.append(['get', mb, 'want=%d' % tag])
                    elif c < 6:
                        ops.append(['get', mb])
                    elif c < 7:
                        ops.append(['get', mb, 'tag=%d' % tag])
                    elif c < 8:
                        ops.append(['get', mb, 'tag=%d' % tag, 'want=%d' % r.choice([1, 2, 3])])
                    else:
                        sn[0] += 1
                        ops.append(['get_async', 'x%d' % sn[0], mb])
                        ops.append(['wait', 'x%d' % sn[0]])
            plan['actors'].append(dict(id='a%d' % ai, host='h%d' % r.below(nh), ops=ops))
        gen.knobs(plan, r)
        return plan

    def gen(self, seed, tier):
        r = Rng(seed, 'c08')
        nh = r.randint(2, 4)
        plan = gen.base_plan(seed, nhosts=nh, rng=r)
        gen.full_mesh(plan, r, lat_choices=(0.0, 0.0009765625, 0.125, 0.25), bw_choices=(1e6, 1e8))
        nmb = r.randint(1, 3)
        mbs = ['mb%d' % i for i in range(nmb)]
        plan['objects'] = dict(mbox=mbs)
        nact = r.randint(2, 6)
        mode = r.wchoice([('plain', 6), ('perm', 2), ('perm_late', 1), ('filter', 2)])
        plan['class'] = mode
        if mode == 'filter':
            return self.gen_filter(plan, r, nh, mbs)
        slot_n = [0]

        def slot():
            slot_n[0] += 1
            return 'x%d' % slot_n[0]
        acts = []
        for ai in range(nact):
            ops = []
            sender = r.chance(0.5)
            for _ in range(r.randint(2, 7)):
                mb = r.choice(mbs)
                if r.chance(0.5):
                    ops.append(['sleep', gen.think(r, 0.2)])
                send = sender if r.chance(0.8) else not sender
                c = r.below(10)
                size = r.choice([0.0, 1.0, 1000.0, 1e5, 1e6])
                if send:
                    if c < 4:
                        ops.append(['put', mb, size])
                    elif c < 6:
                        ops.append(['put', mb, size, 'timeout=%r' % (r.randint(1, 8) * 0.25 + 0.0625)])
                    elif c < 8:
                        s = slot()
                        ops.append(['put_async', s, mb, size])
                        if r.chance(0.4):
                            ops.append(['sleep', gen.think(r, 0.2)])
                        w = r.below(6)
                        if w < 3:
                            ops.append(['wait', s])
                        elif w == 3:
                            ops.append(['wait_for', s, r.randint(1, 8) * 0.25])
                            ops.append(['wait', s])
                        elif w == 4:
                            ops.append(['test', s])
                            ops.append(['wait', s])
                        else:
                            ops.append(['cancel', s])
                    elif c < 9:
                        ops.append(['put_detach', mb, size])
                    else:
                        s = slot()
                        ops.append(['put_init', s, mb, size])
                        first = r.choice(['start', 'wait', 'test'])
                        ops.append([first, s])
                        if first != 'wait':
                            ops.append(['wait', s])
                else:
                    if c < 4:
                        ops.append(['get', mb])
                    elif c < 6:
                        ops.append(['get', mb, 'timeout=%r' % (r.randint(1, 8) * 0.25 + 0.0625)])
                    else:
                        s = slot()
                        ops.append(['get_async', s, mb])
                        if r.chance(0.4):
                            ops.append(['sleep', gen.think(r, 0.2)])
                        w = r.below(6)
                        if w < 3:
                            ops.append(['wait', s])
                        elif w == 3:
                            ops.append(['wait_for', s, r.randint(1, 8) * 0.25])
                            ops.append(['wait', s])
                        elif w == 4:
                            ops.append(['test', s])
                            ops.append(['wait', s])
                        else:
                            ops.append(['cancel', s])
            acts.append(dict(id='a%d' % ai, host='h%d' % r.below(nh), ops=ops))
        if mode == 'perm':
            # a0 is the permanent receiver of mb0 for the whole run: it is the only getter there, it outlives the
            # senders, and senders use blocking or detached puts (an async put dies with its actor)
            for a in acts:
                ops = []
                for op in a['ops']:
                    if len(op) > 1 and 'mb0' in op[1:3]:
                        if op[0] in ('get', 'get_async') and a is not acts[0]:
                            continue
                        if op[0] in ('put_async', 'put_init'):
                            op = ['put', 'mb0', op[3]]
                    ops.append(op)
                a['ops'] = ops
            acts[0]['ops'].insert(0, ['set_receiver', 'mb0', 'a0'])
            for a in acts[1:]:
                a['ops'].insert(0, ['sleep', 0.25])
            acts[0]['ops'] += [['sleep', 12.0]] + [['get', 'mb0', 'timeout=1.0']] * 3
        elif mode == 'perm_late':
            pos = r.randint(1, max(1, len(acts[0]['ops'])))
            acts[0]['ops'].insert(pos, ['set_receiver', 'mb0', 'a0'])
            acts[0]['ops'] += [['sleep', 12.0]] + [['get', 'mb0', 'timeout=1.0']] * 3
        plan['actors'] = acts
        gen.knobs(plan, r)
        return plan

    def oracle(self, plan, res):
        v = self.sync_violations(plan, res, COMM_CLASSES)
        if plan.get('class') == 'perm_late' and any(op[0] == 'set_receiver' for a in plan['actors'] for op in a['ops']):
            # separate class: a receiver made permanent after sends were queued (kept apart from the main classes so
            # that the known finding recorded for it can never hide a violation elsewhere)
            v = [(c + '_permlate', m) for c, m in v]
        return v

    def final_state_violations(self, plan, res, prefix='final'):
        return []  # blocked comm waits depend on transfer completion, which this model does not predict

    def nontrivial(self, plan, res):
        m = self.model(plan, res)
        return len(m.delivered) >= 2 and m.stats['mbox_recv_first'] > 0 and m.stats['mbox_send_first'] > 0

    def stats(self, plan, res):
        st = self.base_stats(plan, res)
        m = self.model(plan, res)
        st['payloads_delivered'] = len(m.delivered)
        st['probe_recv_posted_first'] = m.stats['mbox_recv_first']
        st['probe_send_posted_first'] = m.stats['mbox_send_first']
        st['probe_tie_timeout_vs_post'] = m.stats['tie']
        st['probe_perm_receiver_runs'] = 1 if plan.get('class') == 'perm' else 0
        st['probe_perm_late_runs'] = 1 if plan.get('class') == 'perm_late' else 0
        st['fault_timeouts'] = sum(1 for r in self.recs(res) if r.t == 'R' and r.kv.get('exc') == 'Timeout')
        st['fault_cancels'] = sum(1 for r in self.recs(res) if r.t == 'C' and r.kind == 'cancel')
        return st

    def known_matchers(self):
        def perm_late(plan, cls, msg):
            # set_receiver executed by an actor while an earlier put on that mailbox is still queued
            return cls.endswith('_permlate') and any(op[0] == 'set_receiver' for a in plan['actors'] for op in a['ops'])
        return dict(perm_late=perm_late)


CHECK = C08()
