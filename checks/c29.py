"""C29 - every selectable collective algorithm computes the MPI result.

One run = one plan: np, platform + rank mapping, a selector assignment (whole selector + 1-3 per-collective
algorithm overrides enumerated from the running tree), SMPI protocol thresholds and a batch of 5-30 collective
calls with seeded per-rank arrival skews.  Oracle: sequential definitions of lib/refmpi_coll.py, every rank's
receive allocation (guards and datatype gaps included) compared exactly."""
import os
import re
import sys

sys.path.insert(0, '/verif/lib')
import dst
from rng import Rng
import mpicollcommon as mc
import refmpi_coll as ref

TUNABLE = ['allgather', 'allgatherv', 'allreduce', 'alltoall', 'alltoallv', 'barrier', 'bcast', 'gather', 'reduce',
           'reduce_scatter', 'scatter']
SELECTORS = ['default', 'ompi', 'mpich', 'mvapich2', 'impi']
ALGO_OF_KIND = {'bcast': 'bcast', 'reduce': 'reduce', 'allreduce': 'allreduce', 'allgather': 'allgather',
                'allgatherv': 'allgatherv', 'alltoall': 'alltoall', 'alltoallv': 'alltoallv', 'gather': 'gather',
                'scatter': 'scatter', 'reduce_scatter': 'reduce_scatter', 'reduce_scatter_block': 'reduce_scatter',
                'barrier': 'barrier'}
ALL_KINDS = ['bcast', 'reduce', 'allreduce', 'allgather', 'allgatherv', 'alltoall', 'alltoallv', 'alltoallw', 'gather',
             'gatherv', 'scatter', 'scatterv', 'reduce_scatter', 'reduce_scatter_block', 'barrier', 'scan', 'exscan']
REDUCE_KINDS = ('reduce', 'allreduce', 'scan', 'exscan', 'reduce_scatter', 'reduce_scatter_block')
INPLACE_OK = ('reduce', 'allreduce', 'scan', 'exscan', 'reduce_scatter', 'reduce_scatter_block', 'gather', 'gatherv',
              'scatter', 'scatterv', 'allgather', 'allgatherv', 'alltoall', 'alltoallv')
ROOTED = ('bcast', 'reduce', 'gather', 'gatherv', 'scatter', 'scatterv')
BUILTIN_KINDS = ['gatherv', 'scatterv', 'scan', 'exscan', 'alltoallw']
# at most this many base items in one rank's largest buffer
MAX_ITEMS = 160000


def algo_of(plan, call):
    """(collective whose algorithm table serves this call, algorithm name) as keyed in class ids"""
    if call['nb']:
        return call['kind'], 'nbc'
    coll = ALGO_OF_KIND.get(call['kind'])
    if coll is None:
        return call['kind'], 'builtin'
    a = plan['cfg'].get('smpi/' + coll)
    if a is None:
        sel = plan['cfg'].get('smpi/coll-selector', 'default')
        a = 'default' if sel == 'default' else 'sel_' + sel
    return coll, a


def is_suspect_call(plan, call):
    return list(algo_of(plan, call)) == list(plan.get('suspect', algo_of(plan, call)))


def _pick_count(r, np, kind, tier):
    cls = r.wchoice([('0', 1), ('1', 2), ('2', 1.5), ('np-1', 1.5), ('np', 1.5), ('np+1', 1.5), ('small', 3),
                     ('large', 1.0 if tier == 'quick' else 1.6), ('huge', 0.1 if tier == 'quick' else 0.3)])
    if cls == 'small':
        return r.randint(3, 40)
    if cls == 'large':
        return r.choice([1023, 1024, 1025, 2048, 2049, 4095, 4097, 8191, 8192, 8193, 16385, 32768, 32769, 65536,
                         70001]) if r.chance(0.6) else r.randint(1024, 70000)
    if cls == 'huge':
        return r.randint(70000, 160000)
    return max(0, {'0': 0, '1': 1, '2': 2, 'np-1': np - 1, 'np': np, 'np+1': np + 1}[cls])


def _types_for(r, kind):
    """(sdt, rdt, op, factor_s, factor_r): counts are count*factor on each side"""
    if kind in REDUCE_KINDS:
        combo = r.wchoice([(('i', 'sum'), 4), (('d', 'sum'), 3), (('i', 'prod'), 1.5), (('d', 'prod'), 1),
                           (('i', 'max'), 1.5), (('d', 'max'), 1), (('i', 'min'), 1), (('d', 'min'), 1),
                           (('i', 'bxor'), 1.5), (('i', 'band'), 1.5), (('i', 'bor'), 0.5),
                           (('2i', 'maxloc'), 1.5), (('2i', 'minloc'), 0.7),
                           (('i', 'user'), 1.5), (('d', 'user'), 1), (('c3', 'user'), 1), (('v2', 'user'), 1)])
        return combo[0], combo[0], combo[1], 1, 1
    # send and receive types are the same: signature-compatible but different types (contiguous(3) sent, 3 ints
    # received) break so many exotic algorithms that they are left out of the claim (see report / assumptions)
    pair = r.wchoice([(('i', 'i', 1, 1), 5), (('d', 'd', 1, 1), 3), (('c3', 'c3', 1, 1), 1.3), (('v2', 'v2', 1, 1), 1.3),
                      (('c2', 'c2', 1, 1), 0.4)])
    return pair[0], pair[1], 'none', pair[2], pair[3]


def _layout(r, counts, reverse_ok=True):
    """displacements (in extents) for blocks of the given counts: packed, gapped or reversed order"""
    mode = r.wchoice([('packed', 3), ('gaps', 2), ('reverse', 1 if reverse_ok else 0)])
    n = len(counts)
    order = list(range(n))
    if mode == 'reverse':
        order.reverse()
    d = [0] * n
    pos = 0
    for i in order:
        if mode != 'packed':
            pos += r.randint(0, 2)
        d[i] = pos
        pos += counts[i]
    return d


def gen_call(r, np, kind, tier, nb=None):
    c = dict(kind=kind)
    c['nb'] = (1 if r.chance(0.18) else 0) if nb is None else nb
    c['root'] = r.below(np) if kind in ROOTED else 0
    if kind in ROOTED and r.chance(0.25):
        c['root'] = r.choice([0, np - 1])
    sdt, rdt, op, fs, fr = _types_for(r, kind)
    count = _pick_count(r, np, kind, tier)
    # keep the largest per-rank buffer bounded
    per_rank_blocks = np if kind in ('allgather', 'allgatherv', 'alltoall', 'alltoallv', 'alltoallw', 'gather', 'gatherv',
                                     'scatter', 'scatterv', 'reduce_scatter', 'reduce_scatter_block') else 1
    width = max(mc.DT[sdt][1] * fs, mc.DT[rdt][1] * fr)
    cap = max(1, MAX_ITEMS // (per_rank_blocks * width))
    if kind in ('alltoall', 'alltoallv', 'alltoallw'):
        cap = max(1, cap // 2)
    if sdt in ('c3', 'v2', 'c2'):      # SMPI copies derived types element by element: keep them moderate
        cap = min(cap, 6000)
    if count > cap:
        count = cap - r.below(min(cap, 7))
    c['inplace'] = 1 if (kind in INPLACE_OK and r.chance(0.22)) else 0
    if c['inplace']:
        sdt, fs = rdt, fr
    c.update(sdt=sdt, rdt=rdt, op=op, scount=count * fs, rcount=count * fr, vc=mc.VC_OF_OP[op],
             seed=r.below(1 << 31) + 1, period=r.choice([251, 509, 1021]), defer=0, usetest=0)
    if kind == 'barrier':
        c.update(scount=0, rcount=0, sdt='i', rdt='i', op='none', inplace=0, vc=0)
    if c['nb']:
        c['defer'] = r.choice([0, 0, 1, 2])
        c['usetest'] = 1 if r.chance(0.3) else 0
    # v variants: per-peer counts around `count`
    def varied(n):
        base = count
        out = []
        for _ in range(n):
            m = r.wchoice([('same', 3), ('pm', 3), ('zero', 1)])
            out.append(base if m == 'same' else (0 if m == 'zero' else max(0, base + r.randint(-2, 2))))
        return out
    if kind in ('gatherv', 'allgatherv'):
        cnt = varied(np)                       # contribution of each rank, in composite units
        rcounts = [x * fr for x in cnt]
        rdis = _layout(r, rcounts)
        c['rcounts'] = rcounts * np           # same at every rank (significant at root only for gatherv)
        c['rdispls'] = rdis * np
        c['scounts'] = [x * fs for x in cnt]  # scount of rank q is scounts[q] (row 0 only)
    elif kind == 'scatterv':
        cnt = varied(np)
        scounts = [x * fs for x in cnt]
        c['scounts'] = scounts * np
        c['sdispls'] = _layout(r, scounts) * np
        c['rcounts'] = [x * fr for x in cnt]
    elif kind == 'reduce_scatter':
        cnt = varied(np)
        if r.chance(0.4):
            cnt = [count] * np
        c['rcounts'] = cnt * np
    elif kind == 'alltoallv':
        sym = c['inplace']
        m = [[0] * np for _ in range(np)]
        for i in range(np):
            row = varied(np)
            for j in range(np):
                m[i][j] = row[j]
        if sym:
            for i in range(np):
                for j in range(i):
                    m[i][j] = m[j][i]
        sc, sd, rc, rd = [], [], [], []
        for i in range(np):
            srow = [m[i][j] * fs for j in range(np)]
            rrow = [m[j][i] * fr for j in range(np)]
            sc += srow
            sd += _layout(r, srow)
            rc += rrow
            rd += _layout(r, rrow)
        c.update(scounts=sc, sdispls=sd, rcounts=rc, rdispls=rd)
    elif kind == 'alltoallw':
        # int based types per pair; counts in composite units of 6 items so that every type divides
        c.update(sdt='i', rdt='i', inplace=0, op='none', vc=mc.VC_MOVE)
        unit = min(count, 40)
        tys = ['i', 'c3', 'v2', 'c2']
        m = [[max(0, unit + r.randint(-1, 1)) if r.chance(0.85) else 0 for _ in range(np)] for _ in range(np)]
        st = [[r.choice(tys) for _ in range(np)] for _ in range(np)]
        rt = [[r.choice(tys) for _ in range(np)] for _ in range(np)]
        sc, sd, rc, rd, stl, rtl = [], [], [], [], [], []
        for i in range(np):
            srow = [m[i][j] * (6 // mc.DT[st[i][j]][0]) for j in range(np)]
            rrow = [m[j][i] * (6 // mc.DT[rt[i][j]][0]) for j in range(np)]
            # displacements in slots
            pos = 0
            sdr = []
            for j in range(np):
                pos += r.randint(0, 1)
                sdr.append(pos)
                pos += srow[j] * mc.DT[st[i][j]][1]
            pos = 0
            rdr = []
            for j in range(np):
                pos += r.randint(0, 1)
                rdr.append(pos)
                pos += rrow[j] * mc.DT[rt[i][j]][1]
            sc += srow
            sd += sdr
            rc += rrow
            rd += rdr
            stl += st[i]
            rtl += rt[i]
        c.update(scounts=sc, sdispls=sd, rcounts=rc, rdispls=rd, stypes=stl, rtypes=rtl, scount=0, rcount=0)
    skew_mode = r.wchoice([('none', 1), ('small', 3), ('one_late', 2), ('big', 2), ('ordered', 1)])
    c['skew'] = _skews(r, np, skew_mode)
    c['wskew'] = _skews(r, np, r.choice(['none', 'small', 'big'])) if c['nb'] else [0] * np
    return c


def _skews(r, np, mode):
    if mode == 'none':
        return [0] * np
    if mode == 'small':
        return [r.randint(0, 30) for _ in range(np)]
    if mode == 'one_late':
        s = [r.randint(0, 5) for _ in range(np)]
        s[r.below(np)] = r.randint(200, 5000)
        return s
    if mode == 'ordered':
        step = r.randint(1, 200)
        s = [i * step for i in range(np)]
        if r.chance(0.5):
            s.reverse()
        return s
    return [r.choice([0, 1, 10, 100, 1000, 3000]) * r.randint(0, 3) for _ in range(np)]


class C29(dst.Check):
    pid = 'C29'
    level = 'exploration'
    rule = ('case = seeded plan: np 1-17, platform + rank mapping, ONE suspect = a (collective, algorithm) pair enumerated '
            'from `smpimain --help-coll` of the running tree (or a whole selector for one collective, or a non-blocking / '
            'single-implementation collective), 5-14 calls (quick; 5-30 thorough) of which about half use the suspect and the '
            'others are blocking collectives under default algorithms (back-to-back interference), per-rank arrival skews, '
            'counts in {0,1,2,np-1,np,np+1,small,large}, int/double/contiguous/vector types, 10 ops incl. a user op, '
            'MPI_IN_PLACE, v-variants with gaps/zero blocks, non-blocking + deferred wait/test; non-trivial = at least one '
            'call had every rank\'s buffers compared; distinct = hash of (suspect, selector assignment, np, call shapes)')
    assumptions = [
        'Input values are small integers (also in double buffers) so SUM/PROD/user-op results are exact in any '
        'association order; floating-point reassociation differences are therefore invisible by construction.',
        'Large buffers (> 96 slots) are compared through CRC32 of the whole receive allocation (guards included), '
        'small ones element by element.',
        'Values are periodic in the element index (period 2*{251,509,1021}): an algorithm error that displaces data by '
        'a multiple of the period would be missed.',
        'A run killed by the wall-clock budget (20 s, then once more with 120 s) is classified hang; simulated deadlock reports are hang too.',
        'An abort whose message names a requirement (invalid_argument "can\'t be used ...", power of two, ...) and a '
        'non-MPI_SUCCESS return code seen by every rank are "refused", not violations.',
        'Receive buffers of non-root ranks (reduce, gather(v)) are valid canary buffers and must stay untouched; exscan '
        'rank 0 output and the tail of an in-place reduce_scatter input are not checked (left open by the standard).',
        'Only MPI_COMM_WORLD is used; predefined ops only on predefined types (derived types use the user op).',
        'Send and receive datatypes of a call are identical: signature-compatible but different types (contiguous(3) sent, '
        '3 ints received) break many exotic algorithms; observed, left out of the claim.',
        'smpi/async-small-thresh stays 0: a non-zero value breaks point-to-point non-overtaking (small message matched '
        'before an older large one of the same source/tag), which would be blamed on whatever collective runs (C28 matter).',
        'A failure is blamed on the plan\'s single suspect even when it surfaces in a later context call (stray message); '
        'known findings are keyed by (collective, algorithm, np class, count class[, in-place]).',
        'MPI_Alltoallv(MPI_IN_PLACE) with a gapped datatype is only generated under the default algorithm (binding-level '
        'defect, independent of the algorithm).',
    ]
    real_vs_stub = {'SMPI collectives, selectors, NBC, datatypes, ops': 'real', 'SimGrid kernel + network model': 'real',
                    'MPI application': 'real (generated plan interpreter sim/mpicoll.c)',
                    'reference results': 'lib/refmpi_coll.py sequential definitions'}
    budgets = {'quick': dict(runs=3000, wall=40), 'thorough': dict(runs=40000, wall=780)}
    max_reported = 2000
    shrink_budget = 30
    workers = 16

    # ---- generation ---------------------------------------------------------------------------------------
    def gen(self, seed, tier):
        """One SUSPECT per plan: a (collective, algorithm) pair of the running tree - or a non-blocking / single-
        implementation collective - exercised by about half of the calls; every other call is a blocking collective
        under the default selector (context: back-to-back interference, tag reuse).  Every failure of the run is blamed
        on the suspect, so a fragile algorithm cannot make an innocent one look guilty through a stray message."""
        r = Rng(seed, 'c29')
        algos = mc.algorithms()
        np = r.wchoice([(1, 1), (2, 3), (3, 4), (4, 4), (5, 4), (6, 3), (7, 3), (8, 4), (9, 3), (10, 2), (11, 2), (12, 3),
                        (13, 2), (14, 1), (15, 2), (16, 3), (17, 3)])
        plat, hosts = mc.gen_platform(Rng(seed, 'platform'), np)
        cfg = {'smpi/coll-selector': 'default'}
        pairs = [(c, a) for c in TUNABLE if c in algos for a in algos[c]]
        stype = r.wchoice([('algo', 80), ('selector', 6), ('nbc', 9), ('builtin', 5)])
        focus = os.environ.get('VERIF_C29_FOCUS')      # development aid (sensitivity runs): 'coll:algo' forces the suspect
        if focus:
            fc, fa = focus.split(':')
            stype = 'nbc' if fa == 'nbc' else 'builtin' if fa == 'builtin' else 'selector' if fa.startswith('sel_') else 'algo'
        if stype == 'algo':
            coll, algo = pairs[r.below(len(pairs))]
            if focus:
                coll, algo = fc, fa
            cfg['smpi/' + coll] = algo
            skinds = [k for k in ALL_KINDS if ALGO_OF_KIND.get(k) == coll]
            snb = 0
        elif stype == 'selector':
            coll = r.choice([c for c in TUNABLE if c in algos])
            sel = r.choice(SELECTORS[1:])
            if focus:
                coll, sel = fc, fa[4:]
            algo = 'sel_' + sel
            cfg['smpi/coll-selector'] = sel
            skinds = [k for k in ALL_KINDS if ALGO_OF_KIND.get(k) == coll]
            snb = 0
        elif stype == 'nbc':
            coll, algo = (fc if focus else r.choice(ALL_KINDS)), 'nbc'
            skinds = [coll]
            snb = 1
        else:
            coll, algo = (fc if focus else r.choice(BUILTIN_KINDS)), 'builtin'
            skinds = [coll]
            snb = 0
        kn = Rng(seed, 'knobs')
        if kn.chance(0.6):
            # smpi/async-small-thresh stays at its default (0): a non-zero value makes SMPI match a small message before an
            # older large one of the same (source, tag) - a point-to-point ordering defect (C28) that would show up here
            # as random failures of every algorithm issuing back-to-back messages of different sizes
            kn.choice([0, 16, 1024, 65536, 1000000])
            # values below the default (65536) make medium messages synchronous: several algorithms that rely on eager
            # buffering then deadlock (known findings replayed from /verif/known/C29-syncsend-*.json); the generator stays
            # away from that trigger so that it does not drown other failures
            cfg['smpi/send-is-detached-thresh'] = kn.choice([65536, 65536, 1000000, 1000000, 1000000])
        if kn.chance(0.08):
            cfg['smpi/barrier-collectives'] = 'yes'
        ncalls = r.randint(5, 30 if tier == 'thorough' else 14)
        # context kinds: blocking, default algorithms; under a whole non-default selector only the single-implementation ones
        ctx = BUILTIN_KINDS if stype == 'selector' else [k for k in ALL_KINDS if k not in skinds]
        calls = []
        for i in range(ncalls):
            if i == 0 or r.chance(0.5):
                calls.append(gen_call(r, np, r.choice(skinds), tier, snb))
            else:
                calls.append(gen_call(r, np, r.choice(ctx), tier, 0))
        r.shuffle(calls)
        plan = dict(np=np, plat=plat, hosts=hosts, cfg=cfg, calls=calls, suspect=[coll, algo])
        for c in calls:
            # MPI_Alltoallv(MPI_IN_PLACE) with a type whose extent exceeds its size is mishandled by the binding, before
            # any algorithm runs (known finding, keyed on the default algorithm): do not multiply it by every algorithm
            if c['kind'] == 'alltoallv' and c['inplace'] and c['rdt'] == 'v2' and plan['suspect'] != ['alltoallv', 'default']:
                c['sdt'] = c['rdt'] = 'c2'
        return plan

    # ---- execution ----------------------------------------------------------------------------------------
    def run(self, plan, scratch):
        sd = '%s/c29' % scratch
        try:
            rc, out, err, to = mc.run_smpi(sd, plan['np'], plan['plat'], plan['hosts'], plan['cfg'],
                                           mc.coll_plan_text(plan), timeout=20)
            if to:
                # a big plan on a loaded machine (alltoall rdb, 17 ranks x 4705 doubles: 26 s) is not a hang: only a run
                # that also exhausts a generous budget is reported as one
                rc, out, err, to = mc.run_smpi(sd, plan['np'], plan['plat'], plan['hosts'], plan['cfg'],
                                               mc.coll_plan_text(plan), timeout=120)
        finally:
            mc.cleanup(sd)
        R, T, D, last = {}, {}, set(), {}
        lines = out.split('\n')
        for line in lines[:-1]:      # a line without its newline (abort in the middle of a write) is dropped
            try:
                if line.startswith('R '):
                    p = line.split(' ', 6)
                    R[(int(p[1]), int(p[2]))] = (int(p[3]), int(p[4], 16), int(p[5]), p[6] if len(p) > 6 else None)
                elif line.startswith('T '):
                    p = line.split()
                    T[(int(p[1]), int(p[2]))] = (float.fromhex(p[3]), float.fromhex(p[4]), int(p[5]))
                elif line.startswith('D '):
                    D.add(int(line.split()[1]))
                elif line.startswith('K '):
                    last['killed'] = int(line.split()[1])
                elif line.startswith('S ') or line.startswith('X '):
                    p = line.split()
                    last[int(p[2])] = int(p[1])
                    last[-1] = int(p[1])
            except (ValueError, IndexError):
                if rc == 0:
                    raise dst.Infra('malformed harness line: ' + line[:200])
        errl = [l for l in err.splitlines() if l.strip()]
        res = dict(rc=rc, timed_out=to, R={'%d,%d' % k: list(v) for k, v in R.items()},
                   T={'%d,%d' % k: list(v) for k, v in T.items()}, done=sorted(D), err='\n'.join(errl[:60])[:6000])
        res['last'] = {str(k): v for k, v in last.items()}
        self._verdict(plan, res)
        # Hash: everything the verdict depends on.  A receive buffer enters as its CRC when it equals the reference and
        # as the mark 'X' when it does not: the content of a wrong buffer is often uninitialised heap memory, which
        # differs between processes; the oracle only uses equal / not equal.
        bad = set(res['badbuf'])
        rh = sorted((k, 'X' if k in bad else v[1]) for k, v in res['R'].items())
        res['hash'] = dst.sha(rc, to, rh, sorted(res['T'].items()), res['done'], sorted(res['last'].items()),
                              [l for l in re.sub(r'0x[0-9a-f]+|[0-9]+\.[0-9]+', '#', res['err']).splitlines()
                               if 'CRITICAL' in l][:3])
        return res

    # ---- oracle -------------------------------------------------------------------------------------------
    def _tag(self, plan, i):
        """(collective, algorithm, '[key=value ...]') for a failure seen at call i.  Collective and algorithm are the
        plan's suspect; the keys describe call i when it is a suspect call, else the closest suspect call before it
        (a stray message of a broken algorithm is only noticed by a later call) with ctx=<kind of call i>."""
        np = plan['np']
        ctx = None
        if 'suspect' in plan and not is_suspect_call(plan, plan['calls'][i]):
            ctx = plan['calls'][i]['kind']
            before = [j for j in range(i) if is_suspect_call(plan, plan['calls'][j])]
            after = [j for j in range(i + 1, len(plan['calls'])) if is_suspect_call(plan, plan['calls'][j])]
            if before or after:
                i = before[-1] if before else after[0]
        c = plan['calls'][i]
        coll, algo = plan['suspect'] if 'suspect' in plan else algo_of(plan, c)
        if ctx is None:
            ctx = '-'
        cnt = max(c['scount'], c['rcount'])
        if 'rcounts' in c or 'scounts' in c:
            cnt = max(c.get('rcounts', [0]) + c.get('scounts', [0]))
        smp = 'smp' if len(set(plan['hosts'])) < np else 'one'
        vuni = 1
        for name in ('rcounts', 'scounts'):
            if name in c and len(set(c[name])) > 1:
                vuni = 0
        return coll, algo, ('[call=%d kind=%s coll=%s algo=%s np=%d npc=%s cnt=%d cntc=%s sdt=%s rdt=%s op=%s inplace=%d '
                            'nb=%d root=%d map=%s vuni=%d ctx=%s]' % (
                                i, c['kind'], coll, algo, np, mc.np_class(np), cnt, mc.count_class(cnt, np),
                                c['sdt'], c['rdt'], c['op'], c['inplace'], c['nb'], c['root'], smp, vuni, ctx))

    def _verdict(self, plan, res):
        """fills res['viol'] (list of [cls,msg]), res['refused'] (list), res['checked'] (list of call indexes)"""
        np = plan['np']
        calls = plan['calls']
        viol, refused, checked, badbuf = [], [], [], []
        T = res['T']
        R = res['R']
        complete = (res['rc'] == 0 and not res['timed_out'] and len(res['done']) == np)
        first_incomplete = None
        for i, c in enumerate(calls):
            have = [('%d,%d' % (i, r)) in T for r in range(np)]
            if not all(have):
                if first_incomplete is None:
                    first_incomplete = i
                continue
            coll, algo, tag = self._tag(plan, i)
            rcs = [T['%d,%d' % (i, r)][2] for r in range(np)]
            if any(rcs):
                if all(rcs):
                    refused.append([coll, algo, tag + ' MPI error code %d returned on every rank' % rcs[0]])
                else:
                    viol.append(['wrong:%s:%s' % (coll, algo), tag + ' inconsistent return codes %s' % rcs])
                continue
            if c['kind'] == 'barrier':
                ent = max(T['%d,%d' % (i, r)][0] for r in range(np))
                ext = min(T['%d,%d' % (i, r)][1] for r in range(np))
                if ext < ent:
                    viol.append(['wrong:%s:%s' % (coll, algo), tag + ' a rank left the barrier at %.9g before the last '
                                 'one entered at %.9g' % (ext, ent)])
                checked.append(i)
                continue
            exp = ref.expected(c, np)
            isd = c['rdt'] == 'd'
            bad = None
            for r in range(np - 1, -1, -1):
                got = R.get('%d,%d' % (i, r))
                if got is None:
                    bad = 'rank %d printed no receive buffer' % r
                    continue
                nslots, crc, sendmod, vals = got
                e = exp[r]
                if nslots != len(e) - 2 * mc.GUARD:
                    raise dst.Infra('harness/reference allocation mismatch call %d rank %d: %d vs %d (%s)' %
                                    (i, r, nslots, len(e) - 2 * mc.GUARD, c['kind']))
                if sendmod:
                    bad = 'rank %d: send buffer modified by the call' % r
                    badbuf.append('%d,%d' % (i, r))
                    continue
                if vals is not None:
                    g = [float.fromhex(x) if 'x' in x or 'n' in x else int(x) for x in vals.split()]
                    if g != e:
                        k = next((j for j in range(len(e)) if j >= len(g) or g[j] != e[j]), -1)
                        where = 'guard/canary area' if (k < mc.GUARD or k >= len(e) - mc.GUARD) else 'slot %d' % (k - mc.GUARD)
                        nbad = sum(1 for j in range(len(e)) if j >= len(g) or g[j] != e[j])
                        bad = 'rank %d: %s is %s, expected %s (%d of %d slots differ%s)' % (
                            r, where, g[k] if k < len(g) else '?', e[k], nbad, len(e) - 2 * mc.GUARD,
                            '; got canary' if k < len(g) and g[k] == mc.CANARY else '')
                        badbuf.append('%d,%d' % (i, r))
                else:
                    b = ref.Buf(0)
                    b.s = e
                    if b.crc(isd) != crc:
                        bad = 'rank %d: CRC of the %d-slot receive allocation is %08x, expected %08x' % (
                            r, nslots, crc, b.crc(isd))
                        badbuf.append('%d,%d' % (i, r))
            if bad:
                viol.append(['wrong:%s:%s' % (coll, algo), tag + ' ' + bad])
            checked.append(i)
        if not complete:
            i = first_incomplete
            # blame the call the aborting actor was in: it names itself in the log prefix "[host:name:(pid) date]";
            # without a prefix (signal) the last call entered by anybody is the running one (cooperative scheduling)
            last = res.get('last', {})
            m = re.search(r'^\[[^\]:]*:[^\]:]*:\((\d+)\) [0-9.]+\] .*(CRITICAL|Assertion|xception)', res['err'], re.M)
            if not res['timed_out'] and 'Deadlock detected' not in res['err']:
                j = None
                if 'killed' in last and 0 <= last['killed'] < np:
                    j = last.get(str(last['killed']))
                    if j is not None and ('%d,%d' % (j, last['killed'])) in T:
                        j = None
                elif m and 0 <= int(m.group(1)) - 1 < np:
                    j = last.get(str(int(m.group(1)) - 1))
                    if j is not None and ('%d,%d' % (j, int(m.group(1)) - 1)) in T:
                        j = None
                elif not m:
                    j = last.get('-1')
                if j is not None:
                    i = j
            if i is None and 'suspect' in plan and any(is_suspect_call(plan, c) for c in calls):
                # every call completed and the run died afterwards (heap corruption noticed in MPI_Finalize...): blamed on the
                # suspect like every other failure of the run, keyed by its last call, so that a known finding can name it
                j = max(k for k, c in enumerate(calls) if is_suspect_call(plan, c))
                coll, algo, tag = self._tag(plan, j)
                tag = tag.replace(' ctx=-]', ' ctx=finalize]')
            elif i is None:
                coll, algo, tag = 'finalize', 'none', '[after the last call]'
            else:
                coll, algo, tag = self._tag(plan, i)
            kind, msg = mc.classify_abort(res['rc'], res['err'], res['timed_out'])
            if kind == 'refused':
                refused.append([coll, algo, tag + ' ' + msg])
            else:
                viol.append(['%s:%s:%s' % (kind, coll, algo), tag + ' ' + msg])
        res['viol'] = viol
        res['refused'] = refused
        res['checked'] = checked
        res['badbuf'] = badbuf
        plan.pop('hint_call', None)
        plan.pop('known_hit', None)
        if viol:
            m = re.match(r'\[call=(\d+) ', viol[0][1])
            if m:
                plan['hint_call'] = int(m.group(1))     # lets shrink() try the blamed call first
            if self._is_known(plan, viol[0][0], viol[0][1]):
                plan['known_hit'] = 1

    def oracle(self, plan, res):
        return [tuple(v) for v in res['viol']]

    def nontrivial(self, plan, res):
        return len(res['checked']) > 0

    def signature(self, plan, res):
        shape = [(c['kind'], c['nb'], c['root'], c['scount'], c['rcount'], c['sdt'], c['rdt'], c['op'], c['inplace'])
                 for c in plan['calls']]
        sel = sorted((k, v) for k, v in plan['cfg'].items() if 'thresh' not in k)
        return dst.sha(plan['np'], sel, shape)

    def stats(self, plan, res):
        np = plan['np']
        s = {'sim_seconds': 0.0, 'calls_checked': len(res['checked']), 'probe_refused': len(res['refused']),
             'probe_count_lt_np': 0, 'probe_count_zero': 0, 'probe_np_not_pow2': 0, 'probe_in_place': 0,
             'probe_large_count': 0, 'probe_nonblocking': 0, 'probe_deferred_wait': 0, 'probe_derived_type': 0,
             'probe_np1': 0, 'probe_late_rank': 0}
        ts = [v[1] for v in res['T'].values()]
        s['sim_seconds'] = max(ts) if ts else 0.0
        for i in res['checked']:
            c = plan['calls'][i]
            if is_suspect_call(plan, c):
                coll, algo = plan['suspect']
                s['cov_%s:%s' % (coll, algo)] = s.get('cov_%s:%s' % (coll, algo), 0) + 1
            cnt = max(c['scount'], c['rcount'])
            if c['kind'] != 'barrier':
                s['probe_count_zero'] += cnt == 0 and 'rcounts' not in c
                s['probe_count_lt_np'] += 0 < cnt < np
                s['probe_large_count'] += cnt >= 1024
            s['probe_np_not_pow2'] += np & (np - 1) != 0
            s['probe_np1'] += np == 1
            s['probe_in_place'] += c['inplace']
            s['probe_nonblocking'] += c['nb']
            s['probe_deferred_wait'] += 1 if c.get('defer') else 0
            s['probe_derived_type'] += c['sdt'] in ('c3', 'v2', 'c2') or c['rdt'] in ('c3', 'v2', 'c2')
            s['probe_late_rank'] += max(c['skew']) >= 200
        if 'suspect' in plan:
            s['plan_%s:%s' % tuple(plan['suspect'])] = 1
            if res['viol']:
                s['failed_%s:%s' % tuple(plan['suspect'])] = 1
        for coll, algo, _ in res['refused']:
            s['refused_%s:%s' % (coll, algo)] = s.get('refused_%s:%s' % (coll, algo), 0) + 1
        return s

    def describe(self, plan, res):
        return dict(np=plan['np'], cfg=plan['cfg'], hosts=plan['hosts'], plat=plan['plat']['kind'],
                    calls=[(c['kind'], c['nb'], c['root'], c['scount'], c['sdt'], c['rcount'], c['rdt'], c['op'],
                            c['inplace']) for c in plan['calls']][:12],
                    signature=self.signature(plan, res), refused=res['refused'][:3], viol=res['viol'][:3])

    def extra_evidence(self, agg):
        st = agg['stats']
        algos = mc.algorithms()
        cov = {}
        missing = []
        for coll in TUNABLE:
            names = algos.get(coll, [])
            hit = [a for a in names if st.get('cov_%s:%s' % (coll, a), 0) > 0]
            cov[coll] = dict(algorithms=len(names), covered=len(hit),
                             min_calls=min([st.get('cov_%s:%s' % (coll, a), 0) for a in names] or [0]))
            cov[coll]['min_plans'] = min([st.get('plan_%s:%s' % (coll, a), 0) for a in names] or [0])
            for a in names:
                n = st.get('plan_%s:%s' % (coll, a), 0)      # plans whose suspect is this pair (each has >= 1 suspect call)
                if n < 2:
                    missing.append('%s:%s(%d)' % (coll, a, n))
        refused = {k[8:]: v for k, v in st.items() if k.startswith('refused_')}
        failed = {k[7:]: v for k, v in st.items() if k.startswith('failed_')}
        return dict(algorithm_coverage=cov, pairs_touched_less_than_twice=missing, refused_counts=refused,
                    plans_with_violation_per_suspect=failed)

    # ---- shrinking ----------------------------------------------------------------------------------------
    def _known(self):
        if not hasattr(self, '_known_cache'):
            try:
                self._known_cache = [k for k in dst.load_known(self.pid) if k.get('status', 'open') == 'open']
            except Exception:
                self._known_cache = []
        return self._known_cache

    def _is_known(self, plan, cls, msg):
        table = self.known_matchers()
        for k in self._known():
            if k.get('class') == cls:
                fn = table.get(k.get('matcher'))
                if fn and fn(plan, cls, msg):
                    return True
        return False

    @staticmethod
    def reduce_np(plan, n):
        """the same plan on the first n ranks"""
        old = plan['np']
        p = dict(plan, np=n, hosts=plan['hosts'][:n])
        calls = []
        for c in plan['calls']:
            c = dict(c, skew=c['skew'][:n], wskew=c['wskew'][:n], root=min(c['root'], n - 1))
            for name in ('scounts', 'sdispls', 'rcounts', 'rdispls', 'stypes', 'rtypes'):
                if name in c:
                    m = c[name]
                    if len(m) == old * old:
                        c[name] = [m[i * old + j] for i in range(n) for j in range(n)]
                    else:
                        c[name] = m[:n]
            calls.append(c)
        p['calls'] = calls
        return p

    def shrink(self, plan):
        # a failure that already matches a known finding is not minimised further (the quick tier has ~100 of them)
        if plan.get('known_hit'):
            return
        calls = plan['calls']
        np = plan['np']

        def with_calls(cs, **kw):
            p = dict(plan)
            p['calls'] = cs
            p.update(kw)
            p.pop('hint_call', None)
            return p
        plain = dict(hosts=list(range(np)), plat=dict(kind='cluster', nhosts=max(np, 2), lat_us=10, bw_MBps=125, loop_lat_us=0))
        keep_cfg = {k: v for k, v in plan['cfg'].items() if k == 'smpi/coll-selector' or not k.endswith('thresh')
                    and k != 'smpi/barrier-collectives'}
        # 1. the blamed call alone (most drastic first), then other single calls and pairs with the blamed call
        h = plan.get('hint_call')
        if len(calls) > 1:
            order = ([h] if h is not None and h < len(calls) else []) + [i for i in range(len(calls)) if i != h]
            for i in order[:1]:
                c = dict(calls[i], skew=[0] * np, wskew=[0] * np, defer=0, usetest=0)
                yield with_calls([c], cfg=keep_cfg, **plain)
                yield with_calls([calls[i]])
            if h is not None and h < len(calls):
                sus = [j for j in range(len(calls)) if j != h and is_suspect_call(plan, calls[j])]
                for j in sus[:4]:
                    yield with_calls([calls[min(j, h)], calls[max(j, h)]])
                yield with_calls(calls[:h + 1])
            for i in order[1:]:
                yield with_calls([calls[i]])
            half = len(calls) // 2
            yield with_calls(calls[:half])
            yield with_calls(calls[half:])
            for i in range(len(calls)):
                yield with_calls(calls[:i] + calls[i + 1:])
        # 2. configuration: knobs not involved (never the suspect's own override), trivial platform, fewer ranks
        if keep_cfg != plan['cfg']:
            yield with_calls(calls, cfg=keep_cfg)
        if plan['hosts'] != list(range(np)) or plan['plat']['kind'] != 'cluster':
            yield with_calls(calls, **plain)
        for n in (2, 3, 4, 5, 6, 7, 8, 9, 12):
            if n < np and mc.np_class(n) == mc.np_class(np):
                yield self.reduce_np(with_calls(calls), n)
        # 3. per call simplifications
        for i, c in enumerate(calls):
            def rep(**kw):
                return with_calls(calls[:i] + [dict(c, **kw)] + calls[i + 1:])
            if any(c['skew']) or any(c['wskew']):
                yield rep(skew=[0] * np, wskew=[0] * np)
            if c.get('defer') or c.get('usetest'):
                yield rep(defer=0, usetest=0)
            if c['inplace'] and c['kind'] != 'alltoallv':
                yield rep(inplace=0)
            if c['root'] != 0:
                yield rep(root=0)
            if c['period'] != 251:
                yield rep(period=251)
            if 'rcounts' not in c and 'scounts' not in c and c['kind'] != 'barrier':
                base = min(c['scount'], c['rcount'])
                fs = c['scount'] // base if base else 1
                fr = c['rcount'] // base if base else 1
                tried = set()
                for nb_ in (1, 2, np - 1, np, np + 1, base // 2, base - 1):
                    if 0 < nb_ < base and nb_ not in tried and mc.count_class(nb_, np) == mc.count_class(base, np):
                        tried.add(nb_)
                        yield rep(scount=nb_ * fs, rcount=nb_ * fr)
            if c['sdt'] == c['rdt'] and c['sdt'] in ('c3', 'v2') and c['kind'] not in REDUCE_KINDS and c['kind'] != 'alltoallw':
                yield rep(sdt='i', rdt='i')


def _parse_tag(msg):
    m = re.match(r'\[([^\]]*)\]', msg)
    d = {}
    if m:
        for kv in m.group(1).split():
            if '=' in kv:
                k, v = kv.split('=', 1)
                d[k] = v
    return d


class MatcherTable(dict):
    """matcher names are '<coll>:<algo>:<np class>:<count class>[:key=value...]' ('*' = any); resolved generically"""

    def get(self, name, default=None):
        if not name or name.count(':') < 3:
            return default
        parts = name.split(':')
        coll, algo, npc, cntc = parts[:4]
        extra = dict(p.split('=', 1) for p in parts[4:] if '=' in p)

        def pred(plan, cls, msg):
            t = _parse_tag(msg)
            if not t:
                return False
            if t.get('coll') != coll or t.get('algo') != algo:
                return False
            if npc != '*' and t.get('npc') not in npc.split('|'):
                return False
            if cntc != '*' and t.get('cntc') not in cntc.split('|'):
                return False
            for k, v in extra.items():
                if t.get(k) not in v.split('|'):
                    return False
            return True
        return pred


CHECK = C29()
C29.known_matchers = lambda self: MatcherTable()
mc.install_proposed_findings()
