"""C05 Semaphore semantics: token conservation, FIFO, timeouts (engine A native)"""
import gen
from rng import Rng
from s4ucheck import S4UCheck


class C05(S4UCheck):
    pid = 'C05'
    rule = ('seeded plans: 2-5 actors x 1-3 semaphores (capacity 0-3); acquire / acquire_timeout(t) / release / '
            'get_capacity with dyadic think times so that timeouts and releases fall on the same dates; t includes 0 '
            'and values before/at/after the releasing date; knobs: factory, H2 permutation, heap layout. Oracle: FIFO '
            'reference model (token conservation, capacity reads, grant order, timeout iff no grant within t). '
            'non-trivial = some acquire blocked; distinct = hash of the global (actor, op, object) call sequence')
    assumptions = ['order of call records inside a sub-round = kernel handling order (sequential factories)',
                   'a grant and a timeout at the same date (within 2e-9): either outcome accepted, conservation still checked']
    budgets = {'quick': dict(runs=2500, wall=50), 'thorough': dict(runs=60000, wall=800)}

    def gen(self, seed, tier):
        r = Rng(seed, 'c05')
        plan = gen.base_plan(seed, nhosts=r.randint(1, 3), rng=r)
        nsem = r.randint(1, 3)
        sems = [('s%d' % i, r.choice([0, 0, 1, 1, 2, 3])) for i in range(nsem)]
        plan['objects'] = dict(sem=[list(s) for s in sems])
        nact = r.randint(2, 5)
        zero_class = r.chance(0.25)
        for ai in range(nact):
            ops = []
            held = []
            for _ in range(r.randint(2, 8)):
                c = r.below(10)
                s = sems[r.below(nsem)][0]
                if c < 3:
                    ops.append(['acquire', s])
                    held.append(s)
                elif c < 6:
                    if zero_class and r.chance(0.4):
                        t = r.choice([0.0, 0.0, -1.0])
                    else:
                        t = r.randint(1, 8) * 0.25
                    ops.append(['acquire_timeout', s, t])
                elif c < 8:
                    ops.append(['release', held.pop() if held and r.chance(0.7) else s])
                elif c < 9:
                    ops.append(['sleep', gen.think(r, 0.1)])
                else:
                    ops.append(['obs_cap', s])
                if r.chance(0.4):
                    ops.append(['sleep', gen.think(r, 0.2)])
            plan['actors'].append(dict(id='a%d' % ai, host='h%d' % r.below(len(plan['hosts'])), ops=ops))
        gen.knobs(plan, r, walk_p=0.35)
        return plan

    def oracle(self, plan, res):
        return self.sync_violations(plan, res, ('sem',))

    def nontrivial(self, plan, res):
        return self.model(plan, res).stats['sem_blocked'] > 0

    def stats(self, plan, res):
        st = self.base_stats(plan, res)
        ms = self.model(plan, res).stats
        st['probe_acquire_blocked'] = ms['sem_blocked']
        st['probe_timeout_fired'] = ms['sem_timeout']
        st['probe_tie_timeout_vs_release'] = ms['tie']
        return st


CHECK = C05()
