"""C43: field-by-field comparison of the application-side simcall observer (what was encoded: `ob=` of a T record of
walker D, taken when the observer is serialised) with the transition the checker decodes from the serialised bytes
(`type=` / `str=` of the same T record, built by the real deserialize_transition), plus what the plan says the
operation is about (object indices in creation order, actor pids, MC_random bounds). Strings have blanks replaced by
'_' (walker D)."""
import re

import refwalkd


def _i(x):
    return None if x is None else int(x)


def parse_ob(ob):
    """application side -> dict of fields (only those the observer prints)"""
    t = refwalkd.tr_type(ob)
    if t == 'COMM_TEST' and ob.endswith('))'):
        # ActivityTestanySimcall / ActivityWaitanySimcall::to_string build their text in a stringstream initialised with
        # "TestAny(" / "WaitAny(", which the first insertion overwrites: the prefix is lost (cosmetic, the serialised type
        # is right). Recognise the list by its unbalanced closing parenthesis.
        t = 'ANY'
    f = dict(type=t)
    m = None
    if t.startswith('MUTEX_'):
        m = re.search(r'mutex_id:(\d+)_owner:(none|-?\d+)', ob)
        if m:
            f['mutex'] = int(m.group(1))
            f['owner'] = -1 if m.group(2) == 'none' else int(m.group(2))
    elif t in ('SEM_ASYNC_LOCK', 'SEM_UNLOCK'):
        m = re.search(r'sem_id:(\d+)', ob)
        if m:
            f['sem'] = int(m.group(1))
    elif t == 'SEM_WAIT':
        m = re.search(r'sem_id:(\d+)_(granted|not_granted)', ob)
        if m:
            f['sem'] = int(m.group(1))
            f['granted'] = m.group(2) == 'granted'
    elif t.startswith('CONDVAR_'):
        m = re.search(r'cond_id:_(\d+)', ob)
        if m:
            f['cond'] = int(m.group(1))
        m2 = re.search(r'mutex_id:(\d+)', ob)
        if m2:
            f['mutex'] = int(m2.group(1))
    elif t.startswith('BARRIER_'):
        m = re.search(r'barrier_id:(\d+)', ob)
        if m:
            f['barrier'] = int(m.group(1))
    elif t in ('COMM_ASYNC_SEND', 'COMM_ASYNC_RECV'):
        m = re.search(r'comm_id:_(\d+)_mbox:(\d+)_tag:_(-?\d+)', ob)
        if m:
            f['comm'], f['mbox'], f['tag'] = int(m.group(1)), int(m.group(2)), int(m.group(3))
    elif t == 'COMM_WAIT':
        m = re.search(r'comm_id:(\d+)_src:(-?\d+)_dst:(-?\d+)_mbox:.*\(id:(\d+)\)', ob)
        if m:
            f['comm'], f['src'], f['dst'], f['mbox'] = (int(x) for x in m.groups())
    elif t == 'COMM_TEST':
        m = re.search(r'comm_id:(\d+)_src:(-?\d+)_dst:(-?\d+)_mbox:(\d+)', ob)
        if m:
            f['comm'], f['src'], f['dst'], f['mbox'] = (int(x) for x in m.groups())
    elif t == 'COMM_IPROBE':
        m = re.search(r'mbox:(\d+)_tag:_(-?\d+)_kind:(send|recv)', ob)
        if m:
            f['mbox'], f['tag'], f['sender_side'] = int(m.group(1)), int(m.group(2)), m.group(3) == 'send'
    elif t == 'RANDOM':
        m = re.search(r'min:(-?\d+)_max:(-?\d+)', ob)
        if m:
            f['min'], f['max'] = int(m.group(1)), int(m.group(2))
    elif t == 'ACTOR_JOIN':
        m = re.search(r'pid:(-?\d+)', ob)
        if m:
            f['target'] = int(m.group(1))
    elif t == 'ACTOR_CREATE':
        m = re.search(r'ActorCreate\((-?\d+)\)', ob)
        if m:
            f['child'] = int(m.group(1))
    if t in ('TESTANY', 'WAITANY', 'ANY'):
        f['subs'] = [dict(comm=int(a), src=int(b), dst=int(c), mbox=int(d)) for a, b, c, d in
                     re.findall(r'CommTest\(comm_id:(\d+)_src:(-?\d+)_dst:(-?\d+)_mbox:(\d+)\)', ob)]
    return f


def parse_tr(typ, s):
    """checker side (Transition::to_string(verbose)) -> dict of fields"""
    f = dict(type=typ)
    if typ.startswith('MUTEX_'):
        m = re.search(r'mutex:_([0-9a-fA-F]+),_owner:_(-?\d+)', s)
        if m:
            f['mutex'] = int(m.group(1), 16)
            f['owner'] = int(m.group(2))
    elif typ.startswith('SEM_'):
        m = re.search(r'semaphore:_(\d+),_capacity:_(-?\d+)', s)
        if m:
            f['sem'], f['capacity'] = int(m.group(1)), int(m.group(2))
        m = re.search(r'granted:_(yes|no)', s)
        if m:
            f['granted'] = m.group(1) == 'yes'
    elif typ.startswith('CONDVAR_'):
        m = re.search(r'cond:_(\d+)', s)
        if m:
            f['cond'] = int(m.group(1))
        m = re.search(r'mutex:_(\d+)', s)
        if m:
            f['mutex'] = int(m.group(1))
        m = re.search(r'granted:_(yes|no),_timeout:_(yes|none)', s)
        if m:
            f['granted'], f['timeout'] = m.group(1) == 'yes', m.group(2) == 'yes'
    elif typ.startswith('BARRIER_'):
        m = re.search(r'barrier:_(\d+)', s)
        if m:
            f['barrier'] = int(m.group(1))
    elif typ in ('COMM_ASYNC_SEND', 'COMM_ASYNC_RECV'):
        m = re.search(r'mbox=(\d+),_comm=(\d+),_tag=(-?\d+)', s)
        if m:
            f['mbox'], f['comm'], f['tag'] = int(m.group(1)), int(m.group(2)), int(m.group(3))
    elif typ == 'COMM_WAIT':
        m = re.search(r'from_(-?\d+)_to_(-?\d+),_mbox=(\d+),_(no_timeout|timeout),_comm=(\d+)', s)
        if m:
            f['src'], f['dst'], f['mbox'], f['comm'] = int(m.group(1)), int(m.group(2)), int(m.group(3)), int(m.group(5))
            f['timeout'] = m.group(4) == 'timeout'
    elif typ == 'COMM_TEST':
        m = re.search(r'from_(-?\d+)_to_(-?\d+),_mbox=(\d+)', s)
        if m:
            f['src'], f['dst'], f['mbox'] = int(m.group(1)), int(m.group(2)), int(m.group(3))
    elif typ == 'COMM_IPROBE':
        m = re.search(r'mbox=(\d+),_(sender_side|recv_side),_tag=(-?\d+)', s)
        if m:
            f['mbox'], f['sender_side'], f['tag'] = int(m.group(1)), m.group(2) == 'sender_side', int(m.group(3))
    elif typ == 'RANDOM':
        m = re.search(r'Random\(\[(-?\d+);(-?\d+)\]_~>_(\d+)\)', s)
        if m:
            f['min'], f['max'], f['tc'] = int(m.group(1)), int(m.group(2)), int(m.group(3))
    elif typ == 'ACTOR_JOIN':
        m = re.search(r'target_(-?\d+)', s)
        if m:
            f['target'] = int(m.group(1))
    elif typ == 'ACTOR_CREATE':
        m = re.search(r'child_(-?\d+)', s)
        if m:
            f['child'] = int(m.group(1))
    elif typ == 'TESTANY':
        f['subs'] = [dict(src=int(a), dst=int(b), mbox=int(c)) for a, b, c in
                     re.findall(r'TestComm\(from_(-?\d+)_to_(-?\d+),_mbox=(\d+)\)', s)]
    elif typ == 'WAITANY':
        f['subs'] = [dict(src=int(a), dst=int(b), mbox=int(c), comm=int(d)) for a, b, c, d in
                     re.findall(r'WaitComm\(from_(-?\d+)_to_(-?\d+),_mbox=(\d+),_(?:no_timeout|timeout),_comm=(\d+)\)', s)]
    return f


def expected_from_plan(plan, op, pids, rrec):
    """what the plan says: op = [kind, args...] of the operation the actor is executing; pids: actor id -> pid;
    rrec: its R record if any -> dict of fields"""
    o = plan.get('objects', {})

    def idx(cls, name):
        names = [x[0] if isinstance(x, list) else x for x in o.get(cls, [])]
        return names.index(name) if name in names else None
    k = op[0]
    f = {}
    if k in ('lock', 'trylock', 'unlock'):
        f['mutex'] = idx('mutex', op[1])
    elif k in ('acquire', 'acquire_timeout', 'release'):
        f['sem'] = idx('sem', op[1])
    elif k in ('cvwait', 'cvwait_for'):
        f['cond'] = idx('cv', op[1])
        f['mutex'] = idx('mutex', op[2])     # also for the MUTEX_WAIT that re-acquires it
    elif k in ('notify_one', 'notify_all'):
        f['cond'] = idx('cv', op[1])
    elif k == 'barrier':
        f['barrier'] = idx('bar', op[1])
    elif k in ('put', 'get', 'iprobe'):
        f['mbox'] = idx('mbox', op[1])
        if k == 'iprobe':
            f['sender_side'] = op[2] == 'send'
    elif k in ('put_async', 'get_async'):
        f['mbox'] = idx('mbox', op[2])
    elif k == 'mc_random':
        f['min'], f['max'] = int(op[1]), int(op[2])
    elif k == 'join':
        f['target'] = pids.get(op[1])
    elif k == 'create' and rrec is not None and 'pid' in rrec.kv:
        f['child'] = int(rrec.kv['pid'])
    return {a: b for a, b in f.items() if b is not None}


def compare(app, chk, exp, pid, taid):
    """-> list of mismatch descriptions"""
    out = []
    if taid != pid:
        out.append('actor: executed by pid %s, decoded transition says aid %s' % (pid, taid))
    if app['type'] == 'ANY' and chk['type'] in ('TESTANY', 'WAITANY'):
        pass
    elif app['type'] != chk['type'] and not app['type'].startswith('MESS_'):
        out.append('type: application %s, checker %s' % (app['type'], chk['type']))
    for k in sorted(set(app) & set(chk)):
        if k in ('type', 'subs'):
            continue
        if app[k] != chk[k]:
            out.append('%s: application encoded %s, checker decoded %s' % (k, app[k], chk[k]))
    if 'subs' in app and 'subs' in chk:
        if len(app['subs']) != len(chk['subs']):
            out.append('number of activities: application %d, checker %d' % (len(app['subs']), len(chk['subs'])))
        else:
            for i, (a, c) in enumerate(zip(app['subs'], chk['subs'])):
                for k in sorted(set(a) & set(c)):
                    if a[k] != c[k]:
                        out.append('activity %d %s: application %s, checker %s' % (i, k, a[k], c[k]))
    for k in sorted(exp):
        for side, f in (('application', app), ('checker', chk)):
            if k in f and f[k] != exp[k]:
                out.append('%s: the plan says %s, %s side says %s' % (k, exp[k], side, f[k]))
    return out
