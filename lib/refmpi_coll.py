"""Sequential reference definitions (refmpi, collective + RMA half): what the MPI standard says each rank's receive
buffer contains after a collective, written directly from the definitions (no algorithm), plus the serialisation
oracle of RMA epochs.  Mirrors the buffer conventions of sim/mpicoll.c (guards, canaries, typed fills)."""
import zlib
from array import array

from mpicollcommon import (CANARY, DT, GUARD, USERMOD, values)

REDUCE_KINDS = ('reduce', 'allreduce', 'scan', 'exscan', 'reduce_scatter', 'reduce_scatter_block')


class Buf:
    """data slots with GUARD canaries on both sides, as allocated by the harness"""

    def __init__(self, n):
        self.n = n
        self.s = [CANARY] * (n + 2 * GUARD)

    def put_items(self, dt, displ_slots, count, items):
        """store count elements of datatype dt (their significant items given in order) at slot displ_slots"""
        nit, ext, mp = DT[dt]
        if count <= 0:
            return
        b = GUARD + displ_slots
        if nit == ext:      # contiguous
            self.s[b:b + count * nit] = items[:count * nit]
        else:
            for j, off in enumerate(mp):
                self.s[b + off:b + off + (count - 1) * ext + 1:ext] = items[j:count * nit:nit]

    def crc(self, isd):
        return zlib.crc32(array('d' if isd else 'i', self.s).tobytes()) & 0xFFFFFFFF


def _row(c, name, me, np):
    m = c[name]
    return m[me * np:(me + 1) * np]


def send_items(c, rank, np):
    """the logical item list (k = 0, 1, ...) rank contributes to call c, and how many"""
    k = c['kind']
    nit_s = DT[c['sdt']][0]
    nit_r = DT[c['rdt']][0]
    if k == 'bcast':
        n = c['rcount'] * nit_r
    elif k in ('reduce', 'allreduce', 'scan', 'exscan'):
        n = c['rcount'] * nit_r
    elif k == 'reduce_scatter':
        n = sum(_row(c, 'rcounts', rank, np)) * nit_r
    elif k == 'reduce_scatter_block':
        n = c['rcount'] * np * nit_r
    elif k in ('gather', 'allgather'):
        n = c['rcount'] * nit_r     # signature equality: scount*items(sdt) == rcount*items(rdt)
    elif k in ('gatherv', 'allgatherv'):
        n = _row(c, 'rcounts', rank, np)[rank] * nit_r
    elif k == 'scatter':
        n = np * c['scount'] * nit_s
    elif k == 'scatterv':
        n = sum(_row(c, 'scounts', rank, np)) * nit_s
    elif k == 'alltoall':
        n = np * c['rcount'] * nit_r
    elif k == 'alltoallv':
        if c['inplace']:
            n = sum(_row(c, 'rcounts', rank, np)) * nit_r
        else:
            n = sum(_row(c, 'scounts', rank, np)) * nit_s
    elif k == 'alltoallw':
        sc = _row(c, 'scounts', rank, np)
        st = _row(c, 'stypes', rank, np)
        n = sum(sc[i] * DT[st[i]][0] for i in range(np))
    else:
        n = 0
    return values(c['vc'], c['seed'], rank, 0, n, c['period'])


# ---- reductions on item lists ---------------------------------------------------------------------------
def _reduce_lists(op, lists):
    """elementwise reduction of equally long item lists, in rank order (all ops are commutative+associative)"""
    if not lists:
        return []
    if len(lists) == 1:
        return list(lists[0])
    if op == 'sum':
        return [sum(t) for t in zip(*lists)]
    if op == 'user':
        return [sum(t) % USERMOD for t in zip(*lists)]
    if op == 'max':
        return [max(t) for t in zip(*lists)]
    if op == 'min':
        return [min(t) for t in zip(*lists)]
    if op == 'prod':
        out = list(lists[0])
        for l in lists[1:]:
            out = [a * b for a, b in zip(out, l)]
        return out
    if op in ('bxor', 'band', 'bor'):
        out = list(lists[0])
        for l in lists[1:]:
            if op == 'bxor':
                out = [a ^ b for a, b in zip(out, l)]
            elif op == 'band':
                out = [a & b for a, b in zip(out, l)]
            else:
                out = [a | b for a, b in zip(out, l)]
        return out
    if op in ('maxloc', 'minloc'):
        n = len(lists[0]) // 2
        out = []
        for e in range(n):
            pairs = [(l[2 * e], l[2 * e + 1]) for l in lists]
            best = max(p[0] for p in pairs) if op == 'maxloc' else min(p[0] for p in pairs)
            out += [best, min(p[1] for p in pairs if p[0] == best)]
        return out
    raise ValueError(op)


def reduce_items(op, lists, period):
    """reduction exploiting the common 2*period periodicity of the inputs"""
    n = len(lists[0]) if lists else 0
    L = 2 * period
    if n <= L:
        return _reduce_lists(op, lists)
    head = _reduce_lists(op, [l[:L] for l in lists])
    return (head * (n // L + 1))[:n]


# ---- expected receive allocations -----------------------------------------------------------------------
def expected(c, np):
    """-> list (per rank) of expected slot lists of the receive allocation (incl. guards), or None (barrier)"""
    k = c['kind']
    if k == 'barrier':
        return None
    sdt, rdt, root, ip = c['sdt'], c['rdt'], c['root'], c['inplace']
    nit_r, ext_r, _ = DT[rdt]
    S = [send_items(c, r, np) for r in range(np)]
    out = []
    if k == 'bcast':
        for r in range(np):
            b = Buf(c['rcount'] * ext_r)
            b.put_items(rdt, 0, c['rcount'], S[root])
            out.append(b.s)
    elif k in ('reduce', 'allreduce'):
        red = reduce_items(c['op'], S, c['period'])
        for r in range(np):
            b = Buf(c['rcount'] * ext_r)
            if k == 'allreduce' or r == root:
                b.put_items(rdt, 0, c['rcount'], red)
            out.append(b.s)
    elif k in ('scan', 'exscan'):
        for r in range(np):
            b = Buf(c['rcount'] * ext_r)
            hi = r + 1 if k == 'scan' else r
            if hi > 0:
                b.put_items(rdt, 0, c['rcount'], reduce_items(c['op'], S[:hi], c['period']))
            out.append(b.s)
    elif k in ('reduce_scatter', 'reduce_scatter_block'):
        red = reduce_items(c['op'], S, c['period'])
        for r in range(np):
            rc = _row(c, 'rcounts', r, np) if k == 'reduce_scatter' else [c['rcount']] * np
            tot = sum(rc)
            off = sum(rc[:r]) * nit_r
            if ip:
                b = Buf(tot * ext_r)    # the harness wipes the (unspecified) input area beyond the result block
                b.put_items(rdt, 0, rc[r], red[off:off + rc[r] * nit_r])
            else:
                b = Buf(rc[r] * ext_r)
                b.put_items(rdt, 0, rc[r], red[off:off + rc[r] * nit_r])
            out.append(b.s)
    elif k in ('gather', 'allgather'):
        for r in range(np):
            b = Buf(np * c['rcount'] * ext_r)
            if k == 'allgather' or r == root:
                for q in range(np):
                    b.put_items(rdt, q * c['rcount'] * ext_r, c['rcount'], S[q])
            out.append(b.s)
    elif k in ('gatherv', 'allgatherv'):
        for r in range(np):
            rc = _row(c, 'rcounts', r, np)
            rd = _row(c, 'rdispls', r, np)
            b = Buf(max([(rd[i] + rc[i]) * ext_r for i in range(np)] + [0]))
            if k == 'allgatherv' or r == root:
                for q in range(np):
                    b.put_items(rdt, rd[q] * ext_r, rc[q], S[q])
            out.append(b.s)
    elif k == 'scatter':
        nit_s = DT[sdt][0]
        per = c['scount'] * nit_s
        for r in range(np):
            b = Buf(c['rcount'] * ext_r)
            if not (ip and r == root):
                b.put_items(rdt, 0, c['rcount'], S[root][r * per:(r + 1) * per])
            out.append(b.s)
    elif k == 'scatterv':
        nit_s = DT[sdt][0]
        sc = _row(c, 'scounts', root, np)
        for r in range(np):
            rcount = c['rcounts'][r]
            b = Buf(rcount * ext_r)
            off = sum(sc[:r]) * nit_s
            if not (ip and r == root):
                b.put_items(rdt, 0, rcount, S[root][off:off + sc[r] * nit_s])
            out.append(b.s)
    elif k == 'alltoall':
        per = c['rcount'] * nit_r
        for r in range(np):
            b = Buf(np * c['rcount'] * ext_r)
            for q in range(np):
                b.put_items(rdt, q * c['rcount'] * ext_r, c['rcount'], S[q][r * per:(r + 1) * per])
            out.append(b.s)
    elif k == 'alltoallv':
        nit_s = DT[sdt][0]
        for r in range(np):
            rc = _row(c, 'rcounts', r, np)
            rd = _row(c, 'rdispls', r, np)
            b = Buf(max([(rd[i] + rc[i]) * ext_r for i in range(np)] + [0]))
            for q in range(np):
                qc = _row(c, 'rcounts' if ip else 'scounts', q, np)
                nq = nit_r if ip else nit_s
                off = sum(qc[:r]) * nq
                b.put_items(rdt, rd[q] * ext_r, rc[q], S[q][off:off + qc[r] * nq])
            out.append(b.s)
    elif k == 'alltoallw':
        for r in range(np):
            rc = _row(c, 'rcounts', r, np)
            rd = _row(c, 'rdispls', r, np)
            rt = _row(c, 'rtypes', r, np)
            b = Buf(max([rd[i] + rc[i] * DT[rt[i]][1] for i in range(np)] + [0]))
            for q in range(np):
                qc = _row(c, 'scounts', q, np)
                qt = _row(c, 'stypes', q, np)
                off = sum(qc[i] * DT[qt[i]][0] for i in range(r))
                b.put_items(rt[q], rd[q], rc[q], S[q][off:off + qc[r] * DT[qt[r]][0]])
            out.append(b.s)
    else:
        raise ValueError(k)
    return out


def recv_alloc_slots(c, rank, np):
    """number of data slots of the receive allocation of `rank` (what the harness reports as nslots)"""
    e = expected(c, np)
    return None if e is None else len(e[rank]) - 2 * GUARD


# =========================================================================================================
# RMA: window contents and fetched values under the synchronisation used
# =========================================================================================================
def rma_apply(op, old, new):
    if op == 'replace':
        return new
    if op == 'noop':
        return old
    if op == 'sum':
        v = old + new
    elif op == 'prod':
        v = old * new
    elif op == 'max':
        return max(old, new)
    elif op == 'min':
        return min(old, new)
    elif op == 'bxor':
        return old ^ new
    elif op == 'band':
        return old & new
    elif op == 'bor':
        return old | new
    else:
        raise ValueError(op)
    # C int arithmetic wraps; the generator keeps values small, wrap for safety
    v &= 0xFFFFFFFF
    return v - (1 << 32) if v & 0x80000000 else v


class RmaSearch:
    """Is there a serialisation of one target's accesses, consistent with locks and program order, that explains
    every fetched value and the final window content?

    Each origin has a sequence of epochs on this target; an epoch is (excl, [micro-ops]); a micro-op is
    (loc, kind, arg, observed) on ONE location: kind 'w' (replace, arg=value), 'a' (accumulate, arg=(op,value)),
    'r' (read), 'f' (fetch+accumulate, arg=(op,value)), 'c' (compare-and-swap, arg=(cmp,new)); `observed` is the value
    the origin got (None for 'w'/'a').  Within an epoch micro-ops on different locations are unordered, on the same
    location they are in program order.  Exclusive epochs do not overlap any other epoch."""

    def __init__(self, init, seqs, final, budget=200000):
        self.init = dict(init)      # loc -> value (only touched locations)
        self.seqs = seqs            # list over origins of list of epochs
        self.final = final          # loc -> observed final value
        self.budget = budget
        self.seen = set()
        self.exhausted = False

    def solve(self):
        pos = tuple((0, frozenset()) for _ in self.seqs)   # per origin: (epoch index, done micro-op indexes) ; epoch open iff done nonempty or flagged
        opened = tuple(False for _ in self.seqs)
        return self._dfs(pos, opened, tuple(sorted(self.init.items())))

    def _dfs(self, pos, opened, mem):
        key = (pos, opened, mem)
        if key in self.seen:
            return False
        self.seen.add(key)
        if len(self.seen) > self.budget:
            self.exhausted = True
            return True     # undecided: never raise an alarm on an incomplete search
        memd = dict(mem)
        if all(pos[o][0] >= len(self.seqs[o]) for o in range(len(self.seqs))):
            return all(memd.get(l) == v for l, v in self.final.items())
        for o in range(len(self.seqs)):
            ei, done = pos[o]
            if ei >= len(self.seqs[o]):
                continue
            excl, mops = self.seqs[o][ei]
            if not opened[o]:
                # try to open the epoch: lock compatibility
                others = [(self.seqs[q][pos[q][0]][0]) for q in range(len(self.seqs)) if q != o and opened[q]]
                if excl and others:
                    continue
                if (not excl) and any(others):
                    continue
                no = list(opened)
                no[o] = True
                if self._dfs(pos, tuple(no), mem):
                    return True
                continue
            if len(done) == len(mops):
                # close the epoch
                np_ = list(pos)
                np_[o] = (ei + 1, frozenset())
                no = list(opened)
                no[o] = False
                if self._dfs(tuple(np_), tuple(no), mem):
                    return True
                continue
            # next micro-op: the first not-done one of each location
            firsts = {}
            for i, m in enumerate(mops):
                if i not in done and m[0] not in firsts:
                    firsts[m[0]] = i
            for loc, i in sorted(firsts.items()):
                _, kind, arg, obs = mops[i]
                cur = memd.get(loc)
                new = cur
                if kind == 'w':
                    new = arg
                elif kind == 'a':
                    new = rma_apply(arg[0], cur, arg[1])
                elif kind == 'r':
                    if obs != cur:
                        continue
                elif kind == 'f':
                    if obs != cur:
                        continue
                    new = rma_apply(arg[0], cur, arg[1])
                elif kind == 'c':
                    if obs != cur:
                        continue
                    if cur == arg[0]:
                        new = arg[1]
                nm = dict(memd)
                nm[loc] = new
                np_ = list(pos)
                np_[o] = (ei, done | {i})
                if self._dfs(tuple(np_), opened, tuple(sorted(nm.items()))):
                    return True
        return False
