"""Base class of engine-A checks: run the plan in s4usim, parse the log, common oracles."""
import dst
import gen
import refsync
import s4u


class S4UCheck(dst.Check):
    real_vs_stub = {'simgrid kernel (maestro, actors, simcalls, activities, models, solver)': 'real',
                    'context factories': 'real (raw/boost/thread, sequential)',
                    'platform': 'real objects built through the s4u API from the generated plan',
                    'application': 'generated plan interpreted by /verif/sim/s4usim (stub of a user program)',
                    'wall clock': 'not used (simulated clock only); wall time only as a kill budget'}
    run_timeout = 60
    expect_clean_exit = True
    allow_deadlock = True
    sim_args = ()

    def run(self, plan, scratch):
        res = s4u.run_plan(plan, scratch, extra_args=self.sim_args, timeout=self.run_timeout)
        res['hash'] = dst.sha(res['log'], res['rc'])
        return res

    def recs(self, res):
        if '_recs' not in res:
            res['_recs'] = s4u.parse_log(res['log'])
        return res['_recs']

    # ---- common oracle parts
    def crash_violations(self, plan, res):
        v = []
        recs = self.recs(res)
        if res['timed_out']:
            v.append(('hang', 'harness did not finish within %ds wall (simulated time stuck?)' % self.run_timeout))
            return v
        fatal = [r for r in recs if r.t == 'X']
        if fatal or res['rc'] != 0:
            tail = res.get('stderr_tail', '')[-600:].replace('\n', ' | ')
            v.append(('crash', 'harness rc=%s %s ; stderr tail: %s' % (res['rc'], fatal[0].raw if fatal else '', tail)))
        elif not any(r.t == 'S' and r.kind == 'end' for r in recs[-40:]):
            v.append(('crash', 'log truncated (no end record), rc=%s' % res['rc']))
        return v

    def model(self, plan, res):
        if '_model' not in res:
            if plan.get('opts', {}).get('mode') == 'walk':
                import refwalk
                m = refwalk.WalkModel(plan, self.recs(res))
            else:
                m = refsync.Model(plan, self.recs(res))
            m.run()
            res['_model'] = m
        return res['_model']

    def final_state_violations(self, plan, res, prefix='final'):
        """the run's final blocked set must be the model's; a deadlock is reported iff the model is deadlocked"""
        v = []
        recs = self.recs(res)
        m = self.model(plan, res)
        real_blocked = {}
        for r in recs:
            if r.t == 'S' and r.kind == 'blocked':
                real_blocked[r.aid] = (r.aid, int(r.kv['inc']), int(r.kv['op']))
        deadlock_reported = any(r.t == 'S' and r.kind == 'deadlock' for r in recs)
        mb = m.blocked_set()
        pend = m.pending
        if m.deadlock_snapshot is not None:
            mb, pend = m.deadlock_snapshot
        if deadlock_reported:
            for aid, key in sorted(real_blocked.items()):
                if aid not in mb:
                    w = pend.get(aid)
                    v.append((prefix + '_stuck', 'run ended in deadlock with %s blocked at op %d, but in the reference '
                              'semantics that operation has completed (granted=%s)' %
                              (aid, key[2], getattr(w, 'granted', None))))
            if not mb and not real_blocked:
                pass
            if not mb and real_blocked:
                v.append((prefix + '_deadlock_spurious', 'deadlock reported but the reference model has nobody blocked'))
        else:
            for aid, key in sorted(mb.items()):
                v.append((prefix + '_missed_block', 'run ended normally but the model has %s blocked at op %d' %
                          (aid, key[2])))
        return v

    def sync_violations(self, plan, res, prefixes):
        """model violations of the given classes + final state; nothing if the plan is ill-formed (shrinking artefact)"""
        v = self.crash_violations(plan, res)
        if any(c == 'hang' for c, _ in v):
            return v
        m = self.model(plan, res)
        if m.illformed:
            return []
        v += [(c, msg) for c, msg in m.viol if c.startswith(tuple(prefixes))]
        if not any(c == 'crash' for c, _ in v):
            v += self.final_state_violations(plan, res)
        return v

    def sleep_violations(self, plan, res, suspended=()):
        """C03 cross-invariant checked in every campaign: an undisturbed sleep_for(d) returns exactly d later"""
        v = []
        calls = {}
        for r in self.recs(res):
            if r.kind not in ('sleep', 'sleep_until'):
                continue
            key = (r.aid, r.inc, r.idx)
            if r.t == 'C':
                calls[key] = r
            elif r.t == 'R' and key in calls and not r.kv.get('exc') and r.aid not in suspended:
                c = calls[key]
                d = float(c.args[0])
                if r.kind == 'sleep':
                    want = c.clock + (max(d, 1e-9) if d > 0 else 0.0)
                else:
                    want = max(d, c.clock)
                if not refsync.close(r.clock, want):
                    v.append(('sleep_date', '%s(%r) by %s called at %r returned at %r instead of %r (seq %d)' %
                              (r.kind, d, r.aid, c.clock, r.clock, want, r.seq)))
        return v[:3]

    def signature(self, plan, res):
        return gen.signature_of_calls(self.recs(res))

    def shrink(self, plan):
        return gen.shrink_plan(plan)

    def describe(self, plan, res):
        d = gen.small_desc(plan)
        d['log_head'] = res['log'].split('\n')[:12]
        return d

    def base_stats(self, plan, res):
        recs = self.recs(res)
        end = [r for r in recs if r.t == 'S' and r.kind == 'end']
        st = dict(sim_seconds=end[0].clock if end else 0.0)
        st['fault_deadlock_runs'] = 1 if any(r.t == 'S' and r.kind == 'deadlock' for r in recs) else 0
        st['h2_permuted_subrounds'] = int(end[0].kv.get('h2perm', 0)) if end else 0
        return st
