"""Reference model for engine D: refwalk.WalkModel (mutex, semaphore, condvar, barrier in the model checker's split
simcalls) extended with what the generated programs of C38-C43 use on top of it: mailbox communications in the
checker's model (FIFO matching at the ASYNC_SEND/ASYNC_RECV transition, a COMM_WAIT is enabled iff the communication
is matched, COMM_TEST answers 'matched', TESTANY/WAITANY pick one matched communication, IPROBE looks at the queue
of the other kind), actor join (enabled iff the target has ended) and MC_random (value = min + times_considered).
Driven from the log of walker D (sim/s4usim_mcd.cpp): one 'step' record per transition, executed immediately."""
import refwalk

TR_NAMES = {'CommAsyncSend': 'COMM_ASYNC_SEND', 'CommAsyncRecv': 'COMM_ASYNC_RECV', 'CommWait': 'COMM_WAIT',
            'CommTest': 'COMM_TEST', 'TestAny': 'TESTANY', 'WaitAny': 'WAITANY', 'Iprobe': 'COMM_IPROBE',
            'Random': 'RANDOM', 'ActorJoin': 'ACTOR_JOIN', 'ActorCreate': 'ACTOR_CREATE', 'ActorSleep': 'ACTOR_SLEEP',
            'ActorExit': 'ACTOR_EXIT', 'MessAsyncPut': 'MESS_ASYNC_PUT', 'MessAsyncGet': 'MESS_ASYNC_GET'}


def tr_type(tr):
    """type name of an application-side observer string (tr= of a step record)"""
    t = tr.split('(')[0]
    return TR_NAMES.get(t, t)


class WalkModelD(refwalk.WalkModel):
    def __init__(self, plan, recs):
        super().__init__(plan, recs)
        self.ended = set()
        self.joinwait = {}
        self.dstats = dict(test_true=0, test_false=0, iprobe_true=0, iprobe_false=0, waitany=0, testany=0, random=0,
                           join=0, comm_wait=0)

    # ------------------------------------------------------------------------------------------------ helpers
    def req_of_slot(self, slot):
        k = self.slot_req.get(slot)
        return self.requests.get(k) if k is not None else None

    def matched(self, req):
        return req is not None and req['peer'] is not None

    # ------------------------------------------------------------------------------------------------ one transition
    def step(self, r):
        aid = r.kv.get('aid')
        tr = r.kv.get('tr', '-')
        tt = tr_type(tr)
        c = self.cur.get(aid)
        if tt in ('MUTEX_ASYNC_LOCK', 'MUTEX_WAIT', 'MUTEX_TRYLOCK', 'MUTEX_UNLOCK', 'SEM_ASYNC_LOCK', 'SEM_WAIT',
                  'SEM_UNLOCK', 'CONDVAR_ASYNC_LOCK', 'CONDVAR_WAIT', 'CONDVAR_SIGNAL', 'CONDVAR_BROADCAST',
                  'BARRIER_ASYNC_LOCK', 'BARRIER_WAIT'):
            return super().step(r)
        # statistics kept by the base class
        en = r.kv.get('en', '').split(',')
        self.wstats['steps'] += 1
        if len(en) > 1:
            self.wstats['choice_points'] += 1
        self.wstats['max_enabled'] = max(self.wstats['max_enabled'], len(en))
        if c is None:
            return
        key = (c.aid, c.inc, c.idx)
        a = c.args
        k = c.kind
        tc = int(r.kv.get('tc', 0))

        def not_enabled(what):
            self.v('walk_enabled', 'step %s: %s of %s (op %s %s) was executed, but in the reference semantics %s' %
                   (r.kv.get('n'), tt, aid, k, ' '.join(a), what))
        if tt in ('COMM_ASYNC_SEND', 'COMM_ASYNC_RECV'):
            if key not in self.requests or not self.requests[key]['posted']:
                self.handle_call(c)
        elif tt == 'COMM_WAIT':
            self.dstats['comm_wait'] += 1
            req = self.requests.get(key) if k in ('put', 'get') else (self.req_of_slot(a[0]) if a else None)
            if req is not None and not self.matched(req):
                not_enabled('the communication has no matching peer yet')
        elif tt == 'COMM_TEST':
            req = self.req_of_slot(a[0]) if a else None
            if req is not None:
                self.expect[key] = dict(done=self.matched(req))
                self.dstats['test_true' if self.matched(req) else 'test_false'] += 1
        elif tt in ('TESTANY', 'WAITANY'):
            slots = [x for x in a if '=' not in x and x in self.slot_req]
            ready = [x for x in slots if self.matched(self.req_of_slot(x))]
            self.dstats['waitany' if tt == 'WAITANY' else 'testany'] += 1
            if tt == 'WAITANY':
                if not ready:
                    not_enabled('none of its communications is matched')
                self.expect[key] = dict(got=ready[tc] if tc < len(ready) else '?', ready=ready)
            else:
                self.expect[key] = dict(got=ready[tc] if tc < len(ready) else '-', ready=ready)
        elif tt == 'COMM_IPROBE':
            mb = self.mbox.get(a[0])
            if mb is not None:
                side = 'recvs' if (len(a) > 1 and a[1] == 'send') else 'sends'
                found = any(not q['gone'] for q in mb[side])
                self.expect[key] = dict(found=found)
                self.dstats['iprobe_true' if found else 'iprobe_false'] += 1
        elif tt == 'RANDOM':
            self.expect[key] = dict(value=int(a[0]) + tc)
            self.dstats['random'] += 1
        elif tt == 'ACTOR_JOIN':
            self.dstats['join'] += 1
            if a and a[0] not in self.ended and a[0] not in self.dead:
                not_enabled('the joined actor %s has not ended' % a[0])

    # ------------------------------------------------------------------------------------------------ results
    def handle_return(self, r):
        super().handle_return(r)
        key = (r.aid, r.inc, r.idx)
        e = self.expect.get(key)
        if e is None or r.kv.get('skip') == '1':
            return
        k = r.kind
        if k == 'test' and 'done' in e:
            if (r.kv.get('done') == '1') != e['done']:
                self.v('test_result', 'test by %s (op %d) returned done=%s, the reference semantics says %d' %
                       (r.aid, r.idx, r.kv.get('done'), int(e['done'])))
        elif k in ('wait_any', 'test_any') and 'got' in e:
            if r.kv.get('got') != e['got']:
                self.v('any_result', '%s by %s (op %d) returned %s, the reference semantics says %s (matched: %s)' %
                       (k, r.aid, r.idx, r.kv.get('got'), e['got'], e['ready']))
        elif k == 'iprobe' and 'found' in e:
            if (r.kv.get('found') == '1') != e['found']:
                self.v('iprobe_result', 'iprobe by %s (op %d) returned found=%s, the reference semantics says %d' %
                       (r.aid, r.idx, r.kv.get('found'), int(e['found'])))
        elif k == 'mc_random' and 'value' in e:
            if r.kv.get('value') != str(e['value']):
                self.v('random_result', 'MC_random by %s (op %d) returned %s, min + times_considered is %d' %
                       (r.aid, r.idx, r.kv.get('value'), e['value']))

    # ------------------------------------------------------------------------------------------------ driver
    def run(self):
        self.callrec = {}
        for r in self.recs:
            if r.t == 'C':
                key = (r.aid, r.inc, r.idx)
                self.callrec[key] = r
                self.cur[r.aid] = r
                if r.kind == 'wait' and r.args:
                    self.opwait[r.aid] = dict(key=key, slots=[r.args[0]], any=False)
                elif r.kind == 'wait_any':
                    self.opwait[r.aid] = dict(key=key, slots=[x for x in r.args if '=' not in x], any=True)
                elif r.kind == 'join' and r.args:
                    self.joinwait[r.aid] = (key, r.args[0])
            elif r.t == 'R':
                self.handle_return(r)
            elif r.t == 'S':
                if r.kind == 'step':
                    self.step(r)
                elif r.kind == 'actor_end':
                    self.ended.add(r.aid)
                    self.actor_requests_cancel(r.aid)
                    self.cur.pop(r.aid, None)
                elif r.kind == 'actor_term':
                    self.ended.add(r.aid)
                    self.actor_dead(r.aid)
                elif r.kind == 'deadlock':
                    self.deadlock_snapshot = (self.blocked_set(), dict(self.pending))
        return self.viol

    def blocked_set(self):
        out = super().blocked_set()
        for aid, (key, tgt) in self.joinwait.items():
            if aid in self.dead or key in self.R:
                continue
            if tgt not in self.ended and tgt not in self.dead:
                out[aid] = key
        return out
