"""Shared helpers of the mpicoll engine (C29 collectives, C34 RMA, C37 replay): value function (mirror of
sim/mpicoll.c), datatype tables, plan -> text writer, platform/hostfile writer, SMPI launcher, algorithm enumeration.

Everything here is a pure function of its arguments; randomness only comes from rng.Rng streams given by callers."""
import os
import re
import shutil
import time

import dst

M32 = 0xFFFFFFFF
GUARD = 8
CANARY = -1700000017
USERMOD = 10007
(VC_MOVE, VC_SUM, VC_PROD, VC_MINMAX, VC_BITS, VC_BAND, VC_LOC, VC_USER) = range(8)

# datatype code -> (significant base items per element, extent in base slots, slot offsets of the items)
DT = {'i': (1, 1, (0,)), 'd': (1, 1, (0,)), 'c3': (3, 3, (0, 1, 2)), 'v2': (2, 3, (0, 2)), '2i': (2, 2, (0, 1)),
      'c2': (2, 2, (0, 1))}
DT_CODE = {'i': 0, 'd': 1, 'c3': 2, 'v2': 3, '2i': 4, 'c2': 5}


def sgdir():
    """the SimGrid build used for execution; VERIF_SG overrides (sensitivity runs against a mutant build)"""
    return os.environ.get('VERIF_SG', dst.SG)


def smpimain():
    return sgdir() + '/lib/simgrid/smpimain'


def smpireplaymain():
    return sgdir() + '/lib/simgrid/smpireplaymain'


MPICOLL = os.environ.get('VERIF_MPICOLL', dst.BIN + '/mpicoll')


def mix3(a, b, c):
    h = ((a * 2654435761) & M32) ^ (((b + 0x9e3779b9) * 2246822519) & M32) ^ (((c + 0x85ebca6b) * 3266489917) & M32)
    h ^= h >> 15
    h = (h * 2246822519) & M32
    h ^= h >> 13
    h = (h * 3266489917) & M32
    h ^= h >> 16
    return h


_PROD = (1, 2, -1, 1)


def value_of(vc, seed, rank, k, period):
    h = mix3(seed, rank, (k >> 1) % period)
    if k & 1:
        h = mix3(h, 0x51ed270b, 7)
    if vc == VC_MOVE:
        return h % 200001 - 100000
    if vc == VC_SUM:
        return h % 9 - 4
    if vc == VC_PROD:
        return _PROD[h & 3]
    if vc == VC_MINMAX:
        return h % 2001 - 1000
    if vc == VC_BITS:
        return h & 0x7fffffff
    if vc == VC_BAND:
        return (h | (h >> 7) | ((h << 9) & M32) | 0x40000001) & 0x7fffffff
    if vc == VC_LOC:
        return (h >> 7) % 40 if k & 1 else h % 5
    if vc == VC_USER:
        return h % USERMOD
    raise ValueError(vc)


_tbl_cache = {}


def values(vc, seed, rank, k0, n, period):
    """list of value_of(.., k, ..) for k0 <= k < k0+n, using the 2*period periodicity"""
    if n <= 0:
        return []
    L = 2 * period
    if n < 64 and n < L:
        return [value_of(vc, seed, rank, k, period) for k in range(k0, k0 + n)]
    key = (vc, seed, rank, period)
    t = _tbl_cache.get(key)
    if t is None:
        if len(_tbl_cache) > 256:
            _tbl_cache.clear()
        t = [value_of(vc, seed, rank, k, period) for k in range(L)]
        _tbl_cache[key] = t
    s = k0 % L
    reps = (s + n) // L + 1
    return (t * reps)[s:s + n]


# ---------------------------------------------------------------------------------------------------------
def list_algorithms(sg=None):
    """{collective: [algorithm names]} parsed from `smpimain --help-coll` of the running tree"""
    exe = (sg or sgdir()) + '/lib/simgrid/smpimain'
    if not os.path.exists(exe):
        raise dst.Infra('smpimain missing: ' + exe)
    for attempt in range(60):
        try:
            rc, out, err, to = dst.run_proc([exe, '--help-coll'], timeout=30)
        except OSError:
            rc, out, err, to = 127, b'', b'error while loading shared libraries (exec failed)', False
        if rc == 127 and b'error while loading shared libraries' in err:
            time.sleep(3)
            continue
        break
    txt = out.decode(errors='replace') + err.decode(errors='replace')
    algos = {}
    cur = None
    for line in txt.splitlines():
        m = re.match(r'Collective: "(\w+)"', line)
        if m:
            cur = m.group(1)
            algos[cur] = []
            continue
        m = re.match(r'  (\S+)\s+\S', line)
        if m and cur and not line.startswith('   '):
            algos[cur].append(m.group(1))
    if len(algos) < 5:
        raise dst.Infra('could not parse --help-coll output: ' + txt[:400])
    return algos


_ALGOS = None


def algorithms():
    global _ALGOS
    if _ALGOS is None:
        _ALGOS = list_algorithms()
    return _ALGOS


# ---------------------------------------------------------------------------------------------------------
def write_platform(path, plat):
    """plat: dict(kind='cluster'|'full', nhosts, lat_us, bw_MBps, [per-host 'lats', 'bws'], loop_lat_us)
    Hosts run at 1 Gf so that 1000 flops = 1 us of think time."""
    n = plat['nhosts']
    out = ["<?xml version='1.0'?>", '<!DOCTYPE platform SYSTEM "https://simgrid.org/simgrid.dtd">',
           '<platform version="4.1">']
    if plat['kind'] == 'cluster':
        out.append('<cluster id="c" prefix="n" suffix="" radical="0-%d" speed="1Gf" bw="%sMBps" lat="%sus" '
                   'loopback_bw="%sMBps" loopback_lat="%sus"/>' %
                   (n - 1, plat['bw_MBps'], plat['lat_us'], plat.get('loop_bw_MBps', 5000), plat.get('loop_lat_us', 0)))
    else:
        out.append('<zone id="z" routing="Full">')
        for i in range(n):
            out.append('<host id="n%d" speed="1Gf"/>' % i)
            out.append('<link id="l%d" bandwidth="%sMBps" latency="%sus"/>' % (i, plat['bws'][i], plat['lats'][i]))
            out.append('<link id="lo%d" bandwidth="%sMBps" latency="%sus" sharing_policy="FATPIPE"/>' %
                       (i, plat.get('loop_bw_MBps', 5000), plat.get('loop_lat_us', 0)))
        for i in range(n):
            out.append('<route src="n%d" dst="n%d"><link_ctn id="lo%d"/></route>' % (i, i, i))
            for j in range(i + 1, n):
                out.append('<route src="n%d" dst="n%d"><link_ctn id="l%d"/><link_ctn id="l%d"/></route>' % (i, j, i, j))
        out.append('</zone>')
    out.append('</platform>')
    with open(path, 'w') as f:
        f.write('\n'.join(out) + '\n')


def gen_platform(r, np, allow_full=True):
    """seeded platform + rank->host mapping"""
    mapping_kind = r.wchoice([('one', 5), ('block2', 2), ('block4', 2), ('rr', 1), ('irregular', 1)])
    if mapping_kind == 'one':
        hosts = list(range(np))
    elif mapping_kind == 'block2':
        hosts = [i // 2 for i in range(np)]
    elif mapping_kind == 'block4':
        hosts = [i // 4 for i in range(np)]
    elif mapping_kind == 'rr':
        nh = max(1, (np + 1) // 2)
        hosts = [i % nh for i in range(np)]
    else:
        hosts = []
        h = 0
        while len(hosts) < np:
            k = r.randint(1, 3)
            hosts += [h] * k
            h += 1
        hosts = hosts[:np]
    nh = max(hosts) + 1
    lat = r.choice([0, 1, 10, 50, 500])
    bw = r.choice([10, 125, 1250])
    plat = dict(nhosts=max(nh, 2), lat_us=lat, bw_MBps=bw, loop_lat_us=r.choice([0, 1]))
    if allow_full and r.chance(0.4):
        plat['kind'] = 'full'
        plat['lats'] = [r.choice([0, 1, 5, 20, 100, 700]) for _ in range(plat['nhosts'])]
        plat['bws'] = [r.choice([10, 125, 1250]) for _ in range(plat['nhosts'])]
    else:
        plat['kind'] = 'cluster'
    return plat, hosts


def write_hostfile(path, hosts):
    with open(path, 'w') as f:
        for h in hosts:
            f.write('n%d\n' % h)


def base_cfg(scratch):
    return ['--cfg=smpi/privatization:OFF', '--cfg=smpi/simulate-computation:no', '--cfg=smpi/host-speed:1Gf',
            '--cfg=precision/timing:1e-9', '--cfg=network/model:SMPI', '--cfg=smpi/tmpdir:' + scratch,
            '--log=xbt_cfg.thres:warning', '--log=smpi_coll.thres:warning', '--log=smpi_config.thres:warning']


def run_smpi(scratch, np, plat, hosts, cfg, plan_text, timeout=60, extra_env=None, exe=None, prog_args=None,
             extra_cfg=()):
    """one SMPI execution of mpicoll on plan_text; returns (rc, stdout str, stderr str, timed_out)"""
    if not os.path.exists(smpimain()):
        raise dst.Infra('smpimain missing in ' + sgdir())
    if not os.path.exists(MPICOLL):
        raise dst.Infra('harness missing: ' + MPICOLL)
    os.makedirs(scratch, exist_ok=True)
    pf = scratch + '/plat.xml'
    hf = scratch + '/hostfile'
    pl = scratch + '/plan.txt'
    write_platform(pf, plat)
    write_hostfile(hf, hosts)
    with open(pl, 'w') as f:
        f.write(plan_text)
    cmd = [smpimain(), exe or MPICOLL] + base_cfg(scratch) + ['--cfg=smpi/np:%d' % np, '--cfg=smpi/hostfile:' + hf]
    for k in sorted(cfg):
        cmd.append('--cfg=%s:%s' % (k, cfg[k]))
    cmd += list(extra_cfg)
    cmd.append(pf)
    cmd += prog_args if prog_args is not None else [pl]
    env = {'SMPI_GLOBAL_SIZE': str(np), 'LD_LIBRARY_PATH': sgdir() + '/lib'}
    if extra_env:
        env.update(extra_env)
    for attempt in range(60):
        try:
            rc, out, err, to = dst.run_proc(cmd, timeout=timeout, env=env, cwd=scratch)
        except OSError:         # binary being replaced by a concurrent bin/vbuild (ETXTBSY, EACCES, ENOENT)
            rc, out, err, to = 127, b'', b'error while loading shared libraries (exec failed)', False
        if (rc == 127 and b'error while loading shared libraries' in err) or b'file too short' in err:
            time.sleep(3)       # bin/vbuild is relinking the library right now (it holds build/.lock): wait, retry
            continue
        break
    else:
        raise dst.Infra('libsimgrid not loadable: ' + err.decode(errors='replace')[:300])
    return rc, out.decode(errors='replace'), err.decode(errors='replace'), to


def cleanup(scratch):
    shutil.rmtree(scratch, ignore_errors=True)


# a fatal MPI error code raised by the collective entry point itself (not by an internal recv/send of an algorithm)
_MPI_ERR = re.compile(r'(MPI_I?(?:[Bb]cast|[Rr]educe\w*|[Aa]llreduce|[Aa]llgatherv?|[Aa]lltoall[vw]?|[Gg]atherv?|[Ss]catterv?|'
                      r'[Bb]arrier|[Ee]?[Xx]?[Ss]can)) - returned (MPI_ERR_\w+) instead of MPI_SUCCESS')
REFUSAL_PATTERNS = [
    r"can't be used", r'can not be used', r'cannot be used', r'invalid_argument', r'power of two', r'power of 2',
    r'not implemented', r'[Uu]nimplemented', r'not supported', r'requires? ', r'only works? ',
    r'Assertion pof2 == comm_size failed',   # reduce_scatter mpich_rdb/noncomm: 'FIXME this version only works for power of 2 procs'
    r'Assertion recvcounts\[i\] == recvcounts\[i\+1\] failed',   # reduce_scatter mpich_noncomm needs equal counts
]
_REFUSAL = re.compile('|'.join(REFUSAL_PATTERNS))


def classify_abort(rc, err, timed_out):
    """-> ('refused'|'hang'|'crash', short message) for a run that did not complete"""
    if timed_out:
        return 'hang', 'wall-clock kill budget exhausted'
    lines = [l for l in err.splitlines() if l.strip()]
    if 'Deadlock detected' in err or 'deadlock' in err.lower():
        msg = [l for l in lines if 'eadlock' in l]
        return 'hang', (msg[0] if msg else 'deadlock')[:300]
    crit = [l for l in lines if 'CRITICAL' in l or 'Assertion' in l or 'exception' in l.lower() or 'rror' in l]
    text = ' | '.join(crit[:3])[:500] if crit else ' | '.join(lines[-3:])[:500]
    m = _MPI_ERR.search(err)
    if m and rc != 0:
        return 'refused', 'explicit MPI error: %s returned %s' % (m.group(1), m.group(2))
    m = _REFUSAL.search(err)
    if m and rc != 0:
        l = [x for x in lines if _REFUSAL.search(x)]
        return 'refused', l[0][:300]
    return 'crash', 'rc=%s %s' % (rc, text)


def np_class(np):
    if np == 1:
        return 'np1'
    return 'pow2' if np & (np - 1) == 0 else 'nonpow2'


def count_class(count, np):
    if count == 0:
        return 'zero'
    if count < np:
        return 'lt_np'
    return 'ge_np'


# ---------------------------------------------------------------------------------------------------------
VC_OF_OP = {'none': VC_MOVE, 'sum': VC_SUM, 'prod': VC_PROD, 'max': VC_MINMAX, 'min': VC_MINMAX, 'bxor': VC_BITS,
            'bor': VC_BITS, 'band': VC_BAND, 'maxloc': VC_LOC, 'minloc': VC_LOC, 'user': VC_USER}


def coll_plan_text(plan):
    np = plan['np']
    out = ['mode coll', 'np %d' % np, 'ncalls %d' % len(plan['calls'])]
    for i, c in enumerate(plan['calls']):
        out.append('call %d %s %d %d %d %s %d %s %s %d %d %d %d %d %d' % (
            i, c['kind'], c['nb'], c['root'], c['scount'], c['sdt'], c['rcount'], c['rdt'], c['op'], c['inplace'],
            c['vc'], c['seed'], c['period'], c.get('defer', 0), c.get('usetest', 0)))
        out.append('arr skew %d %s' % (np, ' '.join(str(x) for x in c['skew'])))
        if c['nb']:
            out.append('arr wskew %d %s' % (np, ' '.join(str(x) for x in c['wskew'])))
        for name in ('scounts', 'sdispls', 'rcounts', 'rdispls'):
            if name in c:
                out.append('arr %s %d %s' % (name, len(c[name]), ' '.join(str(x) for x in c[name])))
        for name in ('stypes', 'rtypes'):
            if name in c:
                out.append('arr %s %d %s' % (name, len(c[name]), ' '.join(str(DT_CODE[x]) for x in c[name])))
    return '\n'.join(out) + '\n'


# ---------------------------------------------------------------------------------------------------------
def rma_plan_text(plan):
    np = plan['np']
    out = ['mode rma', 'np %d' % np, 'wsize %d' % plan['wsize'], 'nphases %d' % len(plan['phases']),
           'winalloc %d' % plan.get('winalloc', 0)]
    for p, ph in enumerate(plan['phases']):
        out.append('phase %d %s' % (p, ph['kind']))
        if ph['kind'] == 'fence':
            out.append('fassert %d' % ph.get('fassert', 0))
        if ph.get('init'):
            out.append('init %d %d' % (p, ph['init']))
        if ph['kind'] == 'pscw':
            out.append('arr group %d %s' % (np * np, ' '.join(str(x) for x in ph['group'])))
        for rk in range(np):
            ops = ph['ops'][rk]
            out.append('nops %d %d' % (rk, len(ops)))
            for o in ops:
                w = o['what']
                head = 'op %d %d %s' % (o['id'], o.get('think', 0), w)
                if w == 'lock':
                    head += ' %d %d' % (o['target'], o['excl'])
                elif w in ('unlock', 'flush', 'flushl'):
                    head += ' %d' % o['target']
                elif w == 'put':
                    head += ' %d %d %d %d' % (o['target'], o['disp'], o['count'], o['seed'])
                elif w == 'get':
                    head += ' %d %d %d' % (o['target'], o['disp'], o['count'])
                elif w in ('acc', 'gacc'):
                    head += ' %d %d %d %s %d' % (o['target'], o['disp'], o['count'], o['op'], o['seed'])
                elif w == 'fop':
                    head += ' %d %d %s %d' % (o['target'], o['disp'], o['op'], o['seed'])
                elif w == 'cas':
                    head += ' %d %d %d %d' % (o['target'], o['disp'], o['cmp'], o['newv'])
                out.append(head)
    return '\n'.join(out) + '\n'


RMA_VC = {'sum': VC_SUM, 'prod': VC_PROD, 'max': VC_MINMAX, 'min': VC_MINMAX, 'band': VC_BAND, 'bxor': VC_BITS,
          'bor': VC_BITS, 'replace': VC_MOVE, 'noop': VC_MOVE}


def rma_origin_values(op, rank):
    """the origin buffer the harness builds for a put / accumulate-type op"""
    if op['what'] == 'put':
        vc = VC_MOVE
    else:
        vc = RMA_VC[op['op']]
    return [value_of(vc, op['seed'], rank, k, 1 << 20) for k in range(op['count'])]


def rma_init_values(seed, rank, W):
    return [value_of(VC_SUM, seed, rank, i, 1 << 20) + 10 for i in range(W)]


# ---------------------------------------------------------------------------------------------------------
def install_proposed_findings():
    """Development aid: when VERIF_KNOWN_EXTRA names JSON files (':' separated) with the known_findings.json layout, their
    entries are added to what dst.load_known() returns.  Lets a check be exercised against findings that are proposed
    (known_findings.<ID>.proposed.json) but not merged yet into the shared file.  No effect when the variable is unset."""
    extra = os.environ.get('VERIF_KNOWN_EXTRA')
    if not extra or getattr(dst, '_mpicoll_extra_installed', False):
        return
    import json
    orig = dst.load_known

    def load_known(pid):
        out = list(orig(pid))
        for path in extra.split(':'):
            if os.path.exists(path):
                out += [k for k in json.load(open(path)).get('findings', []) if k.get('property') == pid]
        return out
    dst.load_known = load_known
    dst._mpicoll_extra_installed = True
