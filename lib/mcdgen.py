"""Generator of programs in the model checker's computational model (engine D, C38 C40 C41): up to 4 actors (plus
actors created at run time), up to 8 operations each, over mutexes, semaphores, condition variables, barriers,
mailboxes (blocking, async + wait/test/wait_any/test_any, iprobe), actor create/join/sleep/exit and MC_random, with
assertions over the result of the previous operation (`assert_last KEY VALUE`, a local property of the asserting
actor). Every random choice comes from the Rng given: a plan is a pure function of the seed.

Deadlocks are not planted by hand: they come from the usual sources (lock-order inversion, missing notification,
semaphore short of tokens, unmatched receive, barrier short of participants) with seeded probabilities.

The size of a program is bounded through mcd.interleavings_bound (multinomial of the transitions per actor)."""
import copy

import gen
import mcd

FAMILIES = ('mutex', 'sem', 'cv', 'barrier', 'mbox', 'actor', 'random')
UDPOR_OPS = ('lock', 'unlock', 'acquire', 'release', 'put', 'get', 'put_async', 'get_async', 'wait', 'test', 'create',
             'join', 'sleep', 'exit', 'assert_last')


def udpor_subset(plan):
    """udpor has extension computations for communications, mutex lock/unlock/wait, semaphores and actor transitions"""
    return all(op[0] in UDPOR_OPS for a in plan['actors'] for op in a['ops'])


class _B:
    """builder of one program"""

    def __init__(self, r, fams, nact):
        self.r = r
        self.fams = fams
        self.nact = nact
        self.nslot = 0
        self.objects = {}
        self.templates = []

    def slot(self):
        self.nslot += 1
        return 'x%d' % self.nslot

    def objects_for(self):
        r = self.r
        o = {}
        if 'mutex' in self.fams or 'cv' in self.fams:
            nm = 1 if r.chance(0.6) else 2
            o['mutex'] = [['m%d' % i, 1 if r.chance(0.12) else 0] for i in range(nm)]
        if 'sem' in self.fams:
            o['sem'] = [['s0', r.choice([0, 1, 1, 2])]]
        if 'cv' in self.fams:
            o['cv'] = ['c0']
        if 'barrier' in self.fams:
            o['bar'] = [['b0', max(2, self.nact - (1 if r.chance(0.3) else 0) + (1 if r.chance(0.1) else 0))]]
        if 'mbox' in self.fams:
            o['mbox'] = ['mb%d' % i for i in range(1 if r.chance(0.65) else 2)]
        self.objects = o
        return o

    def inner(self, ai, held):
        """one observable operation executed inside a critical section: the order of the critical sections then shows
        in the outcome"""
        r = self.r
        o = self.objects
        cand = []
        if 'mbox' in o:
            cand += [['put', r.choice(o['mbox']), 1.0], ['iprobe', r.choice(o['mbox']), r.choice(['send', 'recv'])]]
        others = [m[0] for m in o.get('mutex', []) if m[0] != held]
        if others:
            cand.append(['trylock', r.choice(others)])
        if 'sem' in o:
            cand.append(['acquire_timeout', 's0', 1.0])
        if 'cv' in o:
            cand.append(['notify_one', 'c0'])
        if not cand or r.chance(0.2):
            cand.append(['mc_random', 0, 1])
        op = r.choice(cand)
        if op[0] == 'trylock':
            return [op, ['unlock', op[1]]]
        return [op]

    # ---- blocks: lists of ops; assertion candidates are marked afterwards
    def block(self, fam, ai):
        r = self.r
        o = self.objects
        ops = []
        if fam == 'mutex':
            ms = [m[0] for m in o['mutex']]
            c = r.below(10)
            if c < 3:
                m = r.choice(ms)
                ops += [['lock', m]] + self.inner(ai, m) + [['unlock', m]]
            elif c < 5 and len(ms) > 1:
                a, b = (ms[0], ms[1]) if r.chance(0.6) else (ms[1], ms[0])
                ops += [['lock', a], ['lock', b], ['unlock', b], ['unlock', a]]
            elif c < 8:
                m = r.choice(ms)
                ops += [['trylock', m]] + (self.inner(ai, m) if r.chance(0.3) else []) + [['unlock', m]]
            else:
                m = r.choice(ms)
                ops += [['lock', m], ['unlock', m]]
        elif fam == 'sem':
            c = r.below(10)
            if c < 4:
                ops += [['acquire', 's0'], ['release', 's0']]
            elif c < 6:
                ops += [['release', 's0']]
            elif c < 8:
                ops += [['acquire', 's0']]
            else:
                ops += [['acquire_timeout', 's0', 1.0]]
        elif fam == 'cv':
            m = o['mutex'][0][0]
            if r.chance(0.5):
                ops += [['lock', m], ['cvwait', 'c0', m] if r.chance(0.3) else ['cvwait_for', 'c0', m, 1.0], ['unlock', m]]
            else:
                n = ['notify_one', 'c0'] if r.chance(0.6) else ['notify_all', 'c0']
                ops += ([['lock', m], n, ['unlock', m]] if r.chance(0.5) else [n])
        elif fam == 'barrier':
            ops += [['barrier', 'b0']]
        elif fam == 'mbox':
            mb = r.choice(o['mbox'])
            c = r.below(20)
            if c < 5:
                ops += [['put', mb, 1.0]]
            elif c < 10:
                ops += [['get', mb]]
            elif c < 12:
                s = self.slot()
                ops += [['put_async', s, mb, 1.0], ['wait', s]]
            elif c < 14:
                s = self.slot()
                ops += [['get_async', s, mb], ['test', s], ['wait', s]]
            elif c < 16:
                s1, s2 = self.slot(), self.slot()
                mb2 = r.choice(o['mbox'])
                # both receives are waited for in the end: what happens to a pending asynchronous communication when its
                # actor terminates differs between the checker's mode and a native run (proposed finding), keep away
                ops += [['get_async', s1, mb], ['get_async', s2, mb2], ['wait_any', s1, s2], ['wait', s1], ['wait', s2]]
            elif c < 17:
                s1 = self.slot()
                ops += [['get_async', s1, mb], ['test_any', s1], ['wait', s1]]
            else:
                ops += [['iprobe', mb, r.choice(['send', 'recv'])]]
        elif fam == 'actor':
            c = r.below(10)
            if c < 4 and len(self.templates) < 1:
                t = 't%d' % len(self.templates)
                self.templates.append(t)
                ops += [['create', t]]
                if r.chance(0.5):
                    ops += [['join', t]]
            elif c < 7 and self.nact > 1:
                tgt = r.choice([i for i in range(self.nact) if i != ai])
                ops += [['join', 'a%d' % tgt]]
            elif c < 9:
                ops += [['sleep', 1.0]]
            else:
                ops += [['exit']]
        elif fam == 'random':
            ops += [['mc_random', 0, r.randint(1, 2)]]
        return ops


def _balance(plan, r, nact):
    """most programs should be able to terminate: make the resources match the demand (seeded exceptions keep the
    classical deadlocks: short barrier, semaphore short of tokens, unmatched receive or send)"""
    o = plan['objects']
    acts = [a for a in plan['actors']]
    if 'bar' in o:
        per = [sum(1 for op in a['ops'] if op[0] == 'barrier') for a in acts]
        users = [n for n in per if n]
        if users and r.chance(0.8):
            # same number of rounds for every participant, count = number of participants
            rounds = min(users)
            for a in acts:
                seen = 0
                new = []
                for op in a['ops']:
                    if op[0] == 'barrier':
                        seen += 1
                        if seen > rounds:
                            continue
                    new.append(op)
                a['ops'] = new
            o['bar'][0][1] = max(1, len(users))
    if 'sem' in o and r.chance(0.8):
        need = 0
        for a in acts:
            held = 0
            for op in a['ops']:
                if op[0] == 'acquire':
                    held += 1
                elif op[0] == 'release':
                    held -= 1
            need += max(0, held)
        o['sem'][0][1] = max(o['sem'][0][1], need)
    if 'mbox' in o and r.chance(0.75):
        for mb in o['mbox']:
            nput = sum(1 for a in acts for op in a['ops'] if (op[0] == 'put' and op[1] == mb) or
                       (op[0] == 'put_async' and op[2] == mb))
            nget = sum(1 for a in acts for op in a['ops'] if (op[0] == 'get' and op[1] == mb) or
                       (op[0] == 'get_async' and op[2] == mb))
            guard = 0
            while nput != nget and guard < 4:
                guard += 1
                a = r.choice(acts)
                if len(a['ops']) >= 8:
                    continue
                if nput < nget:
                    a['ops'].append(['put', mb, 1.0])
                    nput += 1
                else:
                    a['ops'].append(['get', mb])
                    nget += 1
    return plan


ASSERTABLE = {'trylock': ('ok', ['1', '0']), 'acquire_timeout': ('timeout', ['0', '1']),
              'cvwait_for': ('timeout', ['0', '1']), 'test': ('done', ['1', '0']), 'iprobe': ('found', ['0', '1']),
              'mc_random': ('value', ['0', '1']), 'test_any': ('got', None), 'wait_any': ('got', None),
              'get': ('payload', None)}


def _insert_assertions(plan, r, p_assert):
    """second pass: assert_last after some result-bearing ops; payload expectations name the put of one sender"""
    puts = {}
    for a in plan['actors']:
        for op in a['ops']:
            if op[0] in ('put', 'put_async'):
                mb = op[1] if op[0] == 'put' else op[2]
                puts.setdefault(mb, []).append((a['id'], op))
    marks = []
    for a in plan['actors']:
        new = []
        for op in a['ops']:
            new.append(op)
            if op[0] in ASSERTABLE and r.chance(p_assert):
                key, vals = ASSERTABLE[op[0]]
                if op[0] == 'get':
                    cand = puts.get(op[1], [])
                    if not cand:
                        continue
                    who, pop = r.choice(cand)
                    m = ['assert_last', 'payload', None]
                    marks.append((m, who, pop))
                    new.append(m)
                elif vals is None:
                    slots = [x for x in op[1:] if isinstance(x, str) and '=' not in x]
                    new.append(['assert_last', key, r.choice(slots + (['-'] if op[0] == 'test_any' else []))])
                else:
                    new.append(['assert_last', key, vals[0] if r.chance(0.75) else vals[1]])
        a['ops'] = new[:8] if len(new) > 8 else new
    # resolve payload ids now that op indices are final: "<aid>.<inc>.<idx>"
    ids = {}
    for a in plan['actors']:
        for i, op in enumerate(a['ops']):
            ids[id(op)] = '%s.0.%d' % (a['id'], i)
    for m, who, pop in marks:
        m[2] = ids.get(id(pop), 'none')
    return plan


PATTERNS = {
    # name -> (families needed, number of roles)
    'send_race': ('mbox', 3), 'trylock_race': ('mutex', 2), 'lock_inversion': ('mutex', 2), 'sem_timeout': ('sem', 2),
    'sem_tokens': ('sem', 2), 'cv_notify': ('cv', 2), 'test_race': ('mbox', 2), 'iprobe_race': ('mbox', 2),
    'waitany_race': ('mbox', 3), 'join_chain': ('actor', 2), 'random_pair': ('random', 2), 'barrier_round': ('barrier', 2),
    'create_child': ('actor', 2)}


def _pattern_ops(name, b, r):
    """contention patterns: every role touches the same object, and at least one of them observes the order"""
    o = b.objects
    if name == 'send_race':
        mb = r.choice(o['mbox'])
        return [[['put', mb, 1.0]], [['put', mb, 1.0]], [['get', mb], ['get', mb]]]
    if name == 'trylock_race':
        m = r.choice(o['mutex'])[0]
        return [[['lock', m]] + (b.inner(0, m) if r.chance(0.4) else []) + [['unlock', m]], [['trylock', m], ['unlock', m]]]
    if name == 'lock_inversion':
        ms = [x[0] for x in o['mutex']]
        a, c = ms[0], ms[-1]
        first = [['lock', a], ['lock', c], ['unlock', c], ['unlock', a]]
        second = [['lock', c], ['lock', a], ['unlock', a], ['unlock', c]] if a != c and r.chance(0.7) else \
            [['lock', a], ['unlock', a]]
        return [first, second]
    if name == 'sem_timeout':
        return [[['acquire_timeout', 's0', 1.0]], [['release', 's0']]]
    if name == 'sem_tokens':
        return [[['acquire', 's0'], ['release', 's0']], [['acquire', 's0']] + ([['release', 's0']] if r.chance(0.7) else [])]
    if name == 'cv_notify':
        m = o['mutex'][0][0]
        w = ['cvwait_for', 'c0', m, 1.0] if r.chance(0.75) else ['cvwait', 'c0', m]
        n = ['notify_one', 'c0'] if r.chance(0.6) else ['notify_all', 'c0']
        return [[['lock', m], w, ['unlock', m]], ([['lock', m], n, ['unlock', m]] if r.chance(0.4) else [n])]
    if name == 'test_race':
        mb = r.choice(o['mbox'])
        s = b.slot()
        return [[['get_async', s, mb], ['test', s], ['wait', s]], [['put', mb, 1.0]]]
    if name == 'iprobe_race':
        mb = r.choice(o['mbox'])
        return [[['iprobe', mb, 'recv'], ['get', mb]], [['put', mb, 1.0]]]
    if name == 'waitany_race':
        mb, mb2 = o['mbox'][0], o['mbox'][-1]
        s1, s2 = b.slot(), b.slot()
        return [[['get_async', s1, mb], ['get_async', s2, mb2], ['wait_any', s1, s2], ['wait', s1], ['wait', s2]],
                [['put', mb, 1.0]], [['put', mb2, 1.0]]]
    if name == 'join_chain':
        return [[['join', '@1']], [['sleep', 1.0]] if r.chance(0.3) else []]
    if name == 'random_pair':
        return [[['mc_random', 0, 1]], [['mc_random', 0, r.randint(1, 2)]]]
    if name == 'barrier_round':
        return [[['barrier', 'b0']], [['barrier', 'b0']]]
    if name == 'create_child':
        if not b.templates:
            b.templates.append('t0')
        return [[['create', 't0']] + ([['join', 't0']] if r.chance(0.5) else []), []]
    return [[], []]


def _pattern_program(r, b, fams, nact):
    """1-3 contention patterns laid over the actors: an actor can play a role in several of them, in sequence"""
    names = [n for n in sorted(PATTERNS) if PATTERNS[n][0] in fams and PATTERNS[n][1] <= nact and
             (n != 'lock_inversion' or len(b.objects.get('mutex', [])) > 1 or True)]
    ops = [[] for _ in range(nact)]
    if not names:
        return None
    for _ in range(r.randint(1, 3)):
        n = r.choice(names)
        roles = _pattern_ops(n, b, r)
        who = r.sample(range(nact), len(roles))
        for ai, rops in zip(who, roles):
            for op in rops:
                op = [('a%d' % who[int(x[1:])] if isinstance(x, str) and x.startswith('@') else x) for x in op]
                ops[ai].append(op)
    return ops


def program(r, seed, max_bound, want_assert=None, families=None, min_bound=2, balance=True):
    """-> plan (without walks / mc configs). Rejection sampling on the size bound, deterministic in r."""
    best = None
    for attempt in range(40):
        nact = r.wchoice([(2, 4), (3, 5), (4, 1)])
        fams = families or r.sample(FAMILIES, r.randint(1, 3))
        b = _B(r, fams, nact)
        plan = gen.base_plan(seed, nhosts=1, rng=r, factory=r.choice(['raw', 'raw', 'boost']))
        plan['objects'] = b.objects_for()
        acts = []
        pops = _pattern_program(r, b, fams, nact) if r.chance(0.6) else None
        for ai in range(nact):
            ops = []
            if pops is not None:
                ops = pops[ai]
                if not ops or r.chance(0.2):
                    ops = ops + b.block(r.choice(fams), ai)
            else:
                for _ in range(r.randint(1, 3)):
                    ops += b.block(r.choice(fams), ai)
            acts.append(dict(id='a%d' % ai, host='h0', ops=ops[:8]))
        for t in b.templates:
            ops = []
            for _ in range(r.randint(1, 2)):
                f = r.choice([x for x in fams if x != 'actor'] or ['random'])
                ops += b.block(f, nact)
            acts.append(dict(id=t, host='h0', template=True, ops=ops[:4]))
        # a template is instantiated at most once: the harness resolves `join tX` / `kill tX` through a table keyed by the
        # template name, so a second instance would make the target depend on the order of the creations
        seen_tpl = set()
        for a in acts:
            kept = []
            dropped = set()
            for op in a['ops']:
                if op[0] == 'create':
                    if op[1] in seen_tpl:
                        dropped.add(op[1])
                        continue
                    seen_tpl.add(op[1])
                elif op[0] == 'join' and op[1] in dropped:
                    continue
                kept.append(op)
            a['ops'] = kept or [['sleep', 1.0]]
        plan['actors'] = acts
        plan['families'] = sorted(fams)
        if balance:
            _balance(plan, r, nact)
        wa = r.chance(0.4) if want_assert is None else want_assert
        if wa:
            _insert_assertions(plan, r, 0.6)
        plan['has_assert'] = any(op[0] == 'assert_last' for a in plan['actors'] for op in a['ops'])
        bound, ntr = mcd.interleavings_bound(plan)
        plan['bound'] = bound
        plan['ntransitions'] = ntr
        if best is None or abs(bound - max_bound) < abs(best['bound'] - max_bound):
            if bound <= max_bound:
                best = plan
        if min_bound <= bound <= max_bound and (want_assert is None or plan['has_assert'] == bool(want_assert)):
            return plan
    if best is not None:
        return best
    # fall back to a trivially small program
    plan = gen.base_plan(seed, nhosts=1, rng=r, factory='raw')
    plan['objects'] = dict(mutex=[['m0', 0]])
    plan['actors'] = [dict(id='a0', host='h0', ops=[['lock', 'm0'], ['unlock', 'm0']]),
                      dict(id='a1', host='h0', ops=[['trylock', 'm0'], ['unlock', 'm0']])]
    plan['families'] = ['mutex']
    plan['has_assert'] = False
    plan['bound'], plan['ntransitions'] = mcd.interleavings_bound(plan)
    return plan


WALK_STRATS = ['uniform', 'uniform', 'sticky', 'pct1', 'pct2', 'pct3', 'uniform', 'first']


def walk_specs(r, n):
    return [dict(walk=WALK_STRATS[i % len(WALK_STRATS)], walkseed=str(r.randint(1, 2 ** 31))) for i in range(n)]


def shrink(plan):
    """smaller candidates, cheapest evaluations first: fewer checker configurations, fewer walks, then a smaller
    program (fewer actors / ops)"""
    if len(plan.get('mc', [])) > 1:
        for i in range(len(plan['mc'])):
            p = copy.deepcopy(plan)
            p['mc'] = [plan['mc'][i]]
            yield p
        for i in range(len(plan['mc'])):
            p = copy.deepcopy(plan)
            del p['mc'][i]
            yield p
    if len(plan.get('walks', [])) > 4:
        p = copy.deepcopy(plan)
        p['walks'] = p['walks'][:len(p['walks']) // 2]
        yield p
    for p in gen.shrink_plan(plan):
        p['bound'], p['ntransitions'] = mcd.interleavings_bound(p)
        yield p
