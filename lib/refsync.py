"""Reference semantics of S4U synchronisation and message passing (FIFO mutex, semaphore, condition variable,
barrier, mailbox, message queue) with a *native* driver: it replays the event log of an engine-A run.

Linearisation used by the native driver: simcalls issued during a scheduling sub-round are handled by the kernel at
the end of that sub-round, in the order the actors ran (= order of the C records). Sub-round boundaries are the
'B' records (emitted from hook H2), time advances the 'time_advance' records. Observations made by an actor
during its slice (results in R records, obs_* ops) therefore reflect the state at the beginning of the sub-round.

Equal-date ties between a timeout and a grant: the property statements leave the outcome open, so the model
follows the observed outcome (look-ahead at the waiter's own R record) whenever both are legal, and checks the
consequences of whichever happened."""

EPS = 2e-9


def close(a, b):
    return abs(a - b) <= EPS + 1e-12 * max(abs(a), abs(b))


class Waiter:
    __slots__ = ('aid', 'key', 'deadline', 'granted', 'grant_clock', 'timedout', 'obj', 'kind', 'call_clock',
                 'phase', 'mutex', 'notified')

    def __init__(self, aid, key, kind, obj, call_clock, deadline=None):
        self.aid = aid
        self.key = key
        self.kind = kind
        self.obj = obj
        self.call_clock = call_clock
        self.deadline = deadline
        self.granted = False
        self.grant_clock = None
        self.timedout = False
        self.phase = 0
        self.mutex = None
        self.notified = False


class Model:
    def __init__(self, plan, recs, strict_ties=False):
        self.plan = plan
        self.viol = []
        self.now = 0.0
        o = plan.get('objects', {})
        self.mutex = {n: dict(rec=bool(r), owner=None, depth=0, q=[]) for n, r in o.get('mutex', [])}
        self.sem = {n: dict(value=c, q=[], init=c, releases=0, grants=0) for n, c in o.get('sem', [])}
        self.cv = {n: dict(q=[]) for n in o.get('cv', [])}
        self.bar = {n: dict(n=c, q=[]) for n, c in o.get('bar', [])}
        self.mbox = {n: dict(sends=[], recvs=[], receiver=None, done=[]) for n in o.get('mbox', [])}
        self.mq = {n: dict(sends=[], recvs=[]) for n in o.get('mq', [])}
        self.pending = {}      # aid -> Waiter (blocking op in progress)
        self.expect = {}       # key -> dict of expected results computed at handling time
        self.pairs = {}        # recv key -> payload id expected
        self.delivered = {}    # payload id -> count
        self.put_keys = {}     # payload id -> put request
        self.requests = {}     # key -> comm request (mailbox/mq)
        self.slot_req = {}     # slot name -> request key
        self.dead = set()
        self.opwait = {}
        self.stats = dict(contended_lock=0, recursive=0, sem_blocked=0, sem_timeout=0, cv_wait=0, cv_timeout=0,
                          cv_lost_notify=0, bar_groups=0, tie=0, mbox_recv_first=0, mbox_send_first=0, trylock_fail=0)
        # index of R records for look-ahead
        self.R = {}
        for r in recs:
            if r.t == 'R':
                self.R[(r.aid, r.inc, r.idx)] = r
        self.recs = recs
        # payload eventually observed on each receive slot (look-ahead for tie handling)
        self.slot_payload = {}
        cmap = {}
        self.subidx = {}     # seq -> index of the scheduling sub-round the record belongs to
        sub = 0
        for r in recs:
            if r.t == 'B':
                sub += 1
            self.subidx[r.seq] = sub
        self.cur_sub = 0
        for r in recs:
            if r.t == 'C':
                cmap[(r.aid, r.inc, r.idx)] = r
            elif r.t == 'R' and 'payload' in r.kv and not r.kv.get('exc'):
                c = cmap.get((r.aid, r.inc, r.idx))
                if c is not None and c.kind in ('wait', 'wait_for', 'wait_until', 'wait_for_or_cancel', 'test') and c.args:
                    self.slot_payload.setdefault(c.args[0], r.kv['payload'])
                elif c is not None and c.kind in ('wait_any', 'test_any') and r.kv.get('got', '-') != '-':
                    self.slot_payload.setdefault(r.kv['got'], r.kv['payload'])
        self.deadlock_snapshot = None
        self.now_mode = plan.get('opts', {}).get('mode', 'native')
        self.illformed = None

    def v(self, cls, msg):
        if len(self.viol) < 20:
            self.viol.append((cls, msg))

    # ----------------------------------------------------------------------------------------- look-ahead helpers
    def observed_timeout(self, w):
        r = self.R.get(w.key)
        if r is None:
            return None
        if w.kind in ('sem', 'cv'):
            return r.kv.get('timeout') == '1'
        return r.kv.get('exc') == 'Timeout'

    def expired_now(self, w):
        """True if w may legally be considered timed out at self.now and the run says it did time out"""
        if w.deadline is None or w.granted or w.timedout:
            return False
        if w.deadline > self.now + EPS:
            return False
        return self.observed_timeout(w) is True

    # ----------------------------------------------------------------------------------------- mutex
    def mutex_grant_next(self, name):
        m = self.mutex[name]
        while m['q']:
            w = m['q'].pop(0)
            if w.aid in self.dead:
                continue
            m['owner'] = w.aid
            m['depth'] = 1
            w.granted = True
            w.grant_clock = self.now
            return
        m['owner'] = None
        m['depth'] = 0

    def mutex_lock_async(self, name, w):
        m = self.mutex[name]
        if m['owner'] is None:
            m['owner'] = w.aid
            m['depth'] = 1
            w.granted = True
            w.grant_clock = self.now
        elif m['rec'] and m['owner'] == w.aid:
            m['depth'] += 1
            w.granted = True
            w.grant_clock = self.now
            self.stats['recursive'] += 1
        else:
            if m['owner'] == w.aid:
                # relocking a non-recursive mutex one holds: not defined by the property, plan is ill-formed
                self.illformed = 'actor %s locks non-recursive mutex %s that it already holds' % (w.aid, name)
            m['q'].append(w)
            self.stats['contended_lock'] += 1

    def mutex_unlock(self, name, aid, key):
        m = self.mutex[name]
        if m['owner'] != aid:
            self.expect[key] = dict(abort=True)
            return
        if m['rec']:
            m['depth'] -= 1
            if m['depth'] > 0:
                return
        self.mutex_grant_next(name)

    # ----------------------------------------------------------------------------------------- semaphore
    def sem_release(self, name):
        s = self.sem[name]
        s['releases'] += 1
        while s['q']:
            w = s['q'][0]
            if w.aid in self.dead:
                s['q'].pop(0)
                continue
            if self.expired_now(w):
                s['q'].pop(0)
                w.timedout = True
                self.stats['tie'] += 1
                continue
            s['q'].pop(0)
            w.granted = True
            w.grant_clock = self.now
            s['grants'] += 1
            return
        s['value'] += 1

    # ----------------------------------------------------------------------------------------- condvar
    def cv_signal(self, name):
        c = self.cv[name]
        while c['q']:
            w = c['q'][0]
            if w.aid in self.dead:
                c['q'].pop(0)
                continue
            if self.expired_now(w):
                c['q'].pop(0)
                self.cv_timeout(w)
                self.stats['tie'] += 1
                continue
            c['q'].pop(0)
            w.notified = True
            w.grant_clock = self.now  # date of the notification
            w.phase = 1
            if w.deadline is not None and self.now > w.deadline + EPS:
                self.v('cv_timeout_missed', 'wait on %s by %s called at %r with deadline %r was still waiting at %r (it '
                       'was then notified instead of having timed out)' % (name, w.aid, w.call_clock, w.deadline, self.now))
            self.mutex_lock_async(w.mutex, w)
            return True
        self.stats['cv_lost_notify'] += 1
        return False

    def cv_timeout(self, w):
        w.timedout = True
        w.phase = 1
        self.stats['cv_timeout'] += 1
        self.mutex_lock_async(w.mutex, w)

    # ----------------------------------------------------------------------------------------- driver
    def handle_call(self, r):
        """apply the kernel-side effect of the op whose C record is r (called at the end of its sub-round)"""
        k = r.kind
        a = r.args
        key = (r.aid, r.inc, r.idx)
        aid = r.aid
        if aid in self.dead:
            return
        R = self.R.get(key)
        if R is not None and R.kv.get('skip') == '1':
            return
        if k == 'lock':
            w = Waiter(aid, key, 'mutex', a[0], self.now)
            self.pending[aid] = w
            self.mutex_lock_async(a[0], w)
        elif k == 'trylock':
            m = self.mutex[a[0]]
            ok = m['owner'] is None or (m['rec'] and m['owner'] == aid)
            if ok:
                if m['owner'] == aid:
                    self.stats['recursive'] += 1
                m['owner'] = aid
                m['depth'] += 1
            else:
                self.stats['trylock_fail'] += 1
            self.expect[key] = dict(ok=ok, owner=m['owner'])
        elif k == 'unlock':
            self.mutex_unlock(a[0], aid, key)
            self.expect.setdefault(key, {})['owner_after'] = self.mutex[a[0]]['owner']
        elif k == 'acquire' or k == 'acquire_timeout':
            s = self.sem[a[0]]
            dl = None
            if k == 'acquire_timeout':
                t = float(a[1])
                dl = self.now + t if t >= 0 else None  # a negative timeout means "no timeout" (acquire() uses -1)
            w = Waiter(aid, key, 'sem', a[0], self.now, dl)
            self.pending[aid] = w
            if s['value'] > 0:
                s['value'] -= 1
                s['grants'] += 1
                w.granted = True
                w.grant_clock = self.now
            else:
                self.stats['sem_blocked'] += 1
                s['q'].append(w)  # a zero timeout fires at the next (zero-length) time advance, as any timer
        elif k == 'release':
            self.sem_release(a[0])
        elif k in ('cvwait', 'cvwait_for', 'cvwait_until'):
            m = self.mutex[a[1]]
            if m['owner'] != aid:
                self.expect[key] = dict(abort=True)
                return
            dl = None
            if k == 'cvwait_for':
                dl = self.now + max(float(a[2]), 0.0)
            elif k == 'cvwait_until':
                dl = max(float(a[2]), self.now)
            w = Waiter(aid, key, 'cv', a[0], self.now, dl)
            w.mutex = a[1]
            self.pending[aid] = w
            self.stats['cv_wait'] += 1
            # release the mutex (one level) and enqueue on the condition
            self.mutex_unlock(a[1], aid, key)
            self.cv[a[0]]['q'].append(w)
        elif k == 'notify_one':
            self.cv_signal(a[0])
        elif k == 'notify_all':
            n = len([w for w in self.cv[a[0]]['q'] if w.aid not in self.dead])
            for _ in range(n + 2):
                if not self.cv[a[0]]['q']:
                    break
                self.cv_signal(a[0])
        elif k == 'barrier':
            b = self.bar[a[0]]
            w = Waiter(aid, key, 'bar', a[0], self.now)
            self.pending[aid] = w
            if len(b['q']) < b['n'] - 1:
                b['q'].append(w)
            else:
                for x in b['q']:
                    x.granted = True
                    x.grant_clock = self.now
                    x.phase = 0
                b['q'] = []
                w.granted = True
                w.grant_clock = self.now
                w.phase = 1  # the last one
                self.stats['bar_groups'] += 1
        elif k in ('put', 'put_async', 'put_init', 'put_detach', 'mput', 'mput_async',
                   'get', 'get_async', 'get_init', 'mget', 'mget_async'):
            self.comm_request(k, a, key)
        elif k in ('start', 'wait', 'wait_for', 'wait_until', 'wait_for_or_cancel', 'test'):
            if a and a[0] in self.slot_req:
                req = self.requests[self.slot_req[a[0]]]
                if not req['posted']:
                    self.comm_post(req)
                if k == 'wait':
                    self.opwait[aid] = dict(key=key, slots=[a[0]], any=False)
        elif k in ('wait_any', 'wait_all', 'test_any'):
            if k != 'test_any' and not any(x.startswith('timeout=') for x in a):
                self.opwait[aid] = dict(key=key, slots=[x for x in a if '=' not in x], any=(k == 'wait_any'))
            for x in a:
                if x in self.slot_req and not self.requests[self.slot_req[x]]['posted']:
                    self.comm_post(self.requests[self.slot_req[x]])
        elif k == 'cancel':
            if a and a[0] in self.slot_req:
                req = self.requests[self.slot_req[a[0]]]
                if req['posted'] and req['peer'] is None:
                    self.comm_withdraw(req)
                req['cancelled'] = True
        elif k == 'set_receiver':
            if a[0] in self.mbox:
                self.mbox[a[0]]['receiver'] = None if a[1] == '-' else a[1]
                self.stats['set_receiver'] = self.stats.get('set_receiver', 0) + 1

    # ----------------------------------------------------------------------------------------- mailbox / mq
    def comm_request(self, k, a, key):
        mq = k.startswith('m')
        side = 's' if 'put' in k else 'r'
        slot = a[0] if k.endswith(('_async', '_init')) else None
        box = a[1] if slot else a[0]
        to = None
        tag = want = None
        for x in a:
            if x.startswith('timeout='):
                to = float(x[8:])
            elif x.startswith('tag='):
                tag = int(x[4:])
            elif x.startswith('want='):
                want = int(x[5:])
        req = dict(tag=tag, want=want, key=key, side=side, mq=mq, box=box, blocking=slot is None and k != 'put_detach', slot=slot,
                   deadline=(self.now + to) if to is not None and to >= 0 else None, peer=None, posted=False,
                   gone=False, cancelled=False, payload=('%s.%d.%d' % key) if side == 's' else None,
                   expect_payload=None, detached=(k == 'put_detach'), post_clock=None)
        self.requests[key] = req
        if side == 's':
            self.put_keys[req['payload']] = req
        if slot:
            self.slot_req[slot] = key
        if not k.endswith('_init'):
            self.comm_post(req)

    def comm_withdraw(self, req):
        req['gone'] = True
        mb = (self.mq if req['mq'] else self.mbox)[req['box']]
        q = mb['sends' if req['side'] == 's' else 'recvs']
        if req in q:
            q.remove(req)

    def req_failed_observed(self, req):
        """did the operation owning this request end with an exception (or never end)?"""
        if req['blocking']:
            r = self.R.get(req['key'])
            return r is None or bool(r.kv.get('exc'))
        return False

    def req_timedout_observed(self, req):
        if not req['blocking']:
            return False
        r = self.R.get(req['key'])
        return r is not None and r.kv.get('exc') == 'Timeout'

    def comm_post(self, req):
        req['posted'] = True
        req['post_clock'] = self.now
        mb = (self.mq if req['mq'] else self.mbox)[req['box']]
        mine, other = ('sends', 'recvs') if req['side'] == 's' else ('recvs', 'sends')
        q = mb[other]
        if req.get('tag') is not None or req.get('want') is not None or \
                any((o.get('tag') is not None or o.get('want') is not None) and not o['gone'] for o in q):
            # match data / match filters in play: the oldest queued request of the other kind that both filters accept
            def accepts(x, y):
                return x.get('want') is None or (y.get('tag') is not None and y['tag'] == x['want'])
            for o in list(q):
                if o['gone']:
                    q.remove(o)
                    continue
                if accepts(req, o) and accepts(o, req):
                    q.remove(o)
                    snd, rcv = (req, o) if req['side'] == 's' else (o, req)
                    snd['peer'] = rcv['key']
                    rcv['peer'] = snd['key']
                    rcv['expect_payload'] = snd['payload']
                    self.stats['mbox_filtered_match'] = self.stats.get('mbox_filtered_match', 0) + 1
                    return
            self.stats['mbox_filter_rejections'] = self.stats.get('mbox_filter_rejections', 0) + \
                sum(1 for o in q if not o['gone'])
            mb[mine].append(req)
            return
        while q:
            o = q[0]
            if o['gone']:
                q.pop(0)
                continue
            # (a timed-out eager send to a permanent receiver keeps its place: the next get takes it and fails)
            if o['deadline'] is not None and self.req_timedout_observed(o) and not o.get('eager'):
                if o['deadline'] < self.now - EPS:
                    o['gone'] = True       # withdrawn at its deadline
                    q.pop(0)
                    continue
                rs = self.R.get(o['key'])
                if o['deadline'] <= self.now + EPS and rs is not None and self.cur_sub >= self.subidx.get(rs.seq, 0):
                    o['gone'] = True       # its cancellation was handled in an earlier sub-round of this date
                    q.pop(0)
                    continue
                if o['deadline'] <= self.now + EPS:
                    # tie: o timed out at this very date; whether its cancellation is handled before or after our
                    # request is a matter of run order (timeout and cancel are two steps). Follow the run.
                    self.stats['tie'] += 1
                    if req['side'] == 'r':
                        r_ = self.R.get(req['key'])
                        got = None
                        if req['blocking'] and r_ is not None and not r_.kv.get('exc'):
                            got = r_.kv.get('payload')
                        elif not req['blocking']:
                            got = self.slot_payload.get(req['slot'])
                        if got == o['payload']:
                            o['tie_consumed'] = True   # the dying put was still taken: legal at a tie
                        else:
                            o['gone'] = True
                            q.pop(0)
                            if self.req_failed_observed(req):
                                req['gone'] = True
                                return
                            continue
                    else:
                        # a put meeting a get that is timing out right now: it may or may not be swallowed by it
                        mb['uncertain'] = True
                        o['gone'] = True
                        q.pop(0)
                        if self.req_failed_observed(req):
                            req['gone'] = True
                            return
                        continue
            q.pop(0)
            snd, rcv = (req, o) if req['side'] == 's' else (o, req)
            snd['peer'] = rcv['key']
            rcv['peer'] = snd['key']
            rcv['expect_payload'] = snd['payload']
            self.stats['mbox_recv_first' if req['side'] == 's' else 'mbox_send_first'] += 1
            return
        if req['side'] == 's' and mb.get('receiver'):
            req['eager'] = True   # sent at once towards the permanent receiver; stays in its list even if cancelled
        mb[mine].append(req)

    def handle_return(self, r):
        k = r.kind
        key = (r.aid, r.inc, r.idx)
        aid = r.aid
        if r.kv.get('skip') == '1':
            return
        cr = self.callrec.get(key)
        a = cr.args if cr is not None else []
        w = self.pending.get(aid)
        if w is not None and w.key != key:
            w = None
        if k == 'lock':
            if w is None or not w.granted:
                owner = self.mutex[a[0]]['owner'] if a and a[0] in self.mutex else '?'
                self.v('mutex_order', 'lock of %s by %s returned at seq %d but the FIFO model has owner=%s (queue %s)' %
                       (a[0], aid, r.seq, owner, [x.aid for x in self.mutex[a[0]]['q']]))
            if r.kv.get('owner') != aid:
                self.v('mutex_excl', 'lock of %s by %s returned but get_owner() is %s (seq %d)' %
                       (a[0], aid, r.kv.get('owner'), r.seq))
            self.pending.pop(aid, None)
        elif k == 'trylock':
            e = self.expect.get(key)
            if e is not None:
                if (r.kv.get('ok') == '1') != e['ok']:
                    self.v('trylock_result', 'try_lock(%s) by %s returned %s, model says %s (seq %d)' %
                           (a[0], aid, r.kv.get('ok'), int(e['ok']), r.seq))
            if cr is not None and cr.clock != r.clock:
                self.v('trylock_blocked', 'try_lock by %s took simulated time (%r -> %r)' % (aid, cr.clock, r.clock))
        elif k == 'unlock':
            pass
        elif k == 'obs_owner':
            exp = self.mutex[a[0]]['owner'] or '-'
            if r.kv.get('owner') != exp:
                self.v('mutex_owner', 'get_owner(%s) seen by %s is %s, model says %s (seq %d)' %
                       (a[0], aid, r.kv.get('owner'), exp, r.seq))
        elif k == 'obs_cap':
            s_ = self.sem[a[0]]
            if int(r.kv.get('cap', -1)) != s_['value']:
                self.v('sem_capacity', 'get_capacity(%s) seen by %s is %s, model says %d (seq %d)' %
                       (a[0], aid, r.kv.get('cap'), s_['value'], r.seq))
        elif k == 'release':
            s_ = self.sem[a[0]]
            if int(r.kv.get('cap', -1)) != s_['value']:
                self.v('sem_capacity', 'get_capacity(%s) after release by %s is %s, model says %d (seq %d)' %
                       (a[0], aid, r.kv.get('cap'), s_['value'], r.seq))
        elif k in ('acquire', 'acquire_timeout'):
            to = r.kv.get('timeout') == '1'
            if w is None:
                return
            s_ = self.sem[a[0]]
            if int(r.kv.get('cap', -1)) != s_['value']:
                self.v('sem_capacity', 'get_capacity(%s) after acquire by %s is %s, model says %d (seq %d)' %
                       (a[0], aid, r.kv.get('cap'), s_['value'], r.seq))
            if to:
                self.stats['sem_timeout'] += 1
                if w.granted:
                    self.v('sem_timeout_spurious', 'acquire_timeout(%s) by %s reported a timeout at %r although the model '
                           'granted it a token at %r' % (w.obj, aid, r.clock, w.grant_clock))
                elif w.deadline is None:
                    self.v('sem_timeout_spurious', 'acquire without timeout reported a timeout')
                elif not close(r.clock, w.deadline):
                    self.v('sem_timeout_date', 'acquire_timeout by %s timed out at %r, deadline was %r' %
                           (aid, r.clock, w.deadline))
                if not w.timedout and not w.granted:
                    # not yet removed by the model (no event at the deadline): remove now
                    q = self.sem[w.obj]['q']
                    if w in q:
                        q.remove(w)
                    w.timedout = True
            else:
                if not w.granted:
                    self.v('sem_order', 'acquire(%s) by %s returned at seq %d but the FIFO model has not granted it '
                           '(value %d, queue %s)' % (w.obj, aid, r.seq, self.sem[w.obj]['value'],
                                                     [x.aid for x in self.sem[w.obj]['q']]))
                elif w.deadline is not None and w.grant_clock > w.deadline + EPS:
                    self.v('sem_timeout_missed', 'acquire_timeout(%s,%r) by %s called at %r returned a token at %r, '
                           'after its deadline %r' % (w.obj, w.deadline - w.call_clock, aid, w.call_clock,
                                                      w.grant_clock, w.deadline))
            self.pending.pop(aid, None)
        elif k in ('cvwait', 'cvwait_for', 'cvwait_until'):
            if w is None:
                return
            to = r.kv.get('timeout') == '1'
            if not w.granted or w.phase != 1:
                self.v('cv_return', '%s by %s returned at seq %d but in the model it is %s' %
                       (k, aid, r.seq, 'still waiting for a notification' if w.phase == 0 else 'waiting for its mutex'))
            if r.kv.get('owner') != aid:
                self.v('cv_mutex', '%s by %s returned without owning its mutex (owner=%s)' % (k, aid, r.kv.get('owner')))
            if to and w.notified:
                self.v('cv_timeout_spurious', '%s by %s reported timeout but it was notified at or before its deadline'
                       % (k, aid))
            if (not to) and w.timedout:
                self.v('cv_timeout_missed', '%s by %s reported no timeout but was not notified by %r' % (k, aid, w.deadline))
            if (not to) and w.deadline is not None and not w.notified:
                self.v('cv_timeout_missed', '%s by %s returned no_timeout without notification' % (k, aid))
            self.pending.pop(aid, None)
        elif k == 'barrier':
            if w is None:
                return
            if not w.granted:
                self.v('barrier_early', 'barrier %s: wait by %s returned at seq %d before its group was complete '
                       '(%d of %d waiting)' % (w.obj, aid, r.seq, len(self.bar[w.obj]['q']), self.bar[w.obj]['n']))
            elif (r.kv.get('ret') == '1') != (w.phase == 1) and self.now_mode != 'walk':
                self.v('barrier_ret', 'barrier %s: return value of %s is %s, model says %d' %
                       (w.obj, aid, r.kv.get('ret'), w.phase))
            self.pending.pop(aid, None)
        elif k in ('get', 'mget'):
            self.check_delivery(key, r)
        elif k in ('wait', 'wait_for', 'wait_until', 'wait_for_or_cancel', 'test'):
            if a and a[0] in self.slot_req and r.kv.get('state') == 'FINISHED' and not r.kv.get('exc'):
                self.requests[self.slot_req[a[0]]]['completed'] = True
            if a and a[0] in self.slot_req and 'payload' in r.kv:
                self.check_delivery(self.slot_req[a[0]], r)
        elif k in ('wait_any', 'test_any'):
            g = r.kv.get('got')
            if g and g != '-' and g in self.slot_req and 'payload' in r.kv:
                self.check_delivery(self.slot_req[g], r)

    def check_delivery(self, reqkey, r):
        req = self.requests.get(reqkey)
        if req is None or req['side'] != 'r':
            return
        if r.kv.get('exc'):
            return
        p = r.kv.get('payload')
        if p is None:
            return
        if p == 'null' and r.kind in ('test', 'test_any'):
            req['null_by_test'] = True
            return  # test() answers true on a failed/cancelled comm without raising: not a successful get
        if p == 'null' and req.get('null_by_test'):
            return  # ... and a later wait on that activity, already marked finished by test(), returns at once
        if p in ('null', 'corrupt'):
            self.v('payload_corrupt', 'receive %s got payload %s (seq %d)' % (reqkey, p, r.seq))
            return
        if req.get('seen_payload') is not None:
            if req['seen_payload'] != p:
                self.v('payload_changed', 'receive %s first showed payload %s, later %s' % (reqkey, req['seen_payload'], p))
            return  # a second wait/test on the same completed receive is not a second delivery
        req['seen_payload'] = p
        self.delivered[p] = self.delivered.get(p, 0) + 1
        if self.delivered[p] > 1:
            self.v('dup', 'payload %s delivered %d times (seq %d)' % (p, self.delivered[p], r.seq))
        if p not in self.put_keys:
            self.v('invented', 'payload %s was never put (seq %d)' % (p, r.seq))
            return
        preq = self.put_keys[p]
        pr = self.R.get(preq['key'])
        if preq['blocking'] and pr is not None and pr.kv.get('exc') and pr.seq < r.seq and \
                not preq.get('tie_consumed') and req['post_clock'] is not None and pr.clock < req['post_clock'] - EPS:
            self.v('ghost', 'receive %s got payload %s whose put had already reported %s to its sender (seq %d)' %
                   ('%s.%d.%d' % reqkey, p, pr.kv.get('exc'), r.seq))
            return
        if 'size' in r.kv and preq['key'] in self.callrec:
            pa = self.callrec[preq['key']].args
            want = float(pa[2] if preq['slot'] else pa[1])
            if float.fromhex(r.kv['size']) != want:
                self.v('payload_size', 'payload %s arrived with size %s, sent with %r' % (p, r.kv['size'], want))
        box = (self.mq if req['mq'] else self.mbox)[req['box']]
        if req.get('expect_payload') != p and not box.get('uncertain'):
            self.v('order', 'receive %s on %s got payload %s, FIFO matching gives %s (seq %d)' %
                   ('%s.%d.%d' % reqkey, req['box'], p, req.get('expect_payload'), r.seq))

    def expiries(self):
        """timers that reached their date fire before the next actor slice"""
        for name, s in self.sem.items():
            for w in list(s['q']):
                if self.expired_now(w):
                    s['q'].remove(w)
                    w.timedout = True
        exp = []
        for name, c in self.cv.items():
            for w in list(c['q']):
                if self.expired_now(w):
                    c['q'].remove(w)
                    exp.append(w)
        # several waiters timing out at the same date: the order in which they go back to the mutex queue is not
        # specified; follow the observed return order (they re-acquire through the FIFO, so it is that order)
        exp.sort(key=lambda w: self.R[w.key].seq if w.key in self.R else 1 << 60)
        for w in exp:
            self.cv_timeout(w)
        for table in (self.mbox, self.mq):
            for name, mb in table.items():
                for side in ('sends', 'recvs'):
                    for req in list(mb[side]):
                        if req['deadline'] is not None and req['deadline'] < self.now - EPS and \
                                self.req_timedout_observed(req) and not req.get('eager'):
                            req['gone'] = True
                            mb[side].remove(req)

    def run(self):
        self.callrec = {}
        pendingC = []

        def flush():
            for c in pendingC:
                self.cur_sub = self.subidx.get(c.seq, 0)
                self.handle_call(c)
            del pendingC[:]

        for r in self.recs:
            if r.t == 'B' or (r.t == 'S' and r.kind in ('time_advance', 'deadlock', 'end')):
                flush()  # simcalls of the finished sub-round are handled at the date they were issued
            if r.clock is not None and r.t in ('C', 'R', 'S', 'B'):
                self.now = r.clock
            if r.t == 'B':
                flush()
            elif r.t == 'S':
                if r.kind == 'time_advance':
                    flush()
                    self.expiries()
                elif r.kind == 'actor_end':
                    self.actor_requests_cancel(r.aid)  # a terminating actor cancels its pending activities at once
                elif r.kind == 'actor_term':
                    self.actor_dead(r.aid)
                elif r.kind == 'deadlock':
                    flush()
                    self.deadlock_snapshot = (self.blocked_set(), dict(self.pending))
                elif r.kind == 'end':
                    flush()
            elif r.t == 'C':
                self.callrec[(r.aid, r.inc, r.idx)] = r
                pendingC.append(r)
            elif r.t == 'R':
                self.handle_return(r)
        flush()
        self.final_checks()
        return self.viol

    def actor_requests_cancel(self, aid):
        for key, req in self.requests.items():
            if key[0] == aid and req['posted'] and req['peer'] is None and not req['gone'] and not req['detached']:
                r = self.R.get(key)
                if req.get('completed') or req.get('eager') or (req['blocking'] and r is not None and not r.kv.get('exc')):
                    continue  # a blocking put that returned normally (eager send to a permanent receiver) is complete
                self.comm_withdraw(req)

    def actor_dead(self, aid):
        self.dead.add(aid)
        self.actor_requests_cancel(aid)
        self.pending.pop(aid, None)
        for m in self.mutex.values():
            m['q'] = [w for w in m['q'] if w.aid != aid]
        for s in self.sem.values():
            s['q'] = [w for w in s['q'] if w.aid != aid]
        for c in self.cv.values():
            c['q'] = [w for w in c['q'] if w.aid != aid]

    # ----------------------------------------------------------------------------------------- final state
    def final_checks(self):
        """waiters whose deadline passed long ago without the run ever timing them out"""
        for aid, w in self.pending.items():
            if aid in self.dead or w.deadline is None:
                continue
            done = w.granted and (w.kind != 'cv' or w.phase == 1)
            if not done and not w.timedout and w.deadline < self.now - EPS:
                self.v(w.kind + '_timeout_missed', '%s by %s called at %r with deadline %r never returned although the '
                       'simulation reached %r' % (w.kind, aid, w.call_clock, w.deadline, self.now))
        for key, req in self.requests.items():
            r = self.R.get(key)
            if req['blocking'] and r is not None and not r.kv.get('exc') and r.kv.get('skip') != '1':
                box = (self.mq if req['mq'] else self.mbox)[req['box']]
                if req['peer'] is None and not box.get('uncertain') and not box.get('receiver'):
                    self.v('unmatched_return', 'blocking %s on %s by %s returned normally (seq %d) although no matching '
                           '%s exists in the reference semantics' % ('put' if req['side'] == 's' else 'get', req['box'],
                                                                     key[0], r.seq, 'get' if req['side'] == 's' else 'put'))
                elif req['side'] == 's' and req['peer'] in self.requests:
                    peer = self.requests[req['peer']]
                    pr = self.R.get(peer['key'])
                    box = (self.mq if req['mq'] else self.mbox)[req['box']]
                    if peer['blocking'] and pr is not None and pr.kv.get('exc') and not box.get('uncertain') and \
                            not box.get('receiver'):
                        self.v('lost', 'put %s returned normally but its matching get reported %s: the payload is lost' %
                               (req['payload'], pr.kv.get('exc')))
        return self.viol

    def blocked_set(self):
        """actors that the model says are blocked for ever at the end (no timed event pending)"""
        out = {}
        for aid, w in self.pending.items():
            if aid in self.dead:
                continue
            if w.kind == 'cv':
                done = w.granted and w.phase == 1
            else:
                done = w.granted
            if not done and not w.timedout:
                out[aid] = w.key
        # blocking put/get (no timeout) whose request has no peer, and plain waits on unmatched slot requests
        for key, req in self.requests.items():
            if req['blocking'] and req['posted'] and req['peer'] is None and not req['gone'] and \
                    req['deadline'] is None and not req.get('eager') and key not in self.R and key[0] not in self.dead:
                out[key[0]] = key
        for aid, ow in self.opwait.items():
            if aid in self.dead or ow['key'] in self.R:
                continue
            reqs = [self.requests[self.slot_req[x]] for x in ow['slots'] if x in self.slot_req]
            if not reqs or len(reqs) != len(ow['slots']):
                continue
            un = [q for q in reqs if q['peer'] is None and not q['gone'] and not q.get('eager') and not q.get('cancelled')]
            if (ow['any'] and len(un) == len(reqs)) or (not ow['any'] and un):
                out[aid] = ow['key']
        return out
