"""Engine B (lmmsim) shared code for checks C15..C18: seeded history generation, rendering, execution, output
parsing, history-aware expectations, shrinking, and the common dst.Check base class."""
import os

import dst
import refmaxmin as R
from rng import Rng

LMMSIM = dst.BIN + '/lmmsim'

CAPS = [1, 2, 3, 4, 5, 8, 10, 16, 100]
WEIGHTS_ALL = [0.05, 0.5, 1, 2, 3, 4, 1.5]
PENALTIES = [0.5, 1, 2, 4, 1.25]
VBOUNDS = [0.25, 0.5, 1, 2, 3, 7]
MAX_MODS = 60
MAX_CNST = 12
MAX_VARS = 20


# ---------------------------------------------------------------------------------------------------------
def avoid_set():
    """development knob (never set by the registered commands): VERIF_LMM_AVOID=zero_cap,fb_fatpipe,cb_ignored,
    bmf_bound_penalty,bmf_bound,bmf_fatpipe,zero_weight keeps the generator away from the triggers of defects already found, so that a campaign (or a
    mutant run) can look for *other* ones. The plan records it."""
    # default: stay away from the triggers of the findings listed in /verif/known_findings.json (each of them is
    # replayed from its recorded input by the runner); VERIF_LMM_AVOID=none explores everything again
    dflt = 'zero_cap,fb_fatpipe,cb_ignored,bmf_bound_penalty,bmf_bound,bmf_fatpipe,zero_weight'
    v = os.environ.get('VERIF_LMM_AVOID', dflt)
    return sorted(x for x in v.split(',') if x and x != 'none')


def gen_history(seed, tier, solvers, selective=None, dump_every=False, fresh=False, limits_bias=0.5,
                allow_zero_cap=True):
    """A plan: header + list of ops. Ops are lists: ['C',cid,bound,pol,cb,limit] ['V',vid,pen,bound,ncap]
    ['E',vid,cid,w] ['B',vid,b] ['P',vid,p] ['K',cid,b] ['F',vid] ['S']."""
    avoid = avoid_set()
    k = Rng(seed, 'knobs')
    g = Rng(seed, 'history')
    solver = k.choice(solvers)
    sel = k.chance(0.6) if selective is None else selective
    # ---- swarm: which features does this history use
    pol_pool = ['S']
    if k.chance(0.5):
        pol_pool.append('F')
    if k.chance(0.35):
        pol_pool.append('N')
    if k.chance(0.15):
        pol_pool.append('W')
    use_limits = k.chance(limits_bias)
    limit_pool = [1, 2, 3, 4] if k.chance(0.7) else [1, 2]
    weights = [1] if k.chance(0.15) else k.sample(WEIGHTS_ALL, k.randint(2, len(WEIGHTS_ALL)))
    use_zero_weight = k.chance(0.1)
    use_pen0 = k.chance(0.7)
    pens = [1] if k.chance(0.25) else k.sample(PENALTIES, k.randint(2, len(PENALTIES)))
    use_bounds = k.chance(0.6)
    use_capchange = k.chance(0.6)
    use_free = k.chance(0.7)
    zero_cap = allow_zero_cap and k.chance(0.03)
    scale = k.wchoice([(1.0, 70), (1e6, 12), (1e9, 10), (1e-3, 8)])
    ncn = k.wchoice([(1, 10), (2, 20), (3, 20), (4, 15), (6, 15), (8, 10), (12, 10)])
    nmods = k.wchoice([(8, 10), (15, 20), (30, 30), (45, 20), (60, 20)])
    solve_p = k.choice([0.1, 0.25, 0.4])
    visited_start = None
    if sel and k.chance(0.3):
        visited_start = (1 << 32) - k.randint(1, 8)
    if 'zero_cap' in avoid:
        zero_cap = False
    if 'fb_fatpipe' in avoid and solver == 'fairbottleneck' and 'F' in pol_pool:
        pol_pool.remove('F')
    no_cb = 'cb_ignored' in avoid and solver == 'fairbottleneck'
    no_wifi_cb = 'cb_ignored' in avoid and solver == 'bmf'
    if 'bmf_bound_penalty' in avoid and solver == 'bmf':
        pens = [1]
    if 'bmf_bound' in avoid and solver == 'bmf':
        use_bounds = False
    if 'bmf_fatpipe' in avoid and solver == 'bmf' and 'F' in pol_pool:
        pol_pool.remove('F')
    if 'zero_weight' in avoid:
        use_zero_weight = False

    ops = []
    mods = 0
    cn = {}      # cid -> dict(pol=...)
    alive = {}   # vid -> dict(ncap, cn=set())
    nextv = 0

    def cap():
        return g.choice(CAPS) * scale

    def new_cnst():
        nonlocal mods
        cid = len(cn)
        pol = g.choice(pol_pool)
        cb = 0
        if pol in ('N', 'W'):
            cb = g.wchoice([(0, 2), (1, 2), (2, 3), (3, 2), (4, 1), (5, 1 if zero_cap else 0)])
            if no_cb or (no_wifi_cb and pol == 'W'):
                cb = 0
        limit = g.choice(limit_pool) if use_limits and g.chance(0.7) else -1
        b = cap()
        if zero_cap and g.chance(0.15):
            b = 0.0
        ops.append(['C', cid, b, pol, cb, limit])
        cn[cid] = dict(pol=pol)

    def weight():
        if use_zero_weight and g.chance(0.15):
            return 0.0
        return float(g.choice(weights))

    def penalty(allow0=True):
        if allow0 and use_pen0 and g.chance(0.2):
            return 0.0
        return float(g.choice(pens))

    def vbound():
        if not use_bounds or g.chance(0.5):
            return -1.0
        return g.choice(VBOUNDS) * scale

    def new_var():
        nonlocal nextv, mods
        vid = nextv
        nextv += 1
        ncap = g.wchoice([(1, 30), (2, 35), (3, 20), (4, 15)])
        ops.append(['V', vid, penalty(), vbound(), ncap])
        mods += 1
        alive[vid] = dict(ncap=ncap, cn=[])
        nexp = g.randint(1 if g.chance(0.95) else 0, ncap)
        cids = g.sample(sorted(cn), min(nexp, len(cn)))
        for cid in cids:
            ops.append(['E', vid, cid, weight()])
            alive[vid]['cn'].append(cid)
            mods += 1

    # initial constraints (some may come later)
    first = max(1, ncn - (g.randint(0, 2) if ncn > 2 else 0))
    for _ in range(first):
        new_cnst()
    guard = 0
    while mods < nmods and guard < 2000:
        guard += 1
        kind = g.wchoice([('V', 30 if nextv < MAX_VARS else 0), ('E', 12), ('B', 8 if use_bounds else 1),
                          ('P', 18), ('K', 10 if use_capchange else 0), ('F', 10 if use_free else 0),
                          ('C', 3 if len(cn) < ncn else 0)])
        vids = sorted(alive)
        if kind == 'V':
            new_var()
        elif kind == 'C':
            new_cnst()
        elif kind == 'E' and vids:
            vid = g.choice(vids)
            a = alive[vid]
            if a['cn'] and (len(a['cn']) >= a['ncap'] or g.chance(0.5)):
                cid = g.choice(a['cn'])           # repeated expand on the same constraint
            else:
                cid = g.choice(sorted(cn))
                if cid not in a['cn']:
                    a['cn'].append(cid)
            ops.append(['E', vid, cid, weight()])
            mods += 1
        elif kind == 'B' and vids:
            ops.append(['B', g.choice(vids), vbound()])
            mods += 1
        elif kind == 'P' and vids:
            ops.append(['P', g.choice(vids), penalty()])
            mods += 1
        elif kind == 'K':
            b = cap()
            if zero_cap and g.chance(0.3):
                b = 0.0
            ops.append(['K', g.choice(sorted(cn)), b])
            mods += 1
        elif kind == 'F' and vids:
            vid = g.choice(vids)
            del alive[vid]
            ops.append(['F', vid])
            mods += 1
        else:
            continue
        if g.chance(solve_p):
            ops.append(['S'])
    if ops[-1] != ['S']:
        ops.append(['S'])
    return dict(seed=seed, solver=solver, selective=1 if sel else 0, dump_every=1 if dump_every else 0, monitor=1,
                fresh=1 if fresh else 0, visited_start=visited_start, avoid=avoid, ops=ops)


def render(plan):
    out = ['solver %s' % plan['solver'], 'selective %d' % plan['selective'], 'dump_every %d' % plan.get('dump_every', 0),
           'monitor %d' % plan.get('monitor', 1), 'fresh %d' % plan.get('fresh', 0), 'begin']
    for op in plan['ops']:
        out.append(' '.join(x if isinstance(x, str) else repr(x) for x in op))
    return ('\n'.join(out) + '\n').encode()


# ---------------------------------------------------------------------------------------------------------
def parse_output(text):
    """-> dict(states=[...], ops=[(idx, code, status)], viol=[(prop, cls, msg)], abort=None|(idx, code), exception,
    done=None|dict, mon=str)"""
    res = dict(states=[], ops=[], viol=[], abort=None, exception=None, done=None, mon=None)
    cur = None
    for ln in text.split('\n'):
        if not ln:
            continue
        t = ln[0]
        if t == 'c' and ln[1] == ' ':
            f = ln.split()
            cur['cn'][int(f[1])] = dict(bound=float(f[2]), dyn=float(f[3]), dynexp=float(f[4]), pol=f[5], cb=int(f[6]),
                                        limit=int(f[7]), cur=int(f[8]), slack=int(f[9]), nen=int(f[10]), ndis=int(f[11]))
        elif t == 'v' and ln[1] == ' ':
            f = ln.split()
            n = int(f[6])
            el = [(int(f[7 + 3 * i]), float(f[8 + 3 * i])) for i in range(n)]
            mw = {int(f[7 + 3 * i]): float(f[9 + 3 * i]) for i in range(n)}
            cur['vr'][int(f[1])] = dict(pen=float(f[2]), staged=float(f[3]), bound=float(f[4]), value=float(f[5]), el=el,
                                        mw=mw)
        elif t == 'f' and ln[1] == ' ':
            f = ln.split()
            cur['fresh'][int(f[1])] = float(f[2])
        elif ln.startswith('OP '):
            f = ln.split()
            try:
                res['ops'].append((int(f[1]), f[2], ' '.join(f[3:])))
            except (ValueError, IndexError):
                pass   # a line cut by the CPULIMIT handler (written from a signal handler in the middle of stdio output)
        elif ln.startswith('STATE '):
            f = ln.split()
            cur = dict(idx=int(f[1]), kind=f[2], cn={}, vr={}, fresh={}, complete=False)
        elif ln == 'END':
            cur['complete'] = True
            res['states'].append(cur)
            cur = None
        elif ln.startswith('LMMVIOL '):
            f = ln.split(' ', 3)
            res['viol'].append((f[1], f[2], f[3] if len(f) > 3 else ''))
        elif ln.startswith('LMMMON '):
            res['mon'] = ln
        elif ln.startswith('ABORT '):
            f = ln.split()
            res['abort'] = (int(f[1]), f[2])
        elif ln.startswith('EXCEPTION '):
            res['exception'] = ln
        elif ln.startswith('DONE '):
            res['done'] = dict(kv.split('=') for kv in ln.split()[1:])
        elif ln == 'freshfail':
            cur['freshfail'] = True
    return res


BMF_GIVEUP = 'Unable to find a BMF allocation'


def run_history(plan, timeout=90):
    if not os.path.exists(LMMSIM):
        raise dst.Infra('harness %s missing' % LMMSIM)
    env = {}
    if plan.get('visited_start') is not None:
        env['VERIF_LMM_VISITED_START'] = str(plan['visited_start'])
    else:
        env['VERIF_LMM_VISITED_START'] = '1'
    rc, out, err, to = dst.run_proc([LMMSIM], render(plan), timeout=timeout, env=env)
    text = out.decode('utf-8', 'replace')
    errt = err.decode('utf-8', 'replace')
    p = parse_output(text)
    outcome = 'ok'
    if to:
        outcome = 'wall-timeout'         # infrastructure: the harness kills itself after 2 s of CPU time
    elif rc == 127 or 'error while loading shared libraries' in errt or 'symbol lookup error' in errt:
        raise dst.Infra('lmmsim could not start (library being rebuilt?): %s' % errt[-300:])
    elif rc == -24 and 'CPULIMIT' in text:
        outcome = 'timeout'              # SIGXCPU: the solver did not return
    elif rc != 0:
        if p['abort'] and p['abort'][1] == 'S' and plan['solver'] == 'bmf' and BMF_GIVEUP in errt:
            outcome = 'bmf-giveup'       # explicit, documented error: allowed outcome
        else:
            outcome = 'crash'
    elif p['done'] is None:
        outcome = 'crash'
    p.update(rc=rc, outcome=outcome, stderr=errt[-1500:], hash=dst.sha(text, rc))
    return p


# ---------------------------------------------------------------------------------------------------------
def requested_penalties(plan, res):
    """history-aware expectation: for each state (by op index) the penalty the user last asked for, per variable.
    Only operations the harness reports as executed count."""
    status = {i: s for i, _, s in res['ops']}
    req = {}
    out = {}
    for i, op in enumerate(plan['ops']):
        if status.get(i) != 'ok':
            continue
        if op[0] == 'V':
            req[op[1]] = op[2]
        elif op[0] == 'P' and op[1] in req:
            req[op[1]] = op[2]
        elif op[0] == 'F':
            req.pop(op[1], None)
        out[i] = dict(req)
    return out


def check_requested(state, req):
    """what the user asked for must be what the system holds: penalty p>0 is either applied or staged (waiting for a
    slot); penalty 0 (suspend) means neither running nor waiting"""
    out = []
    for vid in sorted(state['vr']):
        v = state['vr'][vid]
        if vid not in req:
            continue
        want = req[vid]
        if want <= 0:
            if v['pen'] > 0 or v['value'] != 0:
                out.append(('suspended-runs', 'variable %d was suspended (penalty 0 requested) but holds penalty %g '
                            'staged %g value %.9g' % (vid, v['pen'], v['staged'], v['value'])))
            elif v['staged'] > 0:
                out.append(('suspended-staged', 'variable %d was suspended (penalty 0 requested) but is still staged '
                            '(penalty %g waiting for a slot): it will run as soon as a slot frees' % (vid, v['staged'])))
        else:
            if not ((v['pen'] == want and v['staged'] == 0) or (v['pen'] == 0 and v['staged'] == want)):
                out.append(('penalty-lost', 'variable %d: penalty %g requested but the system holds penalty %g staged %g'
                            % (vid, want, v['pen'], v['staged'])))
    return out


# ---------------------------------------------------------------------------------------------------------
def shrink_history(plan):
    """candidates: drop chunks of ops, drop everything about one variable / one constraint, drop single ops, then
    simplify knobs and numbers. The harness skips ops whose ids vanished, so every candidate is well-formed."""
    ops = plan['ops']
    n = len(ops)

    def with_ops(newops, **kw):
        p = dict(plan)
        p['ops'] = newops
        p.update(kw)
        return p
    # trailing part after the last needed solve and big chunks
    size = n // 2
    while size >= 2:
        for start in range(0, n, size):
            cand = ops[:start] + ops[start + size:]
            if cand and any(o[0] == 'S' for o in cand):
                yield with_ops(cand)
        size //= 2
    vids = sorted({o[1] for o in ops if o[0] == 'V'})
    for vid in vids:
        yield with_ops([o for o in ops if not (o[0] in 'VEBPF' and o[1] == vid)])
    cids = sorted({o[1] for o in ops if o[0] == 'C'})
    for cid in cids:
        yield with_ops([o for o in ops if not ((o[0] in 'CK' and o[1] == cid) or (o[0] == 'E' and o[2] == cid))])
    for i in range(n - 1, -1, -1):
        cand = ops[:i] + ops[i + 1:]
        if cand and any(o[0] == 'S' for o in cand):
            yield with_ops(cand)
    if plan.get('visited_start') is not None:
        yield with_ops(ops, visited_start=None)
    # simplify numbers, one op at a time
    for i, o in enumerate(ops):
        alts = []
        if o[0] == 'C':
            if o[5] != -1:
                alts.append(o[:5] + [-1])
            if o[4] != 0:
                alts.append(o[:4] + [0, o[5]])
            if o[3] != 'S':
                alts.append(o[:3] + ['S', 0, o[5]])
            if o[2] not in (1.0, 0.0):
                alts.append(o[:2] + [1.0] + o[3:])
        elif o[0] == 'V':
            if o[3] != -1.0:
                alts.append(o[:3] + [-1.0, o[4]])
            if o[2] not in (1.0, 0.0):
                alts.append(o[:2] + [1.0] + o[3:])
        elif o[0] == 'E' and o[3] != 1.0:
            alts.append(o[:3] + [1.0])
        elif o[0] == 'B' and o[2] != -1.0:
            alts.append(o[:2] + [-1.0])
        elif o[0] == 'P' and o[2] not in (1.0, 0.0):
            alts.append(o[:2] + [1.0])
        elif o[0] == 'K' and o[2] not in (1.0, 0.0):
            alts.append(o[:2] + [1.0])
        for a in alts:
            yield with_ops(ops[:i] + [a] + ops[i + 1:])


# ---------------------------------------------------------------------------------------------------------
def features(plan):
    ops = plan['ops']
    return dict(
        zero_cap=any((o[0] == 'C' and (o[2] == 0 or o[4] == 5)) or (o[0] == 'K' and o[2] == 0) for o in ops),
        fatpipe=any(o[0] == 'C' and o[3] == 'F' for o in ops),
        nonlinear=any(o[0] == 'C' and o[3] in 'NW' and o[4] > 0 for o in ops),
        wifi=any(o[0] == 'C' and o[3] == 'W' for o in ops),
        limits=any(o[0] == 'C' and o[5] >= 0 for o in ops),
        suspend=any(o[0] == 'P' and o[2] == 0 for o in ops),
        var_bound=any((o[0] == 'V' and o[3] > 0) or (o[0] == 'B' and o[2] > 0) for o in ops),
        zero_weight=any(o[0] == 'E' and o[3] == 0 for o in ops))


MON_KNOWN = {'C15': {'cap', 'val-nan', 'val-disabled', 'val-negative', 'val-bound'}, 'C16': {'mm-unfair'},
             'C17': {'sel-differs'},
             'C18': {'conc-counter', 'conc-limit', 'conc-elemset', 'staged-enabled', 'staged-starved'}}


def mon_family(cls):
    return 'cap' if cls.startswith('cap-') else cls


SOLVER_TAG = {'maxmin': 'mm', 'fairbottleneck': 'fb', 'bmf': 'bmf'}
SYSTEM_LEVEL = ('conc-', 'staged-', 'suspended-', 'penalty-', 'fresh-')


def qualify(cls, st, tag):
    """violation classes of solver-level rules carry the solver (three different implementations) and whether a
    zero-capacity resource is in use in that state (a known weak spot), so that one known finding cannot hide another"""
    if cls.startswith(SYSTEM_LEVEL):
        return cls
    zero = any(R.capacity_of(c) <= 0 and c['nen'] > 0 for c in st['cn'].values())
    if zero and 'zerocap' not in cls:
        cls += '-zerocap'
    return cls + '-' + tag


class LmmCheck(dst.Check):
    """common part of C15..C18"""
    level = 'exploration'
    solvers = ['maxmin', 'fairbottleneck', 'bmf']
    selective = None
    dump_every = False
    fresh = False
    limits_bias = 0.5
    my_monitor_prop = None   # 'C15'...: LMMVIOL lines of that property are violations of this check
    crash_is_violation = True
    hang_is_violation = True
    shrink_budget = 300
    max_reported = 6
    real_vs_stub = {
        'lmm::System (constraints, variables, elements, concurrency staging, selective update)': 'real',
        'lmm::MaxMin / FairBottleneck / BmfSystem solvers': 'real',
        'kernel::resource::Action / Model': 'real classes, minimal subclasses (no heap, no state machine use): the '
                                            'variables only need a real id for the modified-action set',
        'models (cpu/network/disk/ptask) calling the LMM API': 'stub: replaced by the seeded history of API calls',
        'capacity callbacks of NONLINEAR/WIFI constraints': 'stub: five deterministic functions of (capacity, n)',
    }
    base_assumptions = [
        'tolerances: capacity usage <= capacity*(1+2e-5); saturation/largest-share/reference equality within 1e-4 '
        'relative (10 x precision/work-amount default 1e-5); a semantic change below these is invisible',
        'generated numbers are round (capacities {1..100} x {1,1e6,1e9,1e-3}, weights {0.05,0.5,1,1.5,2,3,4} and 0, '
        'penalties {0,0.5,1,1.25,2,4}); weight/penalty >= 0.0125 >> precision: near-degenerate systems where the '
        'precision mechanism legitimately decides are out of scope',
        'one (variable, constraint) pair has one element (expand force_creation=false), as all models but ptask_L07 do',
        'the wrap of the private visited_counter_ is inferred from VERIF_LMM_VISITED_START + number of effective '
        'selective solves, not read',
        'BMF "Unable to find a BMF allocation" abort is an allowed outcome (counted); any other abort/crash is not',
    ]
    budgets = {'quick': dict(runs=5000, wall=40), 'thorough': dict(runs=150000, wall=600)}

    def gen(self, seed, tier):
        return gen_history(seed, tier, self.solvers, self.selective, self.dump_every, self.fresh, self.limits_bias)

    def run(self, plan, scratch):
        r = run_history(plan)
        if r['outcome'] == 'wall-timeout' or (r['outcome'] == 'timeout' and not self.hang_is_violation):
            raise dst.Infra('lmmsim timed out (%s, seed %s)' % (r['outcome'], plan.get('seed')))
        return r

    # property-specific part
    def check_state(self, plan, res, state, req):
        return []

    def oracle(self, plan, res):
        out = []
        tag = SOLVER_TAG[plan['solver']]
        if res['outcome'] == 'crash' and self.crash_is_violation:
            a = res['abort']
            msg = res['stderr'].strip().split('\n')
            # keep the first informative line of the message
            info = [m for m in msg if 'rror' in m or 'ssert' in m or 'bug' in m or 'imit' in m or 'mpossible' in m][:2]
            out.append(('crash-' + tag, 'lmmsim rc=%s during op %s (%s): %s' %
                        (res['rc'], a[0] if a else '?', a[1] if a else '?', ' | '.join(info) or ' | '.join(msg[-2:]))))
        if res['outcome'] == 'timeout' and self.hang_is_violation:
            out.append(('hang-' + tag, '%s solver did not return (killed after 20 s of CPU time; a history normally takes '
                        'milliseconds); last op completed: %s' % (plan['solver'], res['ops'][-1] if res['ops'] else '?')))
        reqs = requested_penalties(plan, res)
        seen = set()
        py_solve = set()
        for st in res['states']:
            for cls, msg in self.check_state(plan, res, st, reqs.get(st['idx'], {})):
                if st['kind'] == 'solve':
                    py_solve.add(mon_family(cls))
                cls = qualify(cls, st, tag)
                if cls not in seen:           # first occurrence per class is enough
                    seen.add(cls)
                    out.append((cls, 'after op %d: %s' % (st['idx'], msg)))
        # the in-process monitor (second, independent implementation of the same rules, run inside the solve hook)
        # must agree with this oracle on the classes both know
        if self.my_monitor_prop and res['outcome'] == 'ok':
            known = MON_KNOWN[self.my_monitor_prop]
            mon = {}
            for prop, cls, msg in res['viol']:
                if prop == self.my_monitor_prop:
                    mon.setdefault(mon_family(cls), msg)
            for f in sorted(mon):
                if f not in py_solve:
                    out.append(('mon-only-' + f, 'in-process monitor reports what the oracle does not: ' + mon[f]))
            for f in sorted(py_solve & known):
                if f not in mon:
                    out.append(('mon-missed-' + f, 'the oracle reports %s but the in-process monitor is silent' % f))
        return out

    def nontrivial(self, plan, res):
        # at least two solves on a system where some constraint is shared by two enabled variables
        n = 0
        for st in res['states']:
            if st['kind'] == 'solve' and any(c['nen'] >= 2 for c in st['cn'].values()):
                n += 1
        return n >= 2

    def signature(self, plan, res):
        # the sequence of (op code) + the final allocation pattern
        return dst.sha(plan['solver'], plan['selective'], ''.join(o[0] for o in plan['ops']),
                       [sorted((v, round(x['value'], 6)) for v, x in st['vr'].items()) for st in res['states'][-1:]])

    def stats(self, plan, res):
        f = features(plan)
        nsolve = sum(1 for s in res['states'] if s['kind'] == 'solve')
        staged = sum(1 for s in res['states'] for v in s['vr'].values() if v['staged'] > 0)
        d = {'solver_' + plan['solver']: 1, 'selective_runs': plan['selective'], 'solves': nsolve,
             'states_checked': len(res['states']),
             'outcome_' + res['outcome'].replace('-', '_'): 1,
             'probe_visited_wrap': 1 if (res['done'] and res['done'].get('wrap') == '1') else 0,
             'probe_staged_variable_seen': 1 if staged else 0,
             'probe_fatpipe': 1 if f['fatpipe'] else 0, 'probe_dynamic_capacity': 1 if f['nonlinear'] else 0,
             'probe_zero_capacity': 1 if f['zero_cap'] else 0,
             'monitor_lines': len(res['viol'])}
        return d

    def shrink(self, plan):
        return shrink_history(plan)

    def describe(self, plan, res):
        return dict(solver=plan['solver'], selective=plan['selective'], visited_start=plan['visited_start'],
                    history=[' '.join(x if isinstance(x, str) else repr(x) for x in op) for op in plan['ops']][:80],
                    outcome=res['outcome'],
                    final_values={str(v): x['value'] for st in res['states'][-1:] for v, x in st['vr'].items()})

    def known_matchers(self):
        """predicates over the MINIMISED plan, for known_findings.json entries (see the engine-B report)"""
        def f(name):
            return lambda plan, cls, msg: bool(features(plan)[name])

        def solver(*names):
            return lambda plan, cls, msg: plan['solver'] in names
        m = {
            'zero_capacity': f('zero_cap'),
            'fairbottleneck_fatpipe': lambda p, c, msg: features(p)['fatpipe'] and p['solver'] == 'fairbottleneck',
            'bmf_fatpipe': lambda p, c, msg: features(p)['fatpipe'] and p['solver'] == 'bmf',
            'callback_ignored_by_solver': lambda p, c, msg: features(p)['nonlinear'] and
            p['solver'] in ('fairbottleneck', 'bmf'),
            'bmf_variable_bound': lambda p, c, msg: p['solver'] == 'bmf' and features(p)['var_bound'],
            'zero_weight_expand': f('zero_weight'),
            'suspend_with_concurrency_limit': lambda p, c, msg: features(p)['suspend'] and features(p)['limits'],
            'selective_update': lambda p, c, msg: p['selective'] == 1,
        }
        return m
