"""Common campaign runner for every /verif check: seeded plan generation, pooled execution, oracle,
violation gate (re-run twice, same hash + same class), shrinking, known-findings, replay files, evidence.

A check module exposes CHECK, an instance of a Check subclass. Contract in /verif/lib/CONTRACT.md."""
import hashlib
import json
import multiprocessing as mp
import os
import signal
import subprocess
import sys
import time
import traceback

from rng import Rng, derive

V = '/verif'
BUILD = os.environ.get('VERIF_BUILD', V + '/build')   # scratch build root for sensitivity runs (see bin/vbuild)
BIN = BUILD + '/bin'
SG = BUILD + '/sg'
DEFAULT_SEED = 20260921


class Infra(Exception):
    """infrastructure problem (harness crashed in an unexplained way, build missing...): exit 2, never a verdict"""


class Check:
    pid = 'C00'
    level = 'exploration'
    rule = ''
    assumptions = []
    real_vs_stub = {}
    # tier -> dict(runs=int, wall=float seconds)
    budgets = {'quick': dict(runs=200, wall=60), 'thorough': dict(runs=5000, wall=900)}
    max_reported = 4       # distinct violation classes processed (gate+shrink) per run
    shrink_budget = 400    # harness runs per shrink
    workers = 16

    # ---- to implement ------------------------------------------------------------------------------
    def gen(self, seed, tier):
        raise NotImplementedError

    def run(self, plan, scratch):
        """execute the plan (one or several harness processes); returns a JSON-serialisable dict with at least
        'hash' (hex string over everything the oracle looks at)"""
        raise NotImplementedError

    def oracle(self, plan, res):
        """-> list of (class, message). class is a short stable id of the rule broken (used for shrinking)"""
        raise NotImplementedError

    def nontrivial(self, plan, res):
        return True

    def signature(self, plan, res):
        return res.get('hash', '')

    def stats(self, plan, res):
        """-> dict name->number, summed over the campaign (fault kinds fired, probes, simulated seconds)"""
        return {}

    def shrink(self, plan):
        """yield smaller candidate plans (each independent of the others)"""
        return []

    def describe(self, plan, res):
        """small JSON-able sample for the evidence file"""
        return plan

    def known_matchers(self):
        """name -> predicate(plan, cls, msg) used by known_findings.json entries of this property"""
        return {}

    def extra_evidence(self, agg):
        return {}


# ---------------------------------------------------------------------------------------------------------
def _die_with_parent():
    """a harness process must not outlive the worker that started it (a worker killed at the end of the wall budget
    would otherwise leave a spinning harness behind): PR_SET_PDEATHSIG = SIGKILL"""
    try:
        import ctypes
        ctypes.CDLL('libc.so.6', use_errno=True).prctl(1, signal.SIGKILL, 0, 0, 0)
    except Exception:
        pass


def run_proc(cmd, stdin_data=None, timeout=30, env=None, cwd=None):
    """run a harness process in its own process group; returns (rc, stdout_bytes, stderr_bytes, timed_out)"""
    e = dict(os.environ)
    if env:
        e.update(env)
    p = subprocess.Popen(cmd, stdin=subprocess.PIPE if stdin_data is not None else subprocess.DEVNULL,
                         stdout=subprocess.PIPE, stderr=subprocess.PIPE, env=e, cwd=cwd, start_new_session=True,
                         preexec_fn=_die_with_parent)
    try:
        out, err = p.communicate(stdin_data, timeout=timeout)
        return p.returncode, out, err, False
    except subprocess.TimeoutExpired:
        try:
            os.killpg(p.pid, signal.SIGKILL)
        except ProcessLookupError:
            pass
        out, err = p.communicate()
        return -9, out, err, True


def sha(*parts):
    h = hashlib.sha256()
    for p in parts:
        h.update(p if isinstance(p, bytes) else str(p).encode())
        h.update(b'\0')
    return h.hexdigest()[:16]


def scratch_dir():
    d = '%s/runs/%d' % (BUILD, os.getpid())
    os.makedirs(d, exist_ok=True)
    return d


_CHECK = None


def _worker(args):
    seed, tier = args
    try:
        plan = _CHECK.gen(seed, tier)
        res = _CHECK.run(plan, scratch_dir())
        viol = _CHECK.oracle(plan, res)
        out = dict(seed=seed, viol=viol, nontrivial=bool(_CHECK.nontrivial(plan, res)),
                   sig=_CHECK.signature(plan, res), stats=_CHECK.stats(plan, res), hash=res.get('hash', ''))
        if viol:
            out['plan'] = plan
        if seed % 97 == 0 or viol:
            out['sample'] = _CHECK.describe(plan, res)
        return out
    except Infra as e:
        return dict(seed=seed, infra=str(e))
    except Exception:
        return dict(seed=seed, infra='exception in check code: ' + traceback.format_exc())


def evaluate(check, plan):
    """one fresh execution + oracle -> (hash, [(cls,msg)])"""
    res = check.run(plan, scratch_dir())
    return res.get('hash', ''), check.oracle(plan, res), res


def gate(check, plan, cls):
    """re-run twice in fresh processes: same hash, same class -> True. Otherwise infrastructure fault."""
    hs = []
    for _ in range(2):
        h, viol, _ = evaluate(check, plan)
        if cls not in [c for c, _ in viol]:
            return False, 'violation class %s did not reappear on re-run' % cls
        hs.append(h)
    if hs[0] != hs[1]:
        return False, 'log hash differs between identical re-runs (%s vs %s)' % (hs[0], hs[1])
    return True, hs[0]


def shrink(check, plan, cls, budget):
    """greedy delta debugging restricted to the same violation class"""
    runs = 0
    cur = plan
    improved = True
    while improved and runs < budget:
        improved = False
        for cand in check.shrink(cur):
            if runs >= budget:
                break
            runs += 1
            try:
                _, viol, _ = evaluate(check, cand)
            except Infra:
                continue
            if cls in [c for c, _ in viol]:
                cur = cand
                improved = True
                break
    return cur, runs


def load_known(pid):
    """committed lists: known_findings.json and the per-property files known_findings.<ID>.json (same layout).
    VERIF_KNOWN_FILE (development only) replaces them all by one file."""
    import glob
    if os.environ.get('VERIF_KNOWN_FILE'):
        files = [os.environ['VERIF_KNOWN_FILE']]
    else:
        files = [V + '/known_findings.json'] + sorted(glob.glob(V + '/known_findings.C[0-9][0-9].json'))
    out = []
    for p in files:
        if os.path.exists(p):
            out += [k for k in json.load(open(p)).get('findings', []) if k.get('property') == pid]
    return out


def tree_rev():
    try:
        r = subprocess.run(['git', '-C', '/repo', 'rev-parse', 'HEAD'], capture_output=True, text=True).stdout.strip()
        d = subprocess.run(['git', '-C', '/repo', 'diff', 'HEAD'], capture_output=True).stdout
        return r[:12] + ('+' + hashlib.sha1(d).hexdigest()[:8] if d else '')
    except Exception:
        return 'unknown'


def do_replay(check, path):
    rp = json.load(open(path))
    plan = rp['plan']
    h, viol, res = evaluate(check, plan)
    classes = [c for c, _ in viol]
    print('replay %s: hash=%s classes=%s' % (path, h, classes))
    for c, m in viol:
        print('  %s: %s' % (c, m))
    if rp.get('class') in classes:
        same = (h == rp.get('hash'))
        print('REPRODUCED class=%s hash_equal=%s' % (rp['class'], same))
        print('VIOLATION property=%s replay=%s' % (check.pid, path))
        return 1
    print('NOT-REPRODUCED (expected class %s)' % rp.get('class'))
    return 0


def campaign(check, tier, seed, runs=None, wall=None, workers=None):
    global _CHECK
    _CHECK = check
    t0 = time.time()
    b = dict(check.budgets[tier])
    if runs:
        b['runs'] = runs
    if wall:
        b['wall'] = wall
    nw = workers or check.workers
    agg = dict(evals=0, sigs=set(), nontriv=0, stats={}, samples=[], infra=[], viol={})
    seeds = (derive(seed, check.pid, i) >> 1 for i in range(b['runs']))
    ctx = mp.get_context('fork')
    pool = ctx.Pool(nw)
    stopped_early = False
    try:
        it = pool.imap_unordered(_worker, ((s, tier) for s in seeds), chunksize=1)
        for r in it:
            if 'infra' in r:
                agg['infra'].append((r['seed'], r['infra']))
                if len(agg['infra']) > 20:
                    break
                continue
            agg['evals'] += 1
            if r['nontrivial']:
                agg['nontriv'] += 1
                agg['sigs'].add(r['sig'])
            for k, v in r['stats'].items():
                agg['stats'][k] = agg['stats'].get(k, 0) + v
            if 'sample' in r and len(agg['samples']) < 3 and not r['viol']:
                agg['samples'].append(r['sample'])
            for c, m in r['viol']:
                agg['viol'].setdefault(c, []).append((r['seed'], m, r['plan']))
            if time.time() - t0 > b['wall']:
                stopped_early = True
                break
    finally:
        pool.terminate()
        pool.join()
    return agg, b, stopped_early, t0


def main_check(check, argv=None):
    import argparse
    ap = argparse.ArgumentParser()
    ap.add_argument('--tier', default=os.environ.get('VERIF_TIER', 'quick'))
    ap.add_argument('--seed', type=int, default=int(os.environ.get('VERIF_SEED', DEFAULT_SEED)))
    ap.add_argument('--replay')
    ap.add_argument('--runs', type=int)
    ap.add_argument('--wall', type=float)
    ap.add_argument('--workers', type=int)
    ap.add_argument('--no-build', action='store_true')
    ap.add_argument('--no-evidence', action='store_true')
    ap.add_argument('--dump', type=int, help='print the plan and result of one seed index and exit')
    a = ap.parse_args(argv)
    if not a.no_build:
        rc = subprocess.call([V + '/bin/vbuild'])
        if rc != 0:
            print('INFRA: build failed')
            return 2
    global _CHECK
    _CHECK = check
    if a.replay:
        return do_replay(check, a.replay)
    if a.dump is not None:
        s = derive(a.seed, check.pid, a.dump) >> 1
        plan = check.gen(s, a.tier)
        res = check.run(plan, scratch_dir())
        print(json.dumps(plan, indent=1))
        print(json.dumps(res, indent=1)[:20000])
        print(check.oracle(plan, res))
        return 0
    print('VERIF_SEED=%d property=%s tier=%s' % (a.seed, check.pid, a.tier))
    sys.stdout.flush()
    agg, b, stopped_early, t0 = campaign(check, a.tier, a.seed, a.runs, a.wall, a.workers)
    rc = 0
    if agg['infra']:
        for s, m in agg['infra'][:5]:
            print('INFRA seed=%d: %s' % (s, m[:2000]))
        if len(agg['infra']) > max(3, agg['evals'] // 50):
            print('INFRA: too many infrastructure failures (%d)' % len(agg['infra']))
            return 2
    # ---- violations: gate, shrink, known findings, replay files
    known = load_known(check.pid)
    matchers = check.known_matchers()
    nviol = 0
    known_hit = {}
    # listed findings that carry their failing input: replay it (the generators stay away from these triggers so that
    # a different violation of the same property is not drowned); a finding is reported only while it still fails
    for k in known:
        if k.get('status', 'open') == 'open' and k.get('repro'):
            try:
                kp = json.load(open(os.path.join(V, k['repro'])))
                h, viol, _ = evaluate(check, kp['plan'])
                if any(c == k.get('class') or k.get('class') == '*' for c, _ in viol):
                    known_hit[k['what']] = known_hit.get(k['what'], 0) + 1
                    print('KNOWN-FINDING: property=%s %s' % (check.pid, k['what']))
                else:
                    print('note: listed finding no longer reproduces (%s): %s' % (k['repro'], k['what'][:100]))
            except (OSError, ValueError, KeyError) as e:
                print('note: cannot replay listed finding %s: %s' % (k.get('repro'), e))
    reported = []
    os.makedirs(V + '/replays', exist_ok=True)
    shrunk = 0
    for cls in sorted(agg['viol']):
        lst = sorted(agg['viol'][cls], key=lambda x: len(json.dumps(x[2])))
        vseed, msg, plan = lst[0]
        ok, info = gate(check, plan, cls)
        tries = 1
        while not ok and tries < min(3, len(lst)):   # another instance of the class may be the reproducible one
            vseed, msg, plan = lst[tries]
            ok, info = gate(check, plan, cls)
            tries += 1
        if not ok:
            if cls.startswith('hang') or 'rc=-9' in msg or 'wall-timeout' in msg:
                # a kill by a CPU/wall budget that does not happen again on the same input is the machine, not the code
                print('note: %d run(s) of class %s hit a kill budget once and completed on re-run (not reproducible: '
                      'not a verdict): seed %d' % (len(lst), cls, vseed))
                agg['stats']['transient_kills_not_reproduced'] = agg['stats'].get('transient_kills_not_reproduced', 0) + len(lst)
                continue
            print('INFRA: violation gate failed for class %s seed %d: %s' % (cls, vseed, info))
            print('   message was: %s' % msg)
            rc = max(rc, 2)
            continue
        pre = None
        for k in known:
            if (k.get('class') == cls or ('class_prefix' in k and cls.startswith(k['class_prefix']))) and \
                    k.get('status', 'open') == 'open':
                fn = matchers.get(k.get('matcher'))
                if fn and k.get('match_unshrunk', True) and fn(plan, cls, msg):
                    pre = k
                    break
        if pre:
            known_hit[pre['what']] = known_hit.get(pre['what'], 0) + len(lst)
            print('KNOWN-FINDING: property=%s %s' % (check.pid, pre['what']))
            continue
        # every class is reported; only the first max_reported unknown ones are minimised (time budget)
        shrunk += 1
        small, nruns = shrink(check, plan, cls, check.shrink_budget if shrunk <= check.max_reported and
                              not os.environ.get('VERIF_NO_SHRINK') else 0)   # (sensitivity runs only need the verdict)
        h, viol, res = evaluate(check, small)
        smsg = [m for c, m in viol if c == cls]
        smsg = smsg[0] if smsg else msg
        hit = None
        for k in known:
            if (k.get('class') == cls or ('class_prefix' in k and cls.startswith(k['class_prefix']))) and \
                    k.get('status', 'open') == 'open':
                fn = matchers.get(k.get('matcher'))
                if fn and fn(small, cls, smsg):
                    hit = k
                    break
        if hit:
            known_hit[hit['what']] = known_hit.get(hit['what'], 0) + len(lst)
            print('KNOWN-FINDING: property=%s %s' % (check.pid, hit['what']))
            continue
        nviol += 1
        path = '%s/replays/%s-%s-%d.json' % (V, check.pid, cls.replace('/', '_'), vseed)
        json.dump(dict(property=check.pid, seed=vseed, tier=a.tier, tree=tree_rev(), plan=small, hash=h,
                       message=smsg, shrink_runs=nruns, original_size=len(json.dumps(plan)),
                       minimized_size=len(json.dumps(small)), occurrences=len(lst), **{'class': cls}),
                  open(path, 'w'), indent=1)
        # fresh-process replay must reproduce
        h2, viol2, _ = evaluate(check, small)
        if cls not in [c for c, _ in viol2] or h2 != h:
            print('INFRA: minimized replay did not reproduce identically (class %s)' % cls)
            rc = max(rc, 2)
            continue
        print('violation class=%s seed=%d occurrences=%d shrink_runs=%d: %s' % (cls, vseed, len(lst), nruns, smsg))
        print('VIOLATION property=%s replay=%s' % (check.pid, path))
        reported.append(dict(cls=cls, seed=vseed, msg=smsg, replay=path))
        rc = max(rc, 1)
    wall = time.time() - t0
    if not a.no_evidence:
        cov = dict(evaluations=agg['evals'], distinct_nontrivial=len(agg['sigs']), rule=check.rule,
                   samples=agg['samples'] or [dict(note='no sample kept')],
                   nontrivial_runs=agg['nontriv'], runs_per_hour=int(agg['evals'] / max(wall, 1e-9) * 3600),
                   seeds_per_hour=int(agg['evals'] / max(wall, 1e-9) * 3600),
                   counters=dict(sorted(agg['stats'].items())), budget=b, stopped_by_wall_budget=stopped_early,
                   real_vs_stub=check.real_vs_stub, known_findings_hit=known_hit,
                   infra_failures=len(agg['infra']), tree=tree_rev())
        cov.update(check.extra_evidence(agg))
        zero = [k for k, v in agg['stats'].items() if k.startswith('probe_') and v == 0]
        if zero:
            cov['reach_gaps'] = zero
        ev = dict(property_id=check.pid, tier=a.tier, seed=a.seed, level=check.level, coverage=cov,
                  assumptions=list(check.assumptions), wall_s=round(wall, 2), violations=nviol)
        os.makedirs(V + '/evidence', exist_ok=True)
        tmp = '%s/evidence/.%s.tmp' % (V, check.pid)
        json.dump(ev, open(tmp, 'w'), indent=1, sort_keys=True)
        os.replace(tmp, '%s/evidence/%s.json' % (V, check.pid))
    print('%s %s: %d runs, %d distinct non-trivial, %d violation classes, %.1fs, rc=%d' %
          (check.pid, a.tier, agg['evals'], len(agg['sigs']), nviol, wall, rc))
    return rc
