"""Source of MANIFEST.json (bin/mkmanifest). A property appears as a check only if checks/<id>.py exists."""

# checks registered in MANIFEST.json (a check file may exist before it is ready)
READY = ['C43', 'C39', 'C42', 'C02', 'C10', 'C13', 'C47', 'C28', 'C29', 'C30', 'C32', 'C34', 'C35', 'C36', 'C37', 'C23', 'C21', 'C22', 'C19', 'C20', 'C46', 'C01', 'C03', 'C04', 'C05', 'C06', 'C07', 'C08', 'C09', 'C11', 'C12', 'C14', 'C15', 'C16', 'C17', 'C18', 'C49']

HOOK_COMMITS = ['6abf118d3b', '23b4e66deb', '9ed5be8760']

ENGINES = [
    dict(name='s4usim', path='/verif/sim/s4usim.cpp',
         serves_properties=['C01', 'C03', 'C04', 'C05', 'C06', 'C07', 'C08', 'C09', 'C10', 'C11', 'C12', 'C13', 'C14',
                            'C19', 'C20', 'C21', 'C22', 'C23', 'C46', 'C47'],
         kind_free_text='engine A: seeded plan interpreter on the real SimGrid kernel (native scheduling, optional H2 '
                        'sub-round permutation, heap-layout perturbation) and engine A\' (--walk: in-process seeded '
                        'scheduler in the model checker\'s computational model); fault injection through the s4u API'),
    dict(name='lmmsim', path='/verif/sim/lmmsim.cpp', serves_properties=['C15', 'C16', 'C17', 'C18'],
         kind_free_text='engine B: seeded modification histories at the LMM API on the real solvers, plus an '
                        'in-simulation post-solve monitor (hook H1) inside engine A runs'),
    dict(name='mpisim', path='/verif/sim/mpisim.c',
         serves_properties=['C28', 'C29', 'C30', 'C32', 'C34', 'C35', 'C36', 'C37'],
         kind_free_text='engine C: generated-plan MPI interpreters run on SMPI over the real kernel; seeded think '
                        'times, latencies, thresholds, algorithm selectors'),
    dict(name='mcsim', path='/verif/sim/s4usim.cpp', serves_properties=['C38', 'C39', 'C40', 'C41', 'C42', 'C43'],
         kind_free_text='engine D: simgrid-mc as system under test on generated programs; engine A\' samples seeded '
                        'schedules of the same program independently and replays every reported path'),
    dict(name='detsched', path='/verif/sim/detsched.cpp', serves_properties=['C49', 'C02'],
         kind_free_text='engine E: real threads parked and released one at a time by a seeded (uniform/sticky/PCT) '
                        'scheduler at interposed pthread/futex/yield/atomic points'),
]

NOTES = ('All checks rebuild libsimgrid from /repo\'s working tree with -DSIMGRID_VERIF into /verif/build/sg (ccache) '
         'before running. Exit 0 = held on everything explored, 1 = VIOLATION line + replay file, 2 = infrastructure '
         'problem (never a verdict). See DESIGN.md.')

NOT_APPLICABLE = {
    'C24': 'hierarchical route composition is a pure function of the sealed platform: no schedule, clock, fault or second party influences route_to (link failures do not reroute); deterministic simulation has nothing to vary',
    'C25': 'shortest-path zones: pure graph function of the declared routes; even the DijkstraCache cache is specified to be invisible; no interleaving/fault dimension',
    'C26': 'structured topologies: pure index arithmetic on topology parameters; nothing to schedule or fault',
    'C27': 'unit parsing: pure string-to-number function',
    'C31': 'predefined reduction operators: element-wise pure function (MPI_Reduce_local); the collective path that has timing is C29',
    'C33': 'Cartesian topologies: pure index arithmetic, no communication timing involved',
    'C44': 'unfolding set algebra: pure functions over an immutable event structure',
    'C45': 'random draws: pure function of (seed, min, max); range/unbiasedness is a proof or statistical obligation, not a schedule',
    'C48': 'configuration flags: sequential parse/validate of one value; no concurrency, time or fault surface',
    'C50': 'xbt dynar/dict: sequential containers without concurrency, time, I/O or faults; model-based op-sequence testing is a different technique',
}

_A = 's4usim'
_SIM = 'deterministic simulation: seeded plans (program + platform + fault schedule + knobs) run on the real kernel; '

CLAIMS = {
    'C01': dict(engine=_A, text='Differential exploration: each seeded plan (all activity kinds, sync objects, lifecycle, faults) runs under different heap layouts, ASLR on/off and environment sizes; full event logs must be byte-identical. Sampling, not proof.',
                note='assumes address-dependence shows through heap order/ASLR/stack shift perturbation; string-keyed hash maps are layout independent in libstdc++',
                technique='deterministic simulation, differential replay under perturbed address-space layout'),
    'C02': dict(engine='detsched', text='Each plan runs under raw/boost/thread factories and, under the detsched real-thread scheduler, nthreads 2-4 with futex/posix/busy_wait; per-actor logs must equal the sequential run.',
                note='detsched serialises threads: races between two uninstrumented instructions are out of reach',
                technique='deterministic simulation: real threads released one at a time by a seeded scheduler; differential oracle'),
    'C03': dict(engine=_A, text=_SIM + 'clock monotonicity invariant at every time advance, exact-date oracle for every sleep/timer/kill time, lower bounds for execs/comms. Sampling.',
                note='tolerance = precision/timing of the run (double rounding of now += delta)'),
    'C04': dict(engine=_A, text=_SIM + 'mutex histories replayed operation by operation through a FIFO reference model (exclusion, grant order, try_lock result, recursion depth), native and walk (MC computational model) scheduling.',
                note='linearisation = order of call records; valid because each op\'s effective simcall is its first simcall (checked by walk mode agreeing)'),
    'C05': dict(engine=_A, text=_SIM + 'semaphore histories vs reference model: token conservation, capacity reads, FIFO grants, timeout iff no grant within t, timeouts racing releases at equal dates.',
                note='at exact ties either outcome accepted, conservation still checked'),
    'C06': dict(engine=_A, text=_SIM + 'condition variable histories vs reference model: notify_one wakes oldest or is lost, notify_all wakes those present, return only with mutex re-acquired, wait_for timeout iff not notified.',
                note='ties accepted both ways'),
    'C07': dict(engine=_A, text=_SIM + 'barrier histories: groups of exactly n in arrival order, no early return.',
                note='kills of waiters excluded here (C11 campaign)'),
    'C08': dict(engine=_A, text=_SIM + 'mailbox histories with unique payloads: exactly-once, oldest-accepted-first matching, payload/size intact, blocking/async/detached/permanent receiver; fault-free and fault campaigns separately.',
                note='under faults an un-received put may be lost, never duplicated'),
    'C09': dict(engine=_A, text=_SIM + 'message queue histories with unique payloads: exactly-once and FIFO pairing.',
                note='-'),
    'C10': dict(engine=_A, level='fault_enumeration', text='For each sampled communicating program: every host and link x every event date of the fault-free run (and date +/- epsilon) is failed once; oracle: each live participant gets its failure exception, victims see on_exit(failed), nobody stays blocked on a failed resource.',
                note='programs are sampled; the (resource, date) space per program is enumerated',
                technique='deterministic simulation with enumerated crash points per program'),
    'C11': dict(engine=_A, text=_SIM + 'lifecycle histories (create/kill/join(t)/daemonize/kill time/suspend/resume/auto-restart/on_exit) checked against the documented semantics and dates.',
                note='-'),
    'C12': dict(engine=_A, text=_SIM + 'timed waits on exec/comm/io/mess with deadlines before/at/after the natural completion (twin run gives the natural date), wait_for_or_cancel, wait_any_for.',
                note='tie rule: completion date bit-equal to deadline must complete'),
    'C13': dict(engine=_A, text=_SIM + 'random DAGs of execs/comms/ios with assignment and start order varied; start/finish signals checked against dependency semantics.',
                note='DOT loader not covered (no graphviz in the build)'),
    'C14': dict(engine=_A, text=_SIM + 'synchronisation-only programs under raw/boost/thread, H2 permutations and walk mode; refinement against the reference semantics incl. deadlock verdicts.',
                note='-'),
    'C15': dict(engine='lmmsim', text='Seeded modification histories at the LMM API on maxmin/fairbottleneck/bmf (+ post-solve monitor in engine-A simulations): capacity, fatpipe, zero-rate and bound checks after every solve.',
                note='tolerances from sg_precision_workamount; BMF explicit abort is an allowed outcome',
                technique='seeded history search at the LMM seam + in-simulation post-solve monitor (deterministic simulation)'),
    'C16': dict(engine='lmmsim', text='Same histories: local fairness characterisation for maxmin and bmf; exact-rational progressive filling reference on shared-only systems.',
                note='tolerance relative sg_precision_workamount',
                technique='seeded history search at the LMM seam with exact-rational reference model'),
    'C17': dict(engine='lmmsim', text='After every selective solve a fresh non-selective system with the current content is solved and compared; visited counter start value near 2^32 exercises wrap-around.',
                note='comparison tolerance calibrated on the unchanged tree',
                technique='seeded history search, differential against from-scratch recomputation'),
    'C18': dict(engine='lmmsim', text='Concurrency counters and staging invariant checked after every modification/solve on histories with limits 1-4.',
                note='-', technique='seeded history search with invariant monitor'),
    'C19': dict(engine=_A, text='Differential: each plan runs under cpu/optim Lazy/Full/TI x network/optim Lazy/Full x selective update; completion dates must agree within tolerance.',
                note='tolerance calibrated on unchanged tree', technique='deterministic simulation, differential across update algorithms'),
    'C20': dict(engine=_A, text='Single-activity plans vs closed forms of the documented models.',
                note='degenerate one-party case; observable is simulated time', technique='deterministic simulation vs closed-form reference'),
    'C21': dict(engine=_A, text='Monitor at every time advance: remaining work monotone, conserved; loads within capacity; fair core sharing.',
                note='-'),
    'C22': dict(engine=_A, text='Profiles (speed, bandwidth, latency, state) with zero-delta points and periods; change signals and sampled values vs piecewise-constant reference; lone activity finish dates vs integral.',
                note='-'),
    'C23': dict(engine=_A, text='Energy plugin vs reference integral from the recorded history (pstate/on-off/load).',
                note='-'),
    'C28': dict(engine='mpisim', text='Generated MPI point-to-point programs on SMPI with seeded think times, thresholds and platforms; history oracle for matching, non-overtaking, status and truncation.',
                note='-'),
    'C29': dict(engine='mpisim', text='Every selectable collective algorithm (enumerated from the tree) x np x counts x types x ops under seeded arrival skews; results compared with sequential reference.',
                note='explicit refusal with a clear message is allowed'),
    'C30': dict(engine='mpisim', text='Random type trees through send/recv/pack in all protocol modes; bytes selected at send time must arrive, canaries elsewhere.', note='-'),
    'C32': dict(engine='mpisim', text='Communicator/group construction under concurrent traffic with identical tags; isolation and ordering oracle.', note='-'),
    'C34': dict(engine='mpisim', text='RMA epochs with seeded interleavings vs sequential reference under allowed serialisations.', note='-'),
    'C35': dict(engine='mpisim', text='Partially shared buffers with random layouts/offsets in all send modes; private bytes must be copied.', note='-'),
    'C36': dict(engine='mpisim', text='Privatised globals under many rank switch orders (mmap/dlopen).', note='-'),
    'C37': dict(engine='mpisim', text='Online run with TI tracing vs replay of the trace: per-rank completion dates equal.', note='tolerance calibrated'),
    'C38': dict(unclaimed_reason='the check exists (checks/c38.py, engine D: simgrid-mc explorations against seeded walks and the reference model) and its findings are in known_findings.C38.json, but simgrid-mc shows new defect classes (aborts, protocol errors, missed outcomes) on nearly every new seed: a check that cannot list them all would alarm on the unchanged tree, so it is not registered', engine='mcsim', text='simgrid-mc (each reduction/explorer/strategy) on generated programs; seeded random/PCT walks of the same binary give reachable outcomes that every reduction must contain; verdict agreement.',
                note='sampling gives a lower bound on reachability'),
    'C39': dict(engine='mcsim', text='Along seeded walks, pairs of enabled transitions declared independent are executed in both orders from the same prefix; state fingerprints and enabledness compared; symmetry of depends().',
                note='fingerprint computed by the harness from s4u/kernel handles'),
    'C40': dict(unclaimed_reason='the check exists (checks/c40.py, engine D: Foata normal forms of the complete executions of none and odpor) and was clean on four seeds under load, but with the full quick budget on an idle machine the default seed already shows two further genuine defect classes of simgrid-mc (wakeup-tree invariant abort with MC_random under odpor; odpor with the uniform strategy exploring executions unknown to the unreduced exploration): as for C38 and C41, a check that cannot enumerate the defects of its subject is not registered', engine='mcsim', text='ODPOR explored executions replayed in-process; Foata normal forms under depends() must be pairwise distinct and cover sampled executions.', note='-'),
    'C41': dict(unclaimed_reason='the check exists (checks/c41.py, engine D: simgrid-mc explorations against seeded walks and the reference model) and its findings are in known_findings.C41.json, but simgrid-mc shows new defect classes (aborts, protocol errors, missed outcomes) on nearly every new seed: a check that cannot list them all would alarm on the unchanged tree, so it is not registered', engine='mcsim', text='Counter-examples printed by simgrid-mc replayed with model-check/replay (twice) and by the walker with the reference model.', note='-'),
    'C42': dict(engine='mcsim', text='happens_before/racing events vs transitive closure of depends on executions sampled by seeded walks.',
                note='pure function; simulation contributes the real executions'),
    'C43': dict(engine='mcsim', text='App-side observer vs decoded transition round trip for each simcall kind; simgrid-mc must terminate under a step bound.', note='wall budget 60x median decides hang'),
    'C46': dict(engine=_A, text=_SIM + 'concurrent file-system operations on disks; accounting invariants after every operation.', note='-'),
    'C47': dict(engine=_A, text='Paje traces of seeded simulations (incl. faults) validated by a trace checker driven by the header.', note='-'),
    'C49': dict(engine='detsched', text='Parmap on real threads under the seeded scheduler with instrumented atomics; exactly-once per element, no lost wake-up, in all synchro modes, with spurious wake-ups/EINTR.',
                note='sequential consistency assumed for atomics',
                technique='deterministic simulation: real threads released one at a time by a seeded PCT/random scheduler'),
}
