"""MC driver of the reference semantics: replays a walk-mode log (engine A'), where every 'step' record is one
transition of the model checker's computational model (split simcalls: X_ASYNC_LOCK then X_WAIT). The linearisation
is exact here: one transition per step, executed immediately."""
import refsync
from refsync import Waiter


class WalkModel(refsync.Model):
    def __init__(self, plan, recs):
        super().__init__(plan, recs)
        self.cur = {}
        self.steps = 0
        self.wstats = dict(steps=0, choice_points=0, max_enabled=0)

    # in MC mode the re-lock of the mutex is requested by the CONDVAR_WAIT transition, not at notification time
    def cv_signal(self, name):
        c = self.cv[name]
        while c['q']:
            w = c['q'].pop(0)
            if w.aid in self.dead:
                continue
            w.notified = True
            return True
        self.stats['cv_lost_notify'] += 1
        return False

    def step(self, r):
        aid = r.kv.get('aid')
        tr = r.kv.get('tr', '-')
        tt = tr.split('(')[0]
        en = r.kv.get('en', '').split(',')
        self.wstats['steps'] += 1
        if len(en) > 1:
            self.wstats['choice_points'] += 1
        self.wstats['max_enabled'] = max(self.wstats['max_enabled'], len(en))
        c = self.cur.get(aid)
        if c is None:
            return
        key = (c.aid, c.inc, c.idx)
        a = c.args
        k = c.kind

        def not_enabled(what):
            self.v('walk_enabled', 'step %s: %s of %s (op %s %s) was executed, but in the reference semantics %s' %
                   (r.kv.get('n'), tt, aid, k, ' '.join(a), what))
        if tt == 'MUTEX_ASYNC_LOCK':
            w = Waiter(aid, key, 'mutex', a[0], 0.0)
            self.pending[aid] = w
            self.mutex_lock_async(a[0], w)
        elif tt == 'MUTEX_WAIT':
            w = self.pending.get(aid)
            if w is None or not w.granted:
                mname = w.mutex if (w is not None and w.kind == 'cv') else (a[0] if k == 'lock' else a[1])
                not_enabled('the mutex is owned by %s (queue %s)' % (self.mutex[mname]['owner'],
                                                                    [x.aid for x in self.mutex[mname]['q']]))
        elif tt == 'MUTEX_TRYLOCK' or tt == 'MUTEX_UNLOCK':
            self.handle_call(c)
        elif tt == 'SEM_ASYNC_LOCK':
            s = self.sem[a[0]]
            w = Waiter(aid, key, 'sem', a[0], 0.0)
            self.pending[aid] = w
            if s['value'] > 0:
                s['value'] -= 1
                s['grants'] += 1
                w.granted = True
                w.grant_clock = 0.0
            else:
                self.stats['sem_blocked'] += 1
                s['q'].append(w)
        elif tt == 'SEM_WAIT':
            w = self.pending.get(aid)
            if w is None or not w.granted:
                not_enabled('no token was granted (value %d, queue %s)' % (self.sem[a[0]]['value'],
                                                                          [x.aid for x in self.sem[a[0]]['q']]))
        elif tt == 'SEM_UNLOCK':
            self.sem_release(a[0])
        elif tt == 'CONDVAR_ASYNC_LOCK':
            m = self.mutex[a[1]]
            if m['owner'] != aid:
                self.illformed = 'condvar wait without owning the mutex'
                return
            w = Waiter(aid, key, 'cv', a[0], 0.0)
            w.mutex = a[1]
            self.pending[aid] = w
            self.stats['cv_wait'] += 1
            self.mutex_unlock(a[1], aid, key)
            self.cv[a[0]]['q'].append(w)
        elif tt == 'CONDVAR_WAIT':
            w = self.pending.get(aid)
            if w is None:
                return
            if not w.notified:
                timed = (k == 'cvwait_for' and float(a[2]) > 0) or (k == 'cvwait_until' and float(a[2]) > 0)
                if not timed:
                    not_enabled('it was not notified and has no timeout')
                q = self.cv[w.obj]['q']
                if w in q:
                    q.remove(w)
                w.timedout = True
                self.stats['cv_timeout'] += 1
            w.phase = 1
            self.mutex_lock_async(w.mutex, w)
        elif tt == 'CONDVAR_SIGNAL':
            self.cv_signal(a[0])
        elif tt == 'CONDVAR_BROADCAST':
            while self.cv[a[0]]['q']:
                self.cv_signal(a[0])
        elif tt == 'BARRIER_ASYNC_LOCK':
            self.handle_call(c)
        elif tt == 'BARRIER_WAIT':
            w = self.pending.get(aid)
            if w is None or not w.granted:
                not_enabled('its group is not complete (%d of %d arrived)' % (len(self.bar[a[0]]['q']), self.bar[a[0]]['n']))
        elif tt in ('COMM_ASYNC_SEND', 'COMM_ASYNC_RECV'):
            if key not in self.requests or not self.requests[key]['posted']:
                self.handle_call(c)
        elif tt == 'COMM_WAIT':
            req = None
            if k in ('put', 'get'):
                req = self.requests.get(key)
            elif a and a[0] in self.slot_req:
                req = self.requests.get(self.slot_req[a[0]])
            if req is not None and req['peer'] is None:
                to = [x for x in a if x.startswith('timeout=')]
                if not to and k not in ('wait_for', 'wait_until', 'wait_for_or_cancel'):
                    not_enabled('the communication has no matching peer yet')

    def run(self):
        self.callrec = {}
        for r in self.recs:
            if r.t == 'C':
                self.callrec[(r.aid, r.inc, r.idx)] = r
                self.cur[r.aid] = r
            elif r.t == 'R':
                self.handle_return(r)
            elif r.t == 'S':
                if r.kind == 'step':
                    self.step(r)
                elif r.kind == 'actor_end':
                    self.actor_requests_cancel(r.aid)
                    self.cur.pop(r.aid, None)
                elif r.kind == 'actor_term':
                    self.actor_dead(r.aid)
                elif r.kind == 'deadlock':
                    self.deadlock_snapshot = (self.blocked_set(), dict(self.pending))
        return self.viol
