"""Reference MPI semantics used by engine C (mpisim) oracles. Small, sequential, executable.

* datatypes: typemap flattening per MPI-3.1 section 4.1 for contiguous, vector, hvector, indexed, hindexed,
  indexed_block, struct, resized, subarray (lb/ub markers are sticky as the standard defines them).
* groups / communicators: incl, excl, range_incl, range_excl, union, intersection, difference, translate_ranks,
  compare, Comm_split ordering, Comm_create.
* point-to-point: legality of an observed matching (compatibility, exactly-once, non-overtaking) from the
  per-process program orders only.

(collectives live in refmpi_coll.py, owned by another engine)"""

ANY = -1          # MPI_ANY_SOURCE / MPI_ANY_TAG in plans and logs
PROC_NULL = -2
UNDEFINED = -3

BASE = {'BYTE': 1, 'CHAR': 1, 'SHORT': 2, 'INT': 4, 'DOUBLE': 8, 'LL': 8, 'FLOAT': 4}
BASE_SLOT = {'BYTE': 0, 'CHAR': 1, 'SHORT': 2, 'INT': 3, 'DOUBLE': 4, 'LL': 5, 'FLOAT': 6}


# =========================================================================================================
# datatypes
# =========================================================================================================
class TypeInfo:
    """segs: [(offset, length)] in typemap order (adjacent-in-order entries merged); sig: [(basename, n)] the
    type signature, run-length encoded; lbm/ubm: explicit lower/upper bound markers (None if absent)"""
    __slots__ = ('segs', 'sig', 'lbm', 'ubm', 'align')

    def __init__(self, segs, sig, lbm=None, ubm=None, align=1):
        self.segs = segs
        self.sig = sig
        self.lbm = lbm
        self.ubm = ubm
        self.align = align

    @property
    def size(self):
        return sum(l for _, l in self.segs)

    @property
    def true_lb(self):
        return min((o for o, l in self.segs if l > 0), default=0)

    @property
    def true_ub(self):
        return max((o + l for o, l in self.segs if l > 0), default=0)

    @property
    def lb(self):
        if self.lbm is not None:
            return self.lbm
        return self.true_lb

    @property
    def ub(self):
        if self.ubm is not None:
            return self.ubm
        return self.true_ub

    @property
    def extent(self):
        return self.ub - self.lb

    @property
    def needs_epsilon(self):
        """True when the standard's alignment padding (epsilon) would be non-zero: the extent is then
        implementation dependent and the oracle must not assert it"""
        if self.ubm is not None or self.lbm is not None:
            return False
        return self.size > 0 and (self.ub - self.lb) % self.align != 0

    def nbytes(self):
        return self.size


def _merge(segs):
    out = []
    for o, l in segs:
        if l == 0:
            continue
        if out and out[-1][0] + out[-1][1] == o:
            out[-1] = (out[-1][0], out[-1][1] + l)
        else:
            out.append((o, l))
    return out


def _sig_cat(a, b):
    out = list(a)
    for n, k in b:
        if k == 0:
            continue
        if out and out[-1][0] == n:
            out[-1] = (n, out[-1][1] + k)
        else:
            out.append((n, k))
    return out


def _sig_rep(sig, k):
    if k <= 0 or not sig:
        return []
    if len(sig) == 1:
        return [(sig[0][0], sig[0][1] * k)]
    out = []
    for _ in range(k):
        out = _sig_cat(out, sig)
    return out


def _place(old, disps):
    """typemap made of copies of `old` at the byte displacements `disps` (in order)"""
    segs = []
    lbm = ubm = None
    for d in disps:
        for o, l in old.segs:
            segs.append((o + d, l))
        if old.lbm is not None:
            lbm = old.lbm + d if lbm is None else min(lbm, old.lbm + d)
        if old.ubm is not None:
            ubm = old.ubm + d if ubm is None else max(ubm, old.ubm + d)
    # non-marker bounds of the copies count as data bounds only through their data; but a copy of a type whose
    # extent exceeds its data (e.g. trailing padding given by an ub marker) is covered by the markers above.
    return TypeInfo(_merge(segs), _sig_rep(old.sig, len(disps)), lbm, ubm, old.align)


def flatten(t):
    """t: nested list description (see module doc of mpicommon). Returns TypeInfo."""
    k = t[0]
    if k == 'b':
        n = BASE[t[1]]
        return TypeInfo([(0, n)], [(t[1], 1)], None, None, n)
    if k == 'contig':
        old = flatten(t[2])
        return _place(old, [i * old.extent for i in range(t[1])])
    if k == 'vector':
        _, count, bl, stride, sub = t
        old = flatten(sub)
        e = old.extent
        return _place(old, [(i * stride + j) * e for i in range(count) for j in range(bl)])
    if k == 'hvector':
        _, count, bl, stride, sub = t
        old = flatten(sub)
        e = old.extent
        return _place(old, [i * stride + j * e for i in range(count) for j in range(bl)])
    if k == 'indexed':
        _, bls, disps, sub = t
        old = flatten(sub)
        e = old.extent
        return _place(old, [(d + j) * e for b, d in zip(bls, disps) for j in range(b)])
    if k == 'hindexed':
        _, bls, disps, sub = t
        old = flatten(sub)
        e = old.extent
        return _place(old, [d + j * e for b, d in zip(bls, disps) for j in range(b)])
    if k == 'indexed_block':
        _, bl, disps, sub = t
        old = flatten(sub)
        e = old.extent
        return _place(old, [(d + j) * e for d in disps for j in range(bl)])
    if k == 'struct':
        _, bls, disps, subs = t
        segs = []
        sig = []
        lbm = ubm = None
        align = 1
        for b, d, sub in zip(bls, disps, subs):
            old = flatten(sub)
            part = _place(old, [d + j * old.extent for j in range(b)])
            segs += part.segs
            sig = _sig_cat(sig, part.sig)
            align = max(align, old.align)
            if part.lbm is not None:
                lbm = part.lbm if lbm is None else min(lbm, part.lbm)
            if part.ubm is not None:
                ubm = part.ubm if ubm is None else max(ubm, part.ubm)
        return TypeInfo(_merge(segs), sig, lbm, ubm, align)
    if k == 'resized':
        _, sub, lb, extent = t
        old = flatten(sub)
        return TypeInfo(list(old.segs), list(old.sig), lb, lb + extent, old.align)
    if k == 'subarray':
        _, sizes, subsizes, starts, order, sub = t
        old = flatten(sub)
        e = old.extent
        nd = len(sizes)
        # element strides: C order = last dimension fastest; Fortran = first fastest
        strides = [0] * nd
        acc = 1
        dims = range(nd - 1, -1, -1) if order == 0 else range(nd)
        for d in dims:
            strides[d] = acc
            acc *= sizes[d]
        total = acc
        # enumerate selected elements in array storage order (the order MPI defines through the nested
        # vector construction: slowest dimension outermost)
        slow_to_fast = list(reversed(list(dims)))
        idx = [[]]
        for d in slow_to_fast:
            idx = [p + [(d, starts[d] + i)] for p in idx for i in range(subsizes[d])]
        disps = []
        for p in idx:
            disps.append(sum(strides[d] * v for d, v in p) * e)
        if any(s == 0 for s in subsizes):
            disps = []
        part = _place(old, disps)
        return TypeInfo(part.segs, part.sig, 0, total * e, old.align)
    raise ValueError('unknown type constructor %r' % (k,))


def any_epsilon(t):
    """does any node of the tree have an implementation-dependent (alignment padded) extent?"""
    if t[0] == 'b':
        return False
    if flatten(t).needs_epsilon:
        return True
    if t[0] == 'struct':
        return any(any_epsilon(s) for s in t[3])
    if t[0] == 'resized':
        return any_epsilon(t[1])
    return any_epsilon(t[-1])


def depth(t):
    k = t[0]
    if k == 'b':
        return 0
    if k == 'struct':
        return 1 + max([depth(s) for s in t[3]] or [0])
    if k == 'resized':
        return 1 + depth(t[1])
    return 1 + depth(t[-1])


def byte_offsets(ti, count):
    """byte offsets selected by (count, type), in typemap order"""
    out = []
    e = ti.extent
    for i in range(count):
        base = i * e
        for o, l in ti.segs:
            out.extend(range(base + o, base + o + l))
    return out


def seg_list(ti, count):
    """[(offset,len)] of (count, type) in order, merged"""
    e = ti.extent
    if count <= 0 or not ti.segs:
        return []
    if len(ti.segs) == 1 and ti.segs[0][1] == e:
        return [(ti.segs[0][0], e * count)]
    return _merge([(i * e + o, l) for i in range(count) for o, l in ti.segs])


def span(ti, count):
    """(min offset, max offset+1) touched by (count,type); (0,0) if nothing"""
    s = seg_list(ti, count)
    if not s:
        return 0, 0
    return min(o for o, _ in s), max(o + l for o, l in s)


def overlaps(ti, count):
    s = sorted(seg_list(ti, count))
    for (o1, l1), (o2, _) in zip(s, s[1:]):
        if o1 + l1 > o2:
            return True
    return False


def signature(ti, count):
    return _sig_rep(ti.sig, count)


def sig_prefix(small, big):
    """is type signature `small` a prefix of `big` (both run-length encoded)?"""
    i = 0
    rem = 0
    name = None
    for n, k in small:
        need = k
        while need > 0:
            if rem == 0:
                if i >= len(big):
                    return False
                name, rem = big[i]
                i += 1
            if name != n:
                return False
            take = min(rem, need)
            rem -= take
            need -= take
    return True


# =========================================================================================================
# groups and communicators (a group is a list of world ranks, in group-rank order)
# =========================================================================================================
def g_incl(g, ranks):
    return [g[r] for r in ranks]


def g_excl(g, ranks):
    ex = set(ranks)
    return [x for i, x in enumerate(g) if i not in ex]


def range_ranks(ranges):
    out = []
    for f, l, s in ranges:
        n = (l - f) // s
        out.extend(f + i * s for i in range(n + 1))
    return out


def g_range_incl(g, ranges):
    return g_incl(g, range_ranks(ranges))


def g_range_excl(g, ranges):
    return g_excl(g, range_ranks(ranges))


def g_union(a, b):
    sa = set(a)
    return list(a) + [x for x in b if x not in sa]


def g_intersection(a, b):
    sb = set(b)
    return [x for x in a if x in sb]


def g_difference(a, b):
    sb = set(b)
    return [x for x in a if x not in sb]


def g_translate(a, ranks, b):
    pos = {x: i for i, x in enumerate(b)}
    out = []
    for r in ranks:
        if r == PROC_NULL:
            out.append(PROC_NULL)
        else:
            out.append(pos.get(a[r], UNDEFINED))
    return out


def g_compare(a, b):
    if list(a) == list(b):
        return 'ident'
    if len(a) == len(b) and set(a) == set(b):
        return 'similar'
    return 'unequal'


def comm_split(parent, colors, keys):
    """parent: list of world ranks; colors/keys: dict world rank -> int (color UNDEFINED => no communicator).
    Returns dict world rank -> new group (list of world ranks) or None. Order: key, then rank in parent."""
    out = {}
    classes = {}
    for i, w in enumerate(parent):
        c = colors[w]
        if c == UNDEFINED:
            out[w] = None
        else:
            classes.setdefault(c, []).append((keys[w], i, w))
    for c in classes:
        members = [w for _, _, w in sorted(classes[c])]
        for w in members:
            out[w] = members
    return out


def comm_create(parent, group):
    return {w: (list(group) if w in group else None) for w in parent}


# =========================================================================================================
# point-to-point matching legality
# =========================================================================================================
def tag_ok(spec, tag):
    return spec == ANY or spec == tag


def src_ok(spec, src):
    return spec == ANY or spec == src


def check_matching(sends, recvs, complete=True):
    """sends: list of dict(id, src, dst, comm, tag, seq) ; seq = position in the sender's program order
    recvs: list of dict(rid, rank, comm, src, tag, seq, got) ; seq = posting position in the receiver's program;
           src/tag are the specs actually passed (ANY for wildcards; src as world rank); got = message id or None
    comm values are opaque communicator instance ids.
    Returns [(class, text)]. Classes: match-dest, match-comm, match-source, match-tag, dup, overtake, lost."""
    viol = []
    by_id = {m['id']: m for m in sends}
    consumed = {}
    # per (receiver) queues
    per_rank = {}
    for r in recvs:
        per_rank.setdefault(r['rank'], []).append(r)
    stream = {}
    for m in sorted(sends, key=lambda m: (m['src'], m['seq'])):
        stream.setdefault((m['src'], m['dst'], m['comm']), []).append(m)
    for rank in sorted(per_rank):
        for r in sorted(per_rank[rank], key=lambda r: r['seq']):
            if r['got'] is None:
                continue
            m = by_id.get(r['got'])
            if m is None:
                viol.append(('match-unknown', 'recv %s got unknown message %r' % (r['rid'], r['got'])))
                continue
            bad = False
            if m['dst'] != r['rank']:
                viol.append(('match-dest', 'recv %s on rank %d got message %s addressed to rank %d' %
                             (r['rid'], r['rank'], m['id'], m['dst'])))
                bad = True
            if m['comm'] != r['comm']:
                viol.append(('match-comm', 'recv %s on comm %s got message %s sent on comm %s' %
                             (r['rid'], r['comm'], m['id'], m['comm'])))
                bad = True
            if not src_ok(r['src'], m['src']):
                viol.append(('match-source', 'recv %s (source %d) got message %s from %d' %
                             (r['rid'], r['src'], m['id'], m['src'])))
                bad = True
            if not tag_ok(r['tag'], m['tag']):
                viol.append(('match-tag', 'recv %s (tag %d) got message %s with tag %d' %
                             (r['rid'], r['tag'], m['id'], m['tag'])))
                bad = True
            if m['id'] in consumed:
                viol.append(('dup', 'message %s received twice (recv %s and recv %s)' %
                             (m['id'], consumed[m['id']], r['rid'])))
                continue
            if not bad:
                for e in stream.get((m['src'], m['dst'], m['comm']), []):
                    if e['seq'] >= m['seq']:
                        break
                    if e['id'] in consumed:
                        continue
                    if tag_ok(r['tag'], e['tag']):
                        viol.append(('overtake',
                                     'recv %s (rank %d, source spec %d, tag spec %d) got message %s (tag %d, %d-th '
                                     'send of rank %d) although the earlier message %s (tag %d, %d-th send) to the same '
                                     'rank on the same communicator also matched and was still unreceived' %
                                     (r['rid'], r['rank'], r['src'], r['tag'], m['id'], m['tag'], m['seq'], m['src'],
                                      e['id'], e['tag'], e['seq'])))
                        break
            consumed[m['id']] = r['rid']
    # receive order: a message may not be given to a later-posted receive while an earlier-posted receive of the
    # same process that it matches is still pending (never completed in this history)
    for rank in sorted(per_rank):
        rl = sorted(per_rank[rank], key=lambda r: r['seq'])
        for i, r in enumerate(rl):
            if r['got'] is None or r['got'] not in by_id:
                continue
            m = by_id[r['got']]
            for e in rl[:i]:
                if e['got'] is None and e.get('posted', True) and e['comm'] == m['comm'] and src_ok(e['src'], m['src']) \
                        and tag_ok(e['tag'], m['tag']) and m['dst'] == rank:
                    viol.append(('recv-order', 'message %s (rank %d -> %d, tag %d) was given to receive %s although the '
                                 'earlier-posted receive %s (source spec %d, tag spec %d), which it matches, never completed' %
                                 (m['id'], m['src'], m['dst'], m['tag'], r['rid'], e['rid'], e['src'], e['tag'])))
                    break
    if complete:
        for m in sends:
            if m['id'] not in consumed:
                viol.append(('lost', 'message %s (rank %d -> %d, tag %d) was never received' %
                             (m['id'], m['src'], m['dst'], m['tag'])))
    return viol


def reference_matching(sends, recvs):
    """deterministic matching of a wildcard-source-free program (MPI non-overtaking rules): returns
    dict rid -> message id (or None). Used by the generator to prove that its planned pairing is the only legal one."""
    stream = {}
    for m in sorted(sends, key=lambda m: (m['src'], m['seq'])):
        stream.setdefault((m['src'], m['dst'], m['comm']), []).append(m)
    used = set()
    out = {}
    per_rank = {}
    for r in recvs:
        per_rank.setdefault(r['rank'], []).append(r)
    for rank in per_rank:
        for r in sorted(per_rank[rank], key=lambda r: r['seq']):
            assert r['src'] != ANY
            out[r['rid']] = None
            for e in stream.get((r['src'], rank, r['comm']), []):
                if e['id'] in used:
                    continue
                if tag_ok(r['tag'], e['tag']):
                    used.add(e['id'])
                    out[r['rid']] = e['id']
                    break
    return out
