"""Engine D: the real model checker (simgrid-mc with each reduction / explorer / strategy) is the system under test,
run over seeded generated programs interpreted by s4usim; the in-process seeded walker D (sim/s4usim_mcd.cpp) and the
reference model (lib/refwalkd.py) are the oracle.

 run_mc(...)      one simgrid-mc exploration of a plan -> verdict, reports (kind, blocked-actor signature, replay path),
                  set of terminal outcomes (side file written by the application, `opt mcout`), complete paths, counts
 run_walks(...)   many seeded walks / exact path replays of the same plan in one s4usim process (`opt multi`)
 run_replay(...)  s4usim out of the checker with --cfg=model-check/replay:<path>
 validate_walk()  reference model over one walk
 foata()          canonical form of an execution under the checker's own dependency matrix (D lines of `mcinfo`)

Outcome of an execution = for every actor the sequence of the results of its operations, restricted to the results
that are returned by a transition (and therefore a function of the Mazurkiewicz class): observations of shared state
made between two transitions (owner, capacity, sizes, dates) are dropped."""
import copy
import math
import os
import re
import time

import dst
import refwalkd
import s4u

KEEP = ('ok', 'timeout', 'payload', 'done', 'got', 'found', 'value', 'exc', 'skip', 'fail', 'seen', 'pid')
WALK_OPTS = ('mode', 'walk', 'walkseed', 'maxsteps', 'walker', 'multi', 'path', 'mcinfo', 'stopatpathend', 'mcout',
             'sched', 'fingerprint', 'h2', 'layout', 'pctlen')
REDUCTIONS = ('none', 'dpor', 'sdpor', 'odpor', 'udpor')
LOGFMT = ['--log=no_loc']
_LINE = re.compile(r'^\[[^\]]*\] \[([A-Za-z_0-9]+)/([A-Z]+)\] (.*)$')


def sgdir():
    """SimGrid build under test; VERIF_SG overrides (sensitivity runs against a mutant build)"""
    return os.environ.get('VERIF_SG', dst.SG)


def simgrid_mc():
    return sgdir() + '/bin/simgrid-mc'


def s4usim():
    return os.environ.get('VERIF_S4USIM', dst.BIN + '/s4usim')


def child_env():
    """environment of every process we spawn: with VERIF_SG (mutant build) the checker and the verified s4usim must both
    load that libsimgrid (their RUNPATH is searched after LD_LIBRARY_PATH)"""
    if os.environ.get('VERIF_SG'):
        return dict(LD_LIBRARY_PATH=sgdir() + '/lib')
    return None


def need_binaries():
    for p in (simgrid_mc(), s4usim()):
        if not os.path.exists(p):
            raise dst.Infra('%s not built' % p)


# ------------------------------------------------------------------------------------------------------- outcomes
def _fmt_item(idx, kind, kv):
    return '%s.%s(%s)' % (idx, kind, ','.join('%s=%s' % (k, kv[k]) for k in KEEP if k in kv))


def outcome_of_items(items):
    """items: (aid, idx, kind, kv) in any global order (per-actor order preserved) -> canonical text"""
    per = {}
    for aid, idx, kind, kv in items:
        per.setdefault(aid, []).append(_fmt_item(idx, kind, kv))
    return ' ; '.join('%s: %s' % (a, ' '.join(per[a])) for a in sorted(per))


def _items_of_text(rest):
    out = []
    for chunk in rest.split('|'):
        tk = chunk.split(' ')
        if len(tk) < 4:
            continue
        kv = {}
        for t in tk[4:]:
            i = t.find('=')
            if i > 0:
                kv[t[:i]] = t[i + 1:]
        out.append((tk[0], tk[2], tk[3], kv))
    return out


def outcome_of_recs(recs):
    return outcome_of_items((r.aid, str(r.idx), r.kind, r.kv) for r in recs if r.t == 'R')


def assert_key_of_items(items):
    """(aid, idx, seen) of the failing assert_last, None if there is none"""
    for aid, idx, kind, kv in items:
        if kind == 'assert_last' and kv.get('fail') == '1':
            return '%s.%s seen=%s' % (aid, idx, kv.get('seen'))
    return None


def illegal_items(plan, items):
    """results that no execution of the plan can produce whatever the schedule (the checker made the application take a
    value outside the range of the transition): -> list of descriptions"""
    ops = {a['id']: a['ops'] for a in plan['actors']}
    bad = []
    for aid, idx, kind, kv in items:
        base = aid.split('#')[0]
        try:
            op = ops[base][int(idx)]
        except (KeyError, IndexError, ValueError):
            continue
        if kind == 'mc_random' and 'value' in kv:
            if not (int(op[1]) <= int(kv['value']) <= int(op[2])):
                bad.append('%s op %s: MC_random(%s, %s) returned %s' % (aid, idx, op[1], op[2], kv['value']))
        elif kind in ('wait_any', 'test_any') and 'got' in kv:
            if kv['got'] != '-' and kv['got'] not in op[1:]:
                bad.append('%s op %s: %s returned %s' % (aid, idx, kind, kv['got']))
    return bad


def parse_mcout(path, plan=None):
    """-> (set of terminal outcomes, set of assertion keys, number of lines)"""
    terms, asserts, n = set(), set(), 0
    illegal = []
    try:
        f = open(path, errors='replace')
    except OSError:
        return terms, asserts, 0, illegal
    with f:
        for line in f:
            line = line.rstrip('\n')
            n += 1
            if line.startswith('O '):
                tk = line.split(' ', 3)
                items = _items_of_text(tk[3] if len(tk) > 3 else '')
                bad = illegal_items(plan, items) if plan is not None else []
                if bad:
                    if len(illegal) < 3 and bad[0] not in illegal:
                        illegal.append(bad[0])
                    continue
                if len(tk) >= 3 and tk[2] == 'alive=0':
                    terms.add(outcome_of_items(items))
            elif line.startswith('A '):
                tk = line.split(' ', 4)
                items = _items_of_text(tk[4] if len(tk) > 4 else '')
                if plan is not None and illegal_items(plan, items):
                    continue
                k = assert_key_of_items(items)
                if k:
                    asserts.add(k)
    return terms, asserts, n, illegal


# ------------------------------------------------------------------------------------------------------- paths
def parse_path(s):
    """'1;2/1;3' or '1/0;2/1;' -> tuple of (pid, tc)"""
    out = []
    for c in s.strip().strip("'").split(';'):
        c = c.strip()
        if not c:
            continue
        if '/' in c:
            a, b = c.split('/', 1)
            out.append((int(a), int(b)))
        else:
            out.append((int(c), 0))
    return tuple(out)


def path_str(p):
    return ';'.join('%d/%d' % x for x in p)


def path_cfg(p):
    """the form RecordTrace::to_string prints"""
    return ';'.join(('%d/%d' % x) if x[1] else str(x[0]) for x in p)


# ------------------------------------------------------------------------------------------------------- plan files
def _write_plan(plan, scratch, tag, opts):
    p = copy.deepcopy(plan)
    p['opts'] = {k: v for k, v in p.get('opts', {}).items() if k not in WALK_OPTS}
    p['opts'].update(opts)
    pf = '%s/mcd.%d.%s.txt' % (scratch, os.getpid(), tag)
    with open(pf, 'w') as f:
        f.write(s4u.plan_text(p))
    return pf


def _rm(*files):
    for f in files:
        try:
            os.unlink(f)
        except OSError:
            pass


# ------------------------------------------------------------------------------------------------------- process watch
def _group_status(pgid):
    """-> (number of processes of the group, any runnable/uninterruptible, total cpu ticks)"""
    n, busy, ticks = 0, False, 0
    for d in os.listdir('/proc'):
        if not d.isdigit():
            continue
        try:
            with open('/proc/%s/stat' % d) as f:
                st = f.read()
        except OSError:
            continue
        rp = st.rfind(')')
        fld = st[rp + 2:].split()
        # fld[0]=state [2]=pgrp [11]=utime [12]=stime
        try:
            if int(fld[2]) != pgid:
                continue
            n += 1
            if fld[0] in ('R', 'D'):
                busy = True
            ticks += int(fld[11]) + int(fld[12])
        except (ValueError, IndexError):
            continue
    return n, busy, ticks


def run_proc_watch(cmd, timeout=60, stall_s=12, cwd=None, env=None, repeat_marker=None, repeat_max=5):
    """like dst.run_proc, plus two wall-clock independent ways of recognising a run that will never end:
    - stall: every process of the group has been sleeping (none runnable) without consuming a single cpu tick for
      stall_s seconds: checker and application wait for each other;
    - loop: the same line starting with repeat_marker (a complete execution path printed by the explorer) has been
      printed repeat_max times: the exploration goes round in circles.
    -> (rc, stdout, stderr, timed_out, stalled, looping)"""
    import signal
    import subprocess
    import threading
    e = dict(os.environ)
    if env:
        e.update(env)
    p = subprocess.Popen(cmd, stdin=subprocess.DEVNULL, stdout=subprocess.PIPE, stderr=subprocess.PIPE, env=e, cwd=cwd,
                         start_new_session=True, preexec_fn=dst._die_with_parent)
    bufs = {1: [], 2: []}

    def pump(f, k):
        while True:
            c = f.read1(65536) if hasattr(f, 'read1') else f.read(65536)
            if not c:
                break
            bufs[k].append(c)
    th = [threading.Thread(target=pump, args=(p.stdout, 1), daemon=True),
          threading.Thread(target=pump, args=(p.stderr, 2), daemon=True)]
    for t in th:
        t.start()
    t0 = time.time()
    last_ticks, last_change = -1, t0
    stalled = timed_out = looping = False
    seen, scanned, carry = {}, 0, b''
    mark = repeat_marker.encode() if repeat_marker else None
    while True:
        try:
            p.wait(timeout=1.0)
            break
        except subprocess.TimeoutExpired:
            pass
        now = time.time()
        n, busy, ticks = _group_status(p.pid)
        if busy or ticks != last_ticks:
            last_ticks, last_change = ticks, now
        elif n > 0 and now - last_change >= stall_s:
            stalled = True
        if mark is not None:
            chunks = bufs[2][scanned:]
            scanned += len(chunks)
            data = carry + b''.join(chunks)
            lines = data.split(b'\n')
            carry = lines.pop()
            for l in lines:
                i = l.find(mark)
                if i >= 0:
                    k = l[i:]
                    seen[k] = seen.get(k, 0) + 1
                    if seen[k] >= repeat_max:
                        looping = True
        if now - t0 > timeout:
            timed_out = True
        if stalled or timed_out or looping:
            try:
                os.killpg(p.pid, signal.SIGKILL)
            except ProcessLookupError:
                pass
            p.wait()
            break
    for t in th:
        t.join(timeout=5)
    out, err = b''.join(bufs[1]), b''.join(bufs[2])
    if stalled or timed_out or looping:
        return -9, out, err, timed_out and not (stalled or looping), stalled, looping
    return p.returncode, out, err, False, False, False


# ------------------------------------------------------------------------------------------------------- simgrid-mc
def parse_mc_stderr(text):
    """-> dict(reports=[dict(kind, sig, path)], complete_paths=[...], states, traces, replays, visited, events,
    criticals=[...], optimality_dup=bool, maz_recorded=int)"""
    out = dict(reports=[], complete_paths=[], states=None, traces=None, replays=None, visited=None, events=None,
               criticals=[], optimality_dup=False, maz_recorded=None, ended=False, truncated_paths=0,
               soft_timeout=False)
    cur = None
    for raw in text.split('\n'):
        m = _LINE.match(raw)
        if not m:
            if raw.startswith('     - ') and cur is not None and cur['kind'] == 'deadlock' and cur['path'] is None:
                cur['sig'].append(norm_sig_line(raw))
            continue
        cat, lvl, msg = m.group(1), m.group(2), m.group(3)
        if lvl in ('CRITICAL', 'ERROR'):
            if len(out['criticals']) < 8:
                out['criticals'].append(msg[:300])
            if 'equivalent with an already explored one' in msg:
                out['optimality_dup'] = True
        if '*** DEADLOCK DETECTED ***' in msg:
            cur = dict(kind='deadlock', sig=[], path=None)
        elif '*** PROPERTY NOT VALID ***' in msg:
            cur = dict(kind='assert', sig=[], path=None)
        elif '** CRASH IN THE PROGRAM **' in msg:
            cur = dict(kind='crash', sig=[], path=None)
        elif cur is not None and cur['kind'] == 'deadlock' and cat == 'ker_engine' and \
                (msg.startswith(' - pid') or msg.startswith('     - ')):
            cur['sig'].append(norm_sig_line(msg))
        elif cur is not None and cur['kind'] == 'crash' and msg.startswith('From '):
            cur['sig'].append(msg.strip())
        elif "--cfg=model-check/replay:'" in msg:
            p = msg.split("--cfg=model-check/replay:'", 1)[1]
            p = p[:p.rfind("'")] if "'" in p else p
            if cur is not None:
                cur['path'] = p
                cur['sig'] = tuple(sorted(cur['sig']))
                out['reports'].append(cur)
                cur = None
        elif msg.startswith('Execution came to an end at '):
            p = msg[len('Execution came to an end at '):].strip()
            if cat == 'mc_dfs' and len(p) >= 100:
                out['truncated_paths'] += 1   # DFSExplorer prints %.100s
            else:
                out['complete_paths'].append(p)
        elif 'exploration ended.' in msg:
            mm = re.search(r'(\d+) unique states visited; (\d+) explored traces \((\d+) transition replays, (\d+) states',
                           msg)
            if mm:
                out['states'], out['traces'], out['replays'], out['visited'] = (int(x) for x in mm.groups())
                out['ended'] = True
            mm = re.search(r'(\d+) unique events considered; (\d+) backtracks', msg)
            if mm:
                out['events'] = int(mm.group(1))
                out['ended'] = True
        elif msg.startswith('Currently recorded '):
            out['maz_recorded'] = int(msg.split()[2])
        elif msg.startswith('Soft timeout after'):
            out['soft_timeout'] = True
    return out


def run_mc(plan, scratch, red, algo='DFS', strategy='none', randseed=None, max_errors=-1, verbose=True, extra_cfg=(),
           timeout=30, tag='mc', keep_stderr=False):
    """one exploration. The wall timeout only bounds the run: an exploration that is cut gives no verdict (except
    where the property is about termination)."""
    need_binaries()
    mcout = '%s/mcd.%d.%s.out' % (scratch, os.getpid(), tag)
    _rm(mcout)
    pf = _write_plan(plan, scratch, tag, dict(mcout=mcout))
    cmd = [simgrid_mc(), s4usim(), pf, '--cfg=model-check/reduction:' + red]
    if red != 'udpor':
        cmd.append('--cfg=model-check/exploration-algo:' + algo)
    if strategy != 'none':
        cmd.append('--cfg=model-check/strategy:' + strategy)
    if randseed is not None:
        cmd.append('--cfg=model-check/rand-seed:%d' % randseed)
    if max_errors is not None:
        cmd.append('--cfg=model-check/max-errors:%d' % max_errors)
    if verbose:
        cmd += ['--log=mc_dfs.thres:verbose', '--log=mc_befs.thres:verbose']
    cmd += list(extra_cfg) + LOGFMT
    t0 = time.time()
    for attempt in range(4):
        rc, out, err, to, stalled, looping = run_proc_watch(cmd, timeout=timeout, cwd=scratch, env=child_env(),
                                                             repeat_marker='Execution came to an end at ')
        text = err.decode('utf-8', 'replace')
        if 'failed to exec(' not in text and 'Text file busy' not in text:
            break
        _rm(mcout)
        time.sleep(1.5)   # the shared harness binary is being relinked by another session
    else:
        raise dst.Infra('simgrid-mc cannot exec %s: %s' % (s4usim(), text[-300:]))
    res = parse_mc_stderr(text)
    terms, asserts, nlines, illegal = parse_mcout(mcout, plan)
    _rm(mcout, pf)
    res.update(rc=rc, timed_out=to, stalled=stalled, looping=looping, illegal=illegal, outcomes=terms, asserts=asserts, mcout_lines=nlines, red=red, algo=algo,
               strategy=strategy, config='%s/%s/%s' % (red, algo if red != 'udpor' else '-', strategy),
               stderr_tail=text[-2500:], cmd=' '.join(cmd[3:]), wall=round(time.time() - t0, 2))
    if keep_stderr:
        res['stderr'] = text
    res['dl_sigs'] = set(r['sig'] for r in res['reports'] if r['kind'] == 'deadlock')
    # the exploration went to its end: main() returned one of its statuses
    # simgrid_mc.cpp leaves at once (status 0) when no actor is enabled in the initial state
    res['empty_program'] = 'did not do any transition before terminating' in text
    res['finished'] = (not to) and (not stalled) and (not looping) and rc in (0, 1, 2) and (res['ended'] or res['empty_program'])
    # BeFSExplorer lets the exception of an assertion failure reach main(): the exploration stops at the first one even
    # when max-errors asks to go on (exit status 1 instead of 2): what was not visited cannot be judged
    res['stopped_at_error'] = bool(max_errors is not None and max_errors < 0 and rc == 1)
    if res['stopped_at_error']:
        res['finished'] = False
    res['unsupported'] = None
    for c in res['criticals']:
        if 'no specialized computation for the transition' in c or 'does currently not support' in c or \
                'not supported' in c or 'not implemented' in c.lower():
            res['unsupported'] = c[:200]
    return res


# ------------------------------------------------------------------------------------------------------- walker D
def _split_runs(text):
    """chunks after each '#RUN i' line -> dict i -> text ; plus crash marks"""
    runs, crash, cur, buf = {}, {}, None, []
    for line in text.split('\n'):
        if line.startswith('#RUN '):
            if cur is not None:
                runs[cur] = '\n'.join(buf)
            cur, buf = int(line[5:]), []
        elif line.startswith('#CRASH ') or line.startswith('#EXIT '):
            tk = line.split()
            crash[int(tk[1])] = tk[2]
        elif line.startswith('#DONE'):
            pass
        elif cur is not None:
            buf.append(line)
    if cur is not None:
        runs[cur] = '\n'.join(buf)
    return runs, crash


def norm_sig_line(msg):
    """status line of a blocked actor without what depends on the interleaving that led there: communication ids are
    allocated in creation order"""
    s = re.sub(r'comm_id:\s*\d+', 'comm_id:*', msg.strip())
    # the name of the mailbox is lost ('-') once an iprobe has looked at the communication: keep the id only
    return re.sub(r'mbox:[^ (]*\(id:', 'mbox:(id:', s)


def deadlock_sig_of_stderr(text):
    sig = []
    for raw in text.split('\n'):
        m = _LINE.match(raw)
        msg = m.group(3) if m else raw
        if (m and m.group(1) == 'ker_engine' and (msg.startswith(' - pid') or msg.startswith('     - '))):
            sig.append(norm_sig_line(msg))
    return tuple(sorted(sig))


def run_walks(plan, scratch, specs, timeout=120, tag='w', maxsteps=400):
    """specs: list of dicts of option overrides (walk=, walkseed=, path=, mcinfo=1, stopatpathend=1) ->
    list of walk results (same order)"""
    need_binaries()
    if not specs:
        return []
    mf = '%s/mcd.%d.%s.multi' % (scratch, os.getpid(), tag)
    with open(mf, 'w') as f:
        for s in specs:
            f.write(' '.join('%s=%s' % (k, s[k]) for k in sorted(s)) + '\n')
    pf = _write_plan(plan, scratch, tag, dict(mode='walk', walker='d', multi=mf, maxsteps=str(maxsteps)))
    cmd = [s4usim(), pf] + LOGFMT
    for attempt in range(4):
        try:
            rc, out, err, to = dst.run_proc(cmd, timeout=timeout, cwd=scratch, env=child_env())
        except OSError:
            rc, out, err, to = 126, b'', b'', False
        if rc not in (126, 127) and b'#DONE' in out:
            break
        if to:
            break
        time.sleep(1.5)   # the shared harness binary is being relinked by another session
    _rm(mf, pf)
    if to:
        raise dst.Infra('walker D did not finish %d walks within %ds' % (len(specs), timeout))
    if b'#DONE' not in out:
        raise dst.Infra('walker D failed (rc=%s): %s' % (rc, err.decode('utf-8', 'replace')[-300:]))
    runs, crash = _split_runs(out.decode('utf-8', 'replace'))
    eruns, _ = _split_runs(err.decode('utf-8', 'replace'))
    res = []
    for i, s in enumerate(specs):
        log = runs.get(i, '')
        recs = s4u.parse_log(log)
        w = dict(spec=s, log=log, recs=recs, crashed=crash.get(i), end=None, path=(), outcome='', complete=False,
                 deadlock=False, sig=(), assert_key=None, path_invalid=None, stopped=False, steps=0)
        for r in recs:
            if r.t == 'S' and r.kind == 'walk_end':
                w['end'] = r.kv
            elif r.t == 'S' and r.kind == 'path_invalid':
                w['path_invalid'] = '%s at step %s (pid %s, %s transitions left)' % (
                    r.kv.get('reason'), r.kv.get('n'), r.kv.get('pid'), r.kv.get('left'))
            elif r.t == 'S' and r.kind == 'deadlock':
                w['deadlock'] = True
        if w['end'] is not None:
            e = w['end']
            w['path'] = parse_path(e.get('path', '-') if e.get('path') != '-' else '')
            w['steps'] = int(e.get('steps', 0))
            w['stopped'] = e.get('stopped') == '1'
            items = [(r.aid, str(r.idx), r.kind, r.kv) for r in recs if r.t == 'R']
            w['outcome'] = outcome_of_items(items)
            if e.get('assert') == '1':
                w['assert_key'] = assert_key_of_items(items)
            w['complete'] = (e.get('remaining') == '0' and not w['stopped'] and e.get('assert') != '1')
        if w['deadlock']:
            w['sig'] = deadlock_sig_of_stderr(eruns.get(i, ''))
        res.append(w)
    return res


def walk_T(w):
    """T records of a walk run with mcinfo -> list of dict(step, aid, tc, type, str, ob)"""
    out = []
    for r in w['recs']:
        if r.t == 'T':
            d = dict(r.kv)
            d['step'] = int(r.args[0])
            out.append(d)
    return out


def walk_dep(w):
    """-> list of rows, row i = string over '.', '0', '1' (dep of i with j > i), as computed by dispatch_depends"""
    rows = {}
    rrows = {}
    for r in w['recs']:
        if r.t == 'D':
            rows[int(r.args[0])] = r.kv.get('dep', '')
            rrows[int(r.args[0])] = r.kv.get('rdep', '')
    n = len(rows)
    return [rows[i] for i in range(n)], [rrows[i] for i in range(n)]


def foata(w):
    """Foata normal form of the execution of a walk run with mcinfo=1: tuple of levels, each a sorted tuple of labels
    (aid, k-th transition of that actor, type, times considered). Two executions are Mazurkiewicz-equivalent under the
    checker's own dependency relation iff their normal forms are equal."""
    T = walk_T(w)
    dep, _ = walk_dep(w)
    n = len(T)
    if len(dep) != n:
        return None
    level = [0] * n
    cnt = {}
    labels = []
    for j in range(n):
        a = T[j]['aid']
        cnt[a] = cnt.get(a, 0) + 1
        labels.append((int(a), cnt[a], T[j]['type'], int(T[j].get('tc', 0))))
        lv = 0
        for i in range(j):
            if dep[i][j] == '1':
                lv = max(lv, level[i] + 1)
        level[j] = lv
    out = {}
    for j in range(n):
        out.setdefault(level[j], []).append(labels[j])
    return tuple(tuple(sorted(out[k])) for k in sorted(out))


# ------------------------------------------------------------------------------------------------------- replay
def run_replay(plan, scratch, path, timeout=30, tag='rp'):
    """s4usim out of the checker with --cfg=model-check/replay:<path> (what the report tells the user to do)
    -> dict(rc, kind in deadlock|assert|complete|further|error, sig, outcome, stdout, msg)"""
    need_binaries()
    pf = _write_plan(plan, scratch, tag, {})
    cmd = [s4usim(), pf, '--cfg=model-check/replay:' + path_cfg(path)] + LOGFMT
    rc, out, err, to = dst.run_proc(cmd, timeout=timeout, cwd=scratch, env=child_env())
    _rm(pf)
    text = err.decode('utf-8', 'replace')
    log = out.decode('utf-8', 'replace')
    recs = s4u.parse_log(log)
    kind, msg = 'error', ''
    if to:
        kind, msg = 'hang', 'replay did not finish in %ds' % timeout
    elif 'DEADLOCK detected' in text:
        kind = 'deadlock'
    elif 'MC assertion failed' in text:
        kind = 'assert'
    elif 'no actor remains to be executed' in text:
        kind = 'complete'
    elif 'The application could run further' in text:
        kind = 'further'
    else:
        tail = [l for l in text.split('\n') if l.strip()]
        msg = ' | '.join(tail[-3:])[:400]
    items = [(r.aid, str(r.idx), r.kind, r.kv) for r in recs if r.t == 'R']
    return dict(rc=rc, kind=kind, sig=deadlock_sig_of_stderr(text) if kind == 'deadlock' else (),
                outcome=outcome_of_items(items), assert_key=assert_key_of_items(items), stdout=log, msg=msg,
                stderr_tail=text[-1500:])


# ------------------------------------------------------------------------------------------------------- model
def validate_walk(plan, w):
    """reference model over one walk -> (list of (class, msg), model) ; (None, model) when the plan is outside the
    model's domain (ill-formed: e.g. relocking a non-recursive mutex)"""
    p = copy.copy(plan)
    p['opts'] = dict(plan.get('opts', {}), mode='walk')
    m = refwalkd.WalkModelD(p, w['recs'])
    m.run()
    if m.illformed:
        return None, m
    v = list(m.viol)
    if w['crashed']:
        v.append(('crash', 'walker crashed (%s)' % w['crashed']))
        return v, m
    if w['end'] is None:
        v.append(('crash', 'walk log truncated (no walk_end record)'))
        return v, m
    if w['stopped'] or w['assert_key'] is not None or w['end'].get('assert') == '1':
        return v, m
    real_blocked = {}
    for r in w['recs']:
        if r.t == 'S' and r.kind == 'blocked':
            real_blocked[r.aid] = int(r.kv['op'])
    mb = m.blocked_set()
    pend = m.pending
    if m.deadlock_snapshot is not None:
        mb, pend = m.deadlock_snapshot
    if w['deadlock']:
        for aid, op in sorted(real_blocked.items()):
            if aid not in mb:
                v.append(('final_stuck', 'walk ended in deadlock with %s blocked at op %d, but in the reference semantics '
                          'that operation can complete' % (aid, op)))
    else:
        for aid, key in sorted(mb.items()):
            v.append(('final_missed_block', 'walk ended with every actor terminated but the reference model has %s '
                      'blocked at op %d' % (aid, key[2])))
    return v, m


# ------------------------------------------------------------------------------------------------------- sizes
TRANSITIONS = dict(lock=2, trylock=1, unlock=1, acquire=2, acquire_timeout=2, release=1, cvwait=3, cvwait_for=3,
                   notify_one=1, notify_all=1, barrier=2, put=2, get=2, put_async=1, get_async=1, wait=1, test=1,
                   wait_any=1, test_any=1, iprobe=1, create=1, join=1, sleep=1, mc_random=1, exit=1, assert_last=0,
                   mput=2, mget=2, mput_async=1, mget_async=1)


def interleavings_bound(plan):
    """multinomial of the per-actor transition counts (upper bound of the number of complete executions when no
    transition offers several values); MC_random and wait_any/test_any multiply it"""
    counts = []
    mult = 1
    for a in plan['actors']:
        n = 0
        for op in a['ops']:
            n += TRANSITIONS.get(op[0], 1)
            if op[0] == 'mc_random':
                mult *= int(op[2]) - int(op[1]) + 1
            elif op[0] in ('wait_any', 'test_any'):
                mult *= 2
        counts.append(n)
    tot = sum(counts)
    res = math.factorial(tot)
    for c in counts:
        res //= math.factorial(c)
    return res * mult, tot
