"""Shared plan generation / shrinking helpers for engine A checks."""
import copy
import json

from rng import Rng

FACTORIES = ['raw', 'boost', 'thread']


def base_plan(seed, nhosts=2, rng=None, factory=None, speeds=None):
    r = rng or Rng(seed, 'platform')
    hosts = []
    for i in range(nhosts):
        hosts.append(dict(name='h%d' % i, cores=1, speeds=[(speeds or [1e9])[i % len(speeds or [1])]]))
    plan = dict(seed=seed, cfg=['contexts/factory:%s' % (factory or r.choice(FACTORIES))], opts={}, hosts=hosts,
                links=[], routes=[], objects={}, actors=[])
    return plan


def full_mesh(plan, r, lat_choices=(0.0, 1e-3, 0.25), bw_choices=(1e6, 1e8), shared_backbone=False):
    hs = [h['name'] for h in plan['hosts']]
    n = 0
    for i in range(len(hs)):
        for j in range(i + 1, len(hs)):
            ln = 'l%d' % n
            n += 1
            plan['links'].append(dict(name=ln, bw=r.choice(list(bw_choices)), lat=r.choice(list(lat_choices)),
                                      policy='SHARED'))
            plan['routes'].append(dict(src=hs[i], dst=hs[j], links=[ln], sym=True))


def think(r, zero_p=0.3):
    if r.chance(zero_p):
        return 0.0
    return r.randint(1, 8) * 0.25


def knobs(plan, r, h2_p=0.5, layout_p=0.3, walk_p=0.0):
    if walk_p and r.chance(walk_p):
        # engine A': the in-process seeded scheduler picks one enabled actor per step (MC computational model)
        plan['opts']['mode'] = 'walk'
        plan['opts']['walk'] = r.choice(['uniform', 'uniform', 'sticky', 'pct1', 'pct2', 'pct3'])
        plan['opts']['walkseed'] = str(r.randint(1, 2 ** 31))
        plan['opts']['maxsteps'] = '3000'
        return
    if r.chance(h2_p):
        plan['opts']['h2'] = str(r.randint(1, 2 ** 31))
    if r.chance(layout_p):
        plan['opts']['layout'] = str(r.randint(1, 2 ** 31))


def signature_of_calls(recs):
    """interleaving signature: the global sequence of (actor, op kind, first arg) call records + fault ops"""
    import hashlib
    h = hashlib.sha256()
    for r in recs:
        if r.t == 'C':
            h.update(('%s:%s:%s;' % (r.aid, r.kind, r.args[0] if r.args else '')).encode())
        elif r.t == 'S' and r.kind in ('step',):
            h.update(('s%s;' % r.kv.get('aid')).encode())
    return h.hexdigest()[:16]


def shrink_plan(plan, keep_ops=1):
    """generic candidates: fewer actors, fewer ops, simpler numbers, fewer knobs"""
    acts = plan['actors']
    # drop an actor
    if len(acts) > 1:
        for i in range(len(acts)):
            p = copy.deepcopy(plan)
            del p['actors'][i]
            yield p
    # drop op chunks
    for i, a in enumerate(acts):
        n = len(a['ops'])
        size = n // 2
        while size >= 1:
            for st in range(0, n, size):
                if n - min(size, n - st) < 0:
                    continue
                p = copy.deepcopy(plan)
                del p['actors'][i]['ops'][st:st + size]
                yield p
            size //= 2
    # knobs
    for k in ('h2', 'layout'):
        if k in plan.get('opts', {}):
            p = copy.deepcopy(plan)
            del p['opts'][k]
            yield p
    # numbers: sleeps to 0 / 1
    for i, a in enumerate(acts):
        for j, op in enumerate(a['ops']):
            if op[0] == 'sleep' and op[1] not in (0.0, 1.0):
                for v in (0.0, 1.0):
                    p = copy.deepcopy(plan)
                    p['actors'][i]['ops'][j][1] = v
                    yield p
    # factory
    if plan.get('cfg') and plan['cfg'][0] != 'contexts/factory:raw' and plan['cfg'][0].startswith('contexts/factory'):
        p = copy.deepcopy(plan)
        p['cfg'][0] = 'contexts/factory:raw'
        yield p


def small_desc(plan):
    return dict(cfg=plan.get('cfg'), opts=plan.get('opts'), objects=plan.get('objects'),
                actors=[dict(id=a['id'], host=a['host'], ops=[' '.join(str(x) for x in op) for op in a['ops']])
                        for a in plan['actors']])
