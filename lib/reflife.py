"""Reference checks for actor lifecycle (C11) and exact dates (C03) over an engine-A event log."""
from refsync import close, EPS


class Incarnation:
    def __init__(self, aid, inc, pid, start, host):
        self.aid, self.inc, self.pid, self.start, self.host = aid, inc, pid, start, host
        self.end = None          # clock of actor_end (body finished normally)
        self.term = None         # clock of actor_term
        self.term_seq = None
        self.on_exit = []        # (k, failed, clock)
        self.registered = []     # k values in registration order
        self.killed_at = None    # (clock, by) first kill request handled
        self.kill_time = None
        self.daemon_from = None
        self.exited = False


class Life:
    def __init__(self, plan, recs):
        self.plan = plan
        self.recs = recs
        self.viol = []
        self.by_pid = {}
        self.by_aid = {}         # aid -> list of incarnations
        self.stats = dict(kills=0, joins=0, join_timeouts=0, kill_times=0, suspends=0, restarts=0, daemons_killed=0,
                          on_exit_calls=0, host_failures=0)
        self.specs = {a['id']: a for a in plan['actors']}
        self.build()

    def v(self, cls, msg):
        if len(self.viol) < 12:
            self.viol.append((cls, msg))

    def spec_of(self, aid):
        return self.specs.get(aid.split('#')[0])

    def build(self):
        self.end_clock = 0.0
        self.onexit_recs = []
        self.sim_end = None
        self.deadlock = False
        for r in self.recs:
            if r.clock is not None:
                self.end_clock = max(self.end_clock, r.clock)
            if r.t != 'S':
                continue
            if r.kind == 'actor_start':
                inc = Incarnation(r.aid, int(r.kv['inc']), int(r.kv['pid']), r.clock, r.kv.get('host'))
                sp = self.spec_of(r.aid)
                if sp:
                    if sp.get('killtime') is not None and inc.inc == 0:
                        inc.kill_time = sp['killtime']
                    if sp.get('daemon'):
                        inc.daemon_from = r.clock
                self.by_pid[inc.pid] = inc
                self.by_aid.setdefault(r.aid, []).append(inc)
            elif r.kind == 'actor_end':
                i = self.cur(r.aid)
                if i:
                    i.end = r.clock
            elif r.kind == 'actor_term':
                i = self.by_pid.get(int(r.kv['pid']))
                if i:
                    i.term = r.clock
                    i.term_seq = r.seq
            elif r.kind == 'on_exit':
                self.onexit_recs.append((r.aid, int(r.kv.get('regpid', -1)), int(r.kv['k']), r.kv['failed'] == '1', r.clock,
                                         r.seq))
                self.stats['on_exit_calls'] += 1
            elif r.kind == 'on_exit_registered':
                i = self.by_pid.get(int(r.kv.get('regpid', -1)))
                if i is not None:
                    i.registered.append(int(r.kv['k']))
            elif r.kind == 'simulation_end':
                self.sim_end = r.clock
            elif r.kind == 'deadlock':
                self.deadlock = True

    def attribute_on_exit(self):
        """an on_exit record belongs to the incarnation of that actor which terminates next (a restarted incarnation
        inherits, and runs again, the callbacks registered by incarnation 0)"""
        for aid, inc0, k, failed, clock, seq in self.onexit_recs:
            lst = [i for i in self.by_aid.get(aid, []) if i.term_seq is not None and i.term_seq > seq]
            tgt = min(lst, key=lambda i: i.term_seq) if lst else self.cur(aid)
            if tgt is not None:
                tgt.on_exit.append(((inc0, k), failed, clock, seq))

    def cur(self, aid, before_seq=None):
        lst = self.by_aid.get(aid)
        return lst[-1] if lst else None

    # ------------------------------------------------------------------------------------------------------------
    def check(self, suspend_rules=True):
        calls = {}
        suspended = {}   # pid -> seq of the sub-round after which it is suspended
        for r in self.recs:
            key = (r.aid, r.inc, r.idx)
            if r.t == 'C':
                calls[key] = r
                if r.kind == 'exit':
                    i = self.inc_of(r.aid, r.inc)
                    if i:
                        i.exited = True
            elif r.t == 'R':
                c = calls.get(key)
                if c is None or r.kv.get('skip') == '1':
                    continue
                if r.kind == 'join':
                    self.check_join(c, r)
                elif r.kind == 'kill' and 'target' in r.kv:
                    t = self.by_pid.get(int(r.kv['target']))
                    self.stats['kills'] += 1
                    if t is not None:
                        if t.killed_at is None:
                            t.killed_at = (c.clock, c.aid, c.seq)
                elif r.kind == 'set_kill_time' and 'target' in r.kv:
                    t = self.by_pid.get(int(r.kv['target']))
                    if t is not None and float(c.args[1]) > c.clock:
                        # requests are handled in the order of their call records: the last call wins
                        if getattr(t, 'kt_seq', -1) < c.seq:
                            t.kill_time = float(c.args[1])
                            t.kt_seq = c.seq
        # kills without R (suicide / kill_all / killer killed): use C records
        for key, c in calls.items():
            if c.kind == 'kill_all':
                for lst in self.by_aid.values():
                    for i in lst:
                        if i.aid != c.aid and i.start <= c.clock and (i.term is None or i.term >= c.clock) and \
                                i.killed_at is None:
                            i.killed_at = (c.clock, c.aid, c.seq)
        self.attribute_on_exit()
        self.check_on_exit()
        self.check_kill_dates()
        self.check_daemons()
        return self.viol

    def inc_of(self, aid, inc):
        for i in self.by_aid.get(aid, []):
            if i.inc == inc:
                return i
        return None

    def check_join(self, c, r):
        self.stats['joins'] += 1
        if 'target' not in r.kv:
            return
        t = self.by_pid.get(int(r.kv['target']))
        if t is None:
            return
        to = float(c.args[1]) if len(c.args) > 1 else None
        # termination date of the target as seen by join: the date at which it ended
        term = t.term
        if term is not None and t.term_seq is not None and t.term_seq < c.seq:
            want = c.clock          # already dead: immediate
        else:
            cands = []
            if term is not None:
                cands.append(term)
            if to is not None and to >= 0:
                cands.append(c.clock + to)
            if not cands:
                self.v('join_early', 'join(%s) by %s returned at %r although the target never terminated' %
                       (c.args[0], c.aid, r.clock))
                return
            want = min(cands)
            if to is not None and to >= 0 and (term is None or c.clock + to < term - EPS):
                self.stats['join_timeouts'] += 1
        if not close(r.clock, want):
            self.v('join_date', 'join(%s%s) by %s called at %r returned at %r; target (pid %d) terminated at %r, so it '
                   'should return at %r' % (c.args[0], (', %r' % to) if to is not None else '', c.aid, c.clock, r.clock,
                                            t.pid, term, want))

    def check_on_exit(self):
        for aid, lst in self.by_aid.items():
            for i in lst:
                if i.term is None:
                    continue
                ks = [k for k, _, _, _ in i.on_exit]
                want = [(i.pid, k) for k in reversed(i.registered)]
                if i.inc > 0 and lst and lst[0].inc == 0:
                    # inherited over the restart: what incarnation 0 had registered in the kernel, i.e. what ran when
                    # it died (a registration in flight at that time counts), in the same order
                    want += [kk for kk, _, _, _ in lst[0].on_exit if kk[0] == lst[0].pid]
                if ks != want and len(ks) == len(want) + 1 and ks[1:] == want and ks[0] not in want:
                    ks = ks[1:]   # a registration whose simcall was being handled when the actor was killed
                if ks != want:
                    # callbacks registered by an op interrupted by the death may be missing from 'registered'
                    self.v('on_exit_order', 'actor %s (incarnation %d) terminated at %r: on_exit callbacks ran as %s, '
                           'registered %s (expected reverse order, each exactly once)' % (aid, i.inc, i.term, ks, i.registered))
                for k, failed, clock, seq in i.on_exit:
                    if not close(clock, i.term):
                        self.v('on_exit_date', 'on_exit of %s ran at %r but the actor terminated at %r' % (aid, clock, i.term))
                    killed = i.killed_at is not None or (i.kill_time is not None and close(i.kill_time, i.term)
                                                         and i.end is None)
                    if i.end is not None and not killed and failed and not i.exited:
                        self.v('on_exit_failed', 'actor %s ended normally at %r but on_exit saw failed=true' % (aid, i.end))

    def check_kill_dates(self):
        for aid, lst in self.by_aid.items():
            for i in lst:
                if i.kill_time is not None and i.kill_time > i.start:
                    self.stats['kill_times'] += 1
                    if i.term is None:
                        if self.end_clock > i.kill_time + EPS:
                            self.v('kill_time_missed', 'actor %s has kill time %r but was still alive at the end (%r)' %
                                   (aid, i.kill_time, self.end_clock))
                    elif i.term > i.kill_time + EPS:
                        self.v('kill_time_late', 'actor %s has kill time %r but terminated at %r' % (aid, i.kill_time, i.term))
                if i.killed_at is not None:
                    kc = i.killed_at[0]
                    if i.term is None:
                        self.v('kill_ignored', 'actor %s was killed by %s at %r but never terminated' % (aid, i.killed_at[1], kc))
                    elif i.term > kc + EPS and (i.end is None or i.end > kc + EPS):
                        self.v('kill_late', 'actor %s was killed by %s at %r but terminated at %r' %
                               (aid, i.killed_at[1], kc, i.term))

    def check_daemons(self):
        """when the last non-daemon ends, all daemons are terminated at that date and the simulation ends"""
        if self.deadlock:
            return
        last_regular = None
        daemons = []
        for aid, lst in self.by_aid.items():
            for i in lst:
                sp = self.spec_of(aid)
                is_d = i.daemon_from is not None
                if is_d:
                    daemons.append(i)
                elif i.term is not None:
                    last_regular = i.term if last_regular is None else max(last_regular, i.term)
        if last_regular is None:
            return
        for d in daemons:
            if d.term is None:
                self.v('daemon_alive', 'daemon %s still alive although the last regular actor ended at %r' %
                       (d.aid, last_regular))
            elif d.term > last_regular + EPS:
                self.v('daemon_late', 'daemon %s terminated at %r, after the last regular actor ended (%r)' %
                       (d.aid, d.term, last_regular))
            elif d.end is None and close(d.term, last_regular):
                self.stats['daemons_killed'] += 1
