"""Base class of the engine D checks (C38 C40 C41 C43): simgrid-mc is the system under test."""
import json

import dst
import gen
import mcd
import mcdgen


class EngineDCheck(dst.Check):
    level = 'exploration'
    workers = 8
    shrink_budget = 14
    max_reported = 3
    real_vs_stub = {
        'simgrid-mc (checker process, RemoteApp/CheckerSide protocol, fork of the application per explored path)': 'real',
        'explorers DFS / BeFS, guiding strategies none / uniform': 'real',
        'reductions none / dpor / sdpor / odpor / udpor (sleep sets, wakeup trees, unfolding)': 'real',
        'transition (de)serialisation, dependency LUT, RecordTrace, model-check/replay': 'real',
        'verified application': 'generated plan interpreted by /verif/sim/s4usim on the real kernel (stub of a user '
                                'program); it reports its terminal outcomes through a side file',
        'reference': 'walker D = in-process seeded scheduler over the real kernel in the checker\'s computational model '
                     '(not the checker), reference model lib/refwalkd.py (pure Python)',
        'wall clock': 'only as a kill budget; an exploration cut by the budget gives no verdict (C43: hang rule)'}
    mc_timeout = dict(none=90, reduced=60)

    # ---- helpers shared by the checks
    def walks(self, plan, scratch, specs, tag='w'):
        ws = mcd.run_walks(plan, scratch, specs, tag=tag)
        viol = []
        nvalid = 0
        for i, w in enumerate(ws):
            v, _ = mcd.validate_walk(plan, w)
            if v is None:
                continue  # outside the reference model's domain
            nvalid += 1
            for c, m in v:
                viol.append(('ref_' + c, 'walk %d (%s seed %s): %s' % (i, w['spec'].get('walk', 'path'),
                                                                         w['spec'].get('walkseed', '-'), m)))
        return ws, viol, nvalid

    def explore(self, plan, scratch, cfg, tag, **kw):
        to = self.mc_timeout['none' if cfg['red'] == 'none' else 'reduced']
        return mcd.run_mc(plan, scratch, cfg['red'], algo=cfg.get('algo', 'DFS'), strategy=cfg.get('strategy', 'none'),
                          randseed=cfg.get('randseed'), timeout=kw.pop('timeout', to), tag=tag, **kw)

    @staticmethod
    def summary(r):
        """JSON-able digest of one exploration"""
        return dict(config=r['config'], rc=r['rc'], finished=r['finished'], timed_out=r['timed_out'],
                    outcomes=sorted(r['outcomes']), dl_sigs=sorted('; '.join(s) for s in r['dl_sigs']),
                    asserts=sorted(r['asserts']), states=r['states'], traces=r['traces'], replays=r['replays'],
                    visited=r['visited'], events=r['events'], nreports=len(r['reports']),
                    complete_paths=len(r['complete_paths']), unsupported=r['unsupported'],
                    criticals=r['criticals'][:3], wall=r.get('wall'),
                    empty_program=r.get('empty_program', False), stalled=r.get('stalled', False), looping=r.get('looping', False),
                    stopped_at_error=r.get('stopped_at_error', False), illegal=r.get('illegal', []))

    def shrink(self, plan):
        return mcdgen.shrink(plan)

    def describe(self, plan, res):
        d = gen.small_desc(plan)
        d['mc'] = plan.get('mc')
        d['bound'] = plan.get('bound')
        d['explorations'] = [dict(config=s['config'], rc=s['rc'], finished=s['finished'], states=s['states'],
                                  traces=s['traces'], outcomes=len(s['outcomes'])) for s in res.get('mc', [])]
        return d

    def oracle(self, plan, res):
        return [tuple(x) for x in res.get('viol', [])]

    def known_matchers(self):
        """predicates of the findings proposed in known/engine-d-findings.proposed.json (as narrow as the evidence allows)"""
        def ops(plan):
            return set(op[0] for a in plan['actors'] for op in a['ops'])

        def cv_reversible_race(plan, cls, msg):
            # CondvarTransition::reversible_race / is_cv_wait_fireable_without_transition (sdpor, odpor only): aborts,
            # and races between a notification and the two steps of a wait declared not reversible (missed executions)
            o = ops(plan)
            if not (o & {'cvwait', 'cvwait_for'}):
                return False
            if ('_sdpor_' in cls or '_odpor_' in cls or cls.startswith('crash_cv')) and \
                    ('condvar wait is always preceeded' in msg or 'lock_handle > 0' in msg):
                return True
            return cls.startswith('miss_') and ('_sdpor' in cls or '_odpor' in cls) and bool(o & {'notify_one', 'notify_all'})

        def befs_after_deadlock(plan, cls, msg):
            # BeFSExplorer computes the races of a leaf only when every actor has terminated
            return (cls.startswith('miss_') and '_befs' in cls and 'exit 2' in msg)

        def befs_uniform_multivalued(plan, cls, msg):
            return ((cls.startswith('miss_') or cls.startswith('missed_')) and cls.endswith('_befs_uniform') and
                    bool(ops(plan) & {'mc_random', 'wait_any', 'test_any'}))

        def join_after_sleep(plan, cls, msg):
            return 'Unexpected transition type ACTOR_SLEEP' in msg and {'join', 'sleep'} <= ops(plan)

        def initial_deadlock(plan, cls, msg):
            return cls == 'miss_initial_deadlock'

        def odpor_multivalued(plan, cls, msg):
            # sdpor / odpor with transitions that have several values (MC_random, waitany, testany): the value recorded for
            # one transition of an actor is applied to another one: loops, crashes, values out of range, missed executions
            if not (ops(plan) & {'mc_random', 'wait_any', 'test_any'}):
                return False
            if (cls == 'hang_mc_random' or cls.startswith('odpor_count') or cls.startswith('odpor_dup') or
                    cls.startswith('missed_odpor') or cls.startswith('missed_sdpor')) and \
                    ('odpor' in msg or 'sdpor' in msg):
                return True
            return any(cls.startswith(p + r) for p in ('loop_', 'abort_', 'illegal_value_', 'path_invalid_', 'path_outcome_',
                                                       'miss_outcome_', 'miss_assert_', 'miss_deadlock_',
                                                       'miss_outcome_after_assert_', 'miss_assert_after_assert_',
                                                       'miss_deadlock_after_assert_')
                       for r in ('odpor', 'sdpor'))

        def first_transition_empty_path(plan, cls, msg):
            # DFSExplorer::get_record_trace returns an empty trace while stack_ is still null (first transition)
            return (cls.startswith('path_unreal_') or cls.startswith('replay_')) and ("path '')" in msg or "replay:''" in msg)

        def odpor_befs_uniform(plan, cls, msg):
            # odpor under BeFS with the uniform strategy: equivalent executions explored (the checker's own verification aborts)
            # or classes never explored
            return cls in ('odpor_dup_own_befs_uniform', 'odpor_dup_befs_uniform', 'odpor_count_befs_uniform')

        def udpor_reports(plan, cls, msg):
            return cls in ('path_unreal_udpor', 'replay_udpor', 'verdict_udpor', 'replay_nondet_udpor') and 'udpor/' in msg

        def sdpor_actor_minus_one(plan, cls, msg):
            return cls.startswith('abort_sdpor_Actor_does_not_exist') and 'Actor -1 does not exist' in msg

        def after_assert(plan, cls, msg):
            return cls.startswith('miss_') and '_after_assert_' in cls

        def udpor_incomplete(plan, cls, msg):
            return cls in ('miss_outcome_udpor', 'miss_deadlock_udpor', 'miss_assert_udpor', 'missed_udpor') and \
                msg.startswith('udpor/')

        def orphan_async_comm(plan, cls, msg):
            # an asynchronous communication still pending when its actor terminates
            if not cls.startswith('ref_'):
                return False
            for a in plan['actors']:
                started = [op[1] for op in a['ops'] if op[0] in ('put_async', 'get_async')]
                waited = set(x for op in a['ops'] if op[0] == 'wait' for x in op[1:])
                if any(x not in waited for x in started):
                    return True
            return False

        def udpor_exit_status(plan, cls, msg):
            return cls == 'verdict_udpor' and 'exit status 0' in msg

        def maxerr_paths(plan, cls, msg):
            return cls.startswith('path_unreal_maxerr_')

        def message_queue(plan, cls, msg):
            return (cls.startswith('hang_mq') or cls.startswith('decode_blocked_MESS')) and \
                bool(ops(plan) & {'mput', 'mget', 'mput_async', 'mget_async'})
        return dict(cv_reversible_race=cv_reversible_race, join_after_sleep=join_after_sleep,
                    initial_deadlock=initial_deadlock, odpor_multivalued=odpor_multivalued,
                    udpor_incomplete=udpor_incomplete, udpor_exit_status=udpor_exit_status, maxerr_paths=maxerr_paths,
                    message_queue=message_queue, orphan_async_comm=orphan_async_comm,
                    befs_after_deadlock=befs_after_deadlock, befs_uniform_multivalued=befs_uniform_multivalued,
                    after_assert=after_assert, sdpor_actor_minus_one=sdpor_actor_minus_one,
                    first_transition_empty_path=first_transition_empty_path, udpor_reports=udpor_reports,
                    odpor_befs_uniform=odpor_befs_uniform)

    def signature(self, plan, res):
        return res.get('hash', '')

    @staticmethod
    def mc_stats(res):
        st = dict(mc_executions=0, mc_cut_by_cap=0, mc_states=0, mc_transitions_replayed=0, mc_traces=0, mc_unsupported=0,
                  walks=0, walk_steps=0, distinct_outcomes=0, fault_schedules=0)
        for s in res.get('mc', []):
            st['mc_executions'] += 1
            red = s['config'].split('/')[0]
            st['mc_runs_' + red] = st.get('mc_runs_' + red, 0) + 1
            if s['timed_out']:
                st['mc_cut_by_cap'] += 1
            if s['unsupported']:
                st['mc_unsupported'] += 1
            if s.get('stopped_at_error'):
                st['mc_stopped_at_first_error'] = st.get('mc_stopped_at_first_error', 0) + 1
            st['mc_states'] += s['states'] or 0
            st['mc_traces'] += s['traces'] or 0
            st['mc_traces_' + red] = st.get('mc_traces_' + red, 0) + (s['traces'] or 0)
            st['mc_transitions_replayed'] += s['replays'] or 0
        st['walks'] = res.get('nwalks', 0)
        st['fault_schedules'] = res.get('nwalks', 0)
        st['walk_steps'] = res.get('walk_steps', 0)
        st['distinct_outcomes'] = len(res.get('ref_outcomes', []))
        return st


def slug(msg, words=5):
    """stable short id of an error message: its first words without digits or punctuation"""
    import re
    w = [x for x in re.sub(r'[^A-Za-z ]', ' ', msg).split() if len(x) > 1]
    return '_'.join(w[:words]) or 'nomsg'


def loop_msg(r):
    """message for an exploration that goes round in circles (nothing in it may depend on when the run was stopped)"""
    cnt = {}
    for p in r['complete_paths']:
        cnt[p] = cnt.get(p, 0) + 1
    rep = sorted(p for p, n in cnt.items() if n >= 3)
    return ('simgrid-mc %s never ends: it explores the same complete execution again and again (e.g. %s, printed at least 3 '
            'times before the run was stopped)' % (r['config'], rep[0] if rep else '?'))


def abort_msg(r):
    """the message of the assertion / xbt_die that killed the checker: the last error line that is not part of a dump"""
    c = [x for x in r['criticals'] if not x.startswith('  ') and not x.startswith('Event ')]
    return (c or r['criticals'])[-1]


def abort_class(r):
    """class of an exploration that died: reduction + slug of the first error message (so that shrinking stays on the
    same failure)"""
    if r['criticals']:
        return 'abort_%s_%s' % (r['red'], slug(abort_msg(r)))
    if r['rc'] is not None and r['rc'] < 0:
        return 'abort_%s_signal%d' % (r['red'], -r['rc'])
    return 'abort_%s_rc%s' % (r['red'], r['rc'])


def hash_of(res):
    """hash over what the verdict depends on: the reference sets and the digest of every exploration that finished"""
    parts = [json.dumps(res.get('W', {}), sort_keys=True)]
    for s in res.get('mc', []):
        if s['finished']:
            parts.append(json.dumps([s['config'], s['rc'], s['outcomes'], s['dl_sigs'], s['asserts']], sort_keys=True))
        else:
            parts.append(json.dumps([s['config'], 'cut' if s['timed_out'] else 'rc=%s' % s['rc']]))
    parts.append(json.dumps(sorted(res.get('viol', []))))
    return dst.sha(*parts)
