"""Engine C (mpisim) shared code: byte patterns, platform files, plan -> per-rank op lists, runner, log parser,
history oracles (point-to-point, datatypes, communicators, partial shared buffers, privatised globals), statistics,
signature, shrinking and the seeded generator. Checks c28/c30/c32/c35/c36 are thin profiles over this module.

High level plan (JSON):
  np, cfg {smpi option: value}, plat {...}, hostmap [host index per rank], types [type descriptions, see refmpi],
  setup [communicator / group steps, SPMD], psm {str(rank): {'s': layout, 'r': layout}} (C35), gvars (C36),
  items [global order of: message | barrier | coll(step) | pack test], see build().
Everything an oracle needs is recomputed from the plan by build(); the interpreter only executes."""
import os
import shutil

import dst
import refmpi as R
from rng import Rng

ANY = R.ANY
TABM = 65521
GUARD = 16
POOLSZ = 16384
TYPE_SLOT0 = 10
SB_HEAP, RB_HEAP, POOL0, NPOOLS, SB_PSM, RB_PSM, PACKB = 0, 1, 2, 16, 18, 19, 20


def sg_root():
    return os.environ.get('VERIF_SG', dst.SG)


def mpisim_bin():
    return os.environ.get('VERIF_MPISIM', dst.BIN + '/mpisim')


# ---------------------------------------------------------------------------------------------------------
# byte patterns (must mirror sim/mpisim.c)
# ---------------------------------------------------------------------------------------------------------
def _mk_tab():
    x = 12345
    out = bytearray(TABM)
    for i in range(TABM):
        x = (x * 1103515245 + 12345) & 0xFFFFFFFF
        out[i] = (x >> 16) & 0xFF
    return bytes(out)


TAB = _mk_tab()
TAB3 = TAB * 3
_XOR = {}


def _xor(data, k):
    if k == 0:
        return data
    t = _XOR.get(k)
    if t is None:
        t = _XOR[k] = bytes(i ^ k for i in range(256))
    return data.translate(t)


def _tabslice(start, n):
    start %= TABM
    if n <= 2 * TABM:
        return TAB3[start:start + n]
    return bytes(TAB[(start + i) % TABM] for i in range(n))


def pat_msg(m, n, start=0):
    return _xor(_tabslice((m * 7919) % TABM + start, n), (m * 31) & 255)


def pat_canary(rank, b, off, n):
    return _xor(_tabslice(off + 977 * b + 131 * rank + 7, n), 0x5a)


def pat_poison(n):
    return _xor(_tabslice(31337, n), 0xff)


# ---------------------------------------------------------------------------------------------------------
# platform
# ---------------------------------------------------------------------------------------------------------
def platform_xml(plat):
    h = ['<?xml version="1.0"?>', '<!DOCTYPE platform SYSTEM "https://simgrid.org/simgrid.dtd">',
         '<platform version="4.1">']
    if plat['kind'] == 'cluster':
        extra = ''
        if plat.get('bb_bw'):
            extra += ' bb_bw="%dBps" bb_lat="%gs"' % (plat['bb_bw'], plat['bb_lat'])
        if plat.get('lo_bw'):
            extra += ' loopback_bw="%dBps" loopback_lat="%gs"' % (plat['lo_bw'], plat['lo_lat'])
        h.append(' <zone id="AS0" routing="Full">')
        h.append('  <cluster id="c" prefix="n" suffix="" radical="0-%d" speed="%gf" bw="%dBps" lat="%gs"%s/>' %
                 (plat['nh'] - 1, plat['speed'], plat['bw'], plat['lat'], extra))
        h.append(' </zone>')
    else:
        h.append(' <zone id="AS0" routing="Full">')
        for i in range(plat['nh']):
            h.append('  <host id="n%d" speed="%gf"/>' % (i, plat['speeds'][i]))
        for i in range(plat['nh']):
            h.append('  <link id="l%d" bandwidth="%dBps" latency="%gs"/>' % (i, plat['bws'][i], plat['lats'][i]))
            h.append('  <link id="lo%d" bandwidth="%dBps" latency="%gs" sharing_policy="FATPIPE"/>' %
                     (i, plat['lo_bw'], plat['lo_lat']))
        for i in range(plat['nh']):
            h.append('  <route src="n%d" dst="n%d"><link_ctn id="lo%d"/></route>' % (i, i, i))
            for j in range(i + 1, plat['nh']):
                h.append('  <route src="n%d" dst="n%d"><link_ctn id="l%d"/><link_ctn id="l%d"/></route>' % (i, j, i, j))
        h.append(' </zone>')
    h.append('</platform>')
    return '\n'.join(h) + '\n'


def gen_platform(rg, np_):
    nh = rg.randint(max(1, np_ // 2), np_)
    hostmap = [i % nh for i in range(np_)]
    if rg.chance(0.4):
        rg.shuffle(hostmap)
    lat = rg.choice([1e-6, 5e-6, 2e-5, 5e-5, 2e-4, 1e-3])
    bw = rg.choice([10 ** 6, 12500000, 125000000, 1250000000])
    if rg.chance(0.6):
        plat = dict(kind='cluster', nh=nh, speed=rg.choice([1e8, 1e9, 1e10]), bw=bw, lat=lat)
        if rg.chance(0.3):
            plat['bb_bw'] = bw * rg.choice([1, 4])
            plat['bb_lat'] = lat * rg.choice([0.5, 2])
        if rg.chance(0.3):
            plat['lo_bw'] = 498000000
            plat['lo_lat'] = rg.choice([1e-7, 4e-6, 1e-4])
    else:
        plat = dict(kind='star', nh=nh, speeds=[rg.choice([1e8, 1e9, 1e10]) for _ in range(nh)],
                    bws=[bw * rg.choice([1, 2, 10]) for _ in range(nh)],
                    lats=[lat * rg.choice([0.25, 1, 1, 3, 20]) for _ in range(nh)],
                    lo_bw=498000000, lo_lat=rg.choice([1e-7, 4e-6]))
    return plat, hostmap


# ---------------------------------------------------------------------------------------------------------
# running one plan
# ---------------------------------------------------------------------------------------------------------
_RUN_SEQ = [0]


def plan_text(built):
    out = ['np %d' % built.np]
    for r in range(built.np):
        out.append('rank %d' % r)
        for name, args, _ in built.ops[r]:
            out.append(name + ''.join(' %d' % a for a in args))
        out.append('end')
    return '\n'.join(out) + '\n'


def command(plan, d):
    sg = sg_root()
    cfg = plan['cfg']
    cmd = [sg + '/lib/simgrid/smpimain', mpisim_bin(),
           '--cfg=smpi/np:%d' % plan['np'], '--cfg=smpi/hostfile:%s/hf' % d, '--cfg=precision/timing:1e-9',
           '--cfg=smpi/tmpdir:%s' % d, '--cfg=smpi/simulate-computation:no',
           '--log=xbt_cfg.thres:warning', '--log=smpi_config.thres:warning', '--log=smpi_utils.thres:error',
           '--log=no_loc']
    if 'network/model' not in cfg:
        cmd.append('--cfg=network/model:SMPI')
    for k in sorted(cfg):
        cmd.append('--cfg=%s:%s' % (k, cfg[k]))
    cmd += [d + '/plat.xml', d + '/plan.txt']
    return cmd


def run_plan(plan, scratch, timeout=60, keep=False):
    """-> dict(rc, log (str), err (str), timed_out, cmd). Raises dst.Infra when the harness itself is missing/broken."""
    sg = sg_root()
    if not os.path.exists(sg + '/lib/simgrid/smpimain') or not os.path.exists(mpisim_bin()):
        raise dst.Infra('smpimain or mpisim missing (%s, %s)' % (sg, mpisim_bin()))
    built = build(plan)
    _RUN_SEQ[0] += 1
    d = '%s/m%d' % (scratch, _RUN_SEQ[0])
    os.makedirs(d, exist_ok=True)
    try:
        with open(d + '/plan.txt', 'w') as f:
            f.write(plan_text(built))
        with open(d + '/plat.xml', 'w') as f:
            f.write(platform_xml(plan['plat']))
        with open(d + '/hf', 'w') as f:
            f.write(''.join('n%d\n' % h for h in plan['hostmap']))
        cmd = command(plan, d)
        rc, out, err, to = dst.run_proc(cmd, timeout=timeout, env={'LD_LIBRARY_PATH': sg + '/lib'}, cwd=d)
    finally:
        if not keep:
            shutil.rmtree(d, ignore_errors=True)
    err = err.decode(errors='replace')
    if rc == 97 or 'MPISIM-FATAL' in err:
        raise dst.Infra('interpreter rejected the plan: ' + err[-600:])
    if to:
        raise dst.Infra('mpisim run timed out after %ds' % timeout)
    return dict(rc=rc, log=out.decode(errors='replace'), err=err, cmd=cmd, built=built)


class Line:
    __slots__ = ('rank', 'idx', 'name', 't', 'f', 'gpos')

    def __init__(self, rank, idx, name, t, f, gpos):
        self.rank, self.idx, self.name, self.t, self.f, self.gpos = rank, idx, name, t, f, gpos


def parse_log(text, np_):
    """-> (per_rank: list of dict idx->Line, order: [Line] in execution order)"""
    per = [dict() for _ in range(np_)]
    order = []
    for ln in text.split('\n'):
        if not ln:
            continue
        f = ln.split()
        try:
            rank, idx = int(f[0]), int(f[1])
            t = float.fromhex(f[3])
        except (ValueError, IndexError):
            continue
        if not 0 <= rank < np_:
            continue
        L = Line(rank, idx, f[2], t, f[4:], len(order))
        per[rank][idx] = L
        order.append(L)
    return per, order


def parse_status(f, i):
    """f[i] == 'S' ; returns (dict, next index)"""
    assert f[i] == 'S', f[i:i + 3]
    st = dict(src=int(f[i + 1]), tag=int(f[i + 2]), err=f[i + 3], bytes=int(f[i + 4]), cnt=f[i + 5], canc=int(f[i + 6]))
    return st, i + 7


def parse_dump(f):
    """fields after the time of a dump line: ['D', n, 'pos:hex', ...] -> list of (pos, bytes)"""
    assert f[0] == 'D'
    n = int(f[1])
    runs = []
    for tok in f[2:2 + n]:
        p, hx = tok.split(':')
        runs.append((int(p), bytes.fromhex(hx)))
    return runs


def classify_exit(res, np_, per):
    """None when every rank finished; else (class, detail)"""
    fin = all(any(L.name == 'fini' for L in per[r].values()) for r in range(np_))
    if res['rc'] == 0 and fin:
        return None
    err = res['err']
    if 'Deadlock' in err or 'deadlock' in err:
        return ('deadlock', _first_err(err))
    return ('abort', 'exit status %s: %s' % (res['rc'], _first_err(err)))


def _first_err(err):
    keep = [l for l in err.split('\n') if l and 'Configuration change' not in l]
    for l in keep:
        if 'rror' in l or 'ssert' in l or 'Deadlock' in l or 'CRITICAL' in l or 'Segmentation' in l:
            return l[:300]
    return (keep[-1] if keep else '')[:300]


# ---------------------------------------------------------------------------------------------------------
# plan -> per-rank op lists (+ metadata for the oracles)
# ---------------------------------------------------------------------------------------------------------
SEND_NAMES = ['Send', 'Ssend', 'Bsend', 'Rsend', 'Isend', 'Issend', 'Ibsend', 'Irsend']


def tdesc(plan, tref):
    return ['b', tref] if isinstance(tref, str) else plan['types'][tref]


class Built:
    pass


def ref_setup_step(np_, comm, grp, st):
    """apply one communicator/group step to the reference state (comm[r][slot], grp[r][slot]);
    returns per-rank (opname, args, meta) or None when the rank does not execute the step"""
    out = [None] * np_
    op = st['op']
    if op == 'split':
        old = st['old']
        inst = {}
        for r in range(np_):
            g = comm[r].get(old)
            if g is not None:
                inst.setdefault(tuple(g), g)
        res = {}
        for g in inst.values():
            res.update(R.comm_split(g, {w: st['color'][w] for w in g}, {w: st['key'][w] for w in g}))
        for r in range(np_):
            if comm[r].get(old) is None:
                continue
            comm[r][st['new']] = res[r]
            c = st['color'][r]
            out[r] = ('csplit', [st['new'], old, -1 if c == R.UNDEFINED else c, st['key'][r]],
                      dict(r='comm', exp=res[r], slot=st['new'], old=old))
    elif op == 'dup':
        for r in range(np_):
            g = comm[r].get(st['old'])
            if g is None:
                continue
            comm[r][st['new']] = list(g)
            out[r] = ('cdup', [st['new'], st['old']], dict(r='comm', exp=list(g), slot=st['new'], old=st['old']))
    elif op == 'create':
        for r in range(np_):
            g = comm[r].get(st['old'])
            if g is None:
                continue
            gs = st['gmap'][r] if 'gmap' in st else st['g']
            gl = [] if gs == -1 else grp[r].get(gs)
            if gl is None:
                raise ValueError('create with undefined group')
            res = list(gl) if r in gl else None
            comm[r][st['new']] = res
            out[r] = ('ccreate', [st['new'], st['old'], gs], dict(r='comm', exp=res, slot=st['new'], old=st['old']))
    elif op == 'cfree':
        for r in range(np_):
            if comm[r].get(st['c']) is not None:
                comm[r][st['c']] = None
                out[r] = ('cfree', [st['c']], dict(r='rc'))
    elif op == 'ccmp':
        for r in range(np_):
            a, b = comm[r].get(st['a']), comm[r].get(st['b'])
            if a is None or b is None:
                continue
            if st['a'] == st['b']:
                e = 'ident'
            else:
                e = {'ident': 'congruent', 'similar': 'similar', 'unequal': 'unequal'}[R.g_compare(a, b)]
            out[r] = ('ccmp', [st['a'], st['b']], dict(r='cmp', exp=e))
    elif op == 'cgroup':
        for r in range(np_):
            g = comm[r].get(st['c'])
            if g is None:
                continue
            grp[r][st['g']] = list(g)
            out[r] = ('cgroup', [st['g'], st['c']], dict(r='group', exp=list(g)))
    elif op in ('gincl', 'gexcl', 'grincl', 'grexcl'):
        for r in range(np_):
            g = grp[r].get(st['from'])
            if g is None:
                continue
            if op == 'gincl':
                res, args = R.g_incl(g, st['ranks']), [len(st['ranks'])] + list(st['ranks'])
            elif op == 'gexcl':
                res, args = R.g_excl(g, st['ranks']), [len(st['ranks'])] + list(st['ranks'])
            elif op == 'grincl':
                res, args = R.g_range_incl(g, st['ranges']), [len(st['ranges'])] + [x for t in st['ranges'] for x in t]
            else:
                res, args = R.g_range_excl(g, st['ranges']), [len(st['ranges'])] + [x for t in st['ranges'] for x in t]
            grp[r][st['g']] = res
            out[r] = (op, [st['g'], st['from']] + args, dict(r='group', exp=res))
    elif op in ('gunion', 'ginter', 'gdiff'):
        fn = {'gunion': R.g_union, 'ginter': R.g_intersection, 'gdiff': R.g_difference}[op]
        for r in range(np_):
            a = [] if st['a'] == -1 else grp[r].get(st['a'])
            b = [] if st['b'] == -1 else grp[r].get(st['b'])
            if a is None or b is None:
                continue
            res = fn(a, b)
            grp[r][st['g']] = res
            out[r] = (op, [st['g'], st['a'], st['b']], dict(r='group', exp=res))
    elif op == 'gtrans':
        for r in range(np_):
            a, b = grp[r].get(st['a']), grp[r].get(st['b'])
            if a is None or b is None or any(x >= len(a) for x in st['ranks']):
                continue
            out[r] = ('gtrans', [st['a'], st['b'], len(st['ranks'])] + list(st['ranks']),
                      dict(r='gtrans', exp=R.g_translate(a, st['ranks'], b)))
    elif op == 'gcmp':
        for r in range(np_):
            a = [] if st['a'] == -1 else grp[r].get(st['a'])
            b = [] if st['b'] == -1 else grp[r].get(st['b'])
            if a is None or b is None:
                continue
            out[r] = ('gcmp', [st['a'], st['b']], dict(r='cmp', exp=R.g_compare(a, b)))
    elif op == 'ginfo':
        for r in range(np_):
            g = grp[r].get(st['g'])
            if g is None:
                continue
            out[r] = ('ginfo', [st['g']], dict(r='ginfo', exp=list(g), rank=(g.index(r) if r in g else R.UNDEFINED)))
    elif op == 'gfree':
        for r in range(np_):
            if grp[r].get(st['g']) is not None:
                grp[r][st['g']] = None
                out[r] = ('gfree', [st['g']], dict(r='rc'))
    else:
        raise ValueError('unknown setup step %r' % op)
    return out


def _type_ops(desc, alloc, ops):
    """emit constructor ops for a type tree (children first); returns the slot of the root"""
    k = desc[0]
    if k == 'b':
        return R.BASE_SLOT[desc[1]]
    if k == 'struct':
        subs = [_type_ops(s, alloc, ops) for s in desc[3]]
        slot = alloc()
        ops.append(('tstruct', [slot, len(subs)] + list(desc[1]) + list(desc[2]) + subs, dict(r='type', desc=desc)))
        return slot
    if k == 'resized':
        sub = _type_ops(desc[1], alloc, ops)
        slot = alloc()
        ops.append(('tresized', [slot, sub, desc[2], desc[3]], dict(r='type', desc=desc)))
        return slot
    sub = _type_ops(desc[-1], alloc, ops)
    slot = alloc()
    if k == 'contig':
        a = [slot, desc[1], sub]
        nm = 'tcontig'
    elif k == 'vector':
        a = [slot, desc[1], desc[2], desc[3], sub]
        nm = 'tvector'
    elif k == 'hvector':
        a = [slot, desc[1], desc[2], desc[3], sub]
        nm = 'thvector'
    elif k in ('indexed', 'hindexed'):
        a = [slot, len(desc[1])] + list(desc[1]) + list(desc[2]) + [sub]
        nm = 't' + k
    elif k == 'indexed_block':
        a = [slot, len(desc[2]), desc[1]] + list(desc[2]) + [sub]
        nm = 'tindexed_block'
    elif k == 'subarray':
        a = [slot, len(desc[1])] + list(desc[1]) + list(desc[2]) + list(desc[3]) + [desc[4], sub]
        nm = 'tsubarray'
    else:
        raise ValueError(k)
    ops.append((nm, a, dict(r='type', desc=desc)))
    return slot


def _conflict(a, b):
    """can receive entries a and b (messages) match a common message?"""
    if a['c'] != b['c']:
        return False
    sa = ANY if a.get('rs') == ANY else a['s']
    sb = ANY if b.get('rs') == ANY else b['s']
    if sa != ANY and sb != ANY and sa != sb:
        return False
    ta = ANY if a.get('rtg') == ANY else a['tag']
    tb = ANY if b.get('rtg') == ANY else b['tag']
    if ta != ANY and tb != ANY and ta != tb:
        return False
    return True


def build(plan):
    np_ = plan['np']
    B = Built()
    B.np = np_
    B.plan = plan
    B.msgs = {it['id']: it for it in plan['items'] if it['k'] == 'msg'}
    B.tinfo = {}

    def tinfo(tref):
        key = tref if isinstance(tref, str) else int(tref)
        if key not in B.tinfo:
            B.tinfo[key] = R.flatten(tdesc(plan, tref))
        return B.tinfo[key]
    B.ti = tinfo

    comm = [{0: list(range(np_)), 1: [r]} for r in range(np_)]
    grp = [dict() for _ in range(np_)]
    pro = [[] for _ in range(np_)]   # prologue ops
    # ---- types (SPMD)
    tslot = {}
    nxt = [TYPE_SLOT0]

    def talloc():
        nxt[0] += 1
        return nxt[0] - 1
    tops = []
    for i, d in enumerate(plan.get('types', [])):
        tslot[i] = _type_ops(d, talloc, tops)
    if nxt[0] >= 250:
        raise ValueError('too many type slots')
    for r in range(np_):
        pro[r] += tops

    def TS(tref):
        return R.BASE_SLOT[tref] if isinstance(tref, str) else tslot[tref]
    # ---- setup steps
    for st in plan.get('setup', []):
        res = ref_setup_step(np_, comm, grp, st)
        for r in range(np_):
            if res[r]:
                pro[r].append(res[r])
    # ---- entries per rank
    ent = [[] for _ in range(np_)]
    have = set(B.msgs)
    for pos, it in enumerate(plan['items']):
        k = it['k']
        if k == 'msg':
            ent[it['s']].append(['S', it, pos])
            ent[it['d']].append(['R', it, pos])
        elif k == 'barrier':
            for r in range(np_):
                if comm[r].get(it['c']) is not None:
                    ent[r].append(['B', it, pos])
        elif k == 'coll':
            for r in range(np_):
                ent[r].append(['C', it, pos])
        elif k == 'pack':
            ent[it['rank']].append(['P', it, pos])
    # comm instance ids are needed per message: evaluate 'coll' steps lazily in a first pass over items
    comm_at = {}     # (msg id) -> instance id
    cs = [dict(c) for c in comm]
    gs = [dict(g) for g in grp]
    coll_ops = {}
    for pos, it in enumerate(plan['items']):
        if it['k'] == 'coll':
            coll_ops[pos] = ref_setup_step(np_, cs, gs, it['step'])
        elif it['k'] == 'msg':
            g1, g2 = cs[it['s']].get(it['c']), cs[it['d']].get(it['c'])
            if g1 is None or g2 is None or g1 != g2:
                raise ValueError('message %s on a communicator its ends do not share' % it['id'])
            comm_at[it['id']] = 'c%d:%s' % (it['c'], ','.join(map(str, g1)))
            it_g = g1
            B.msgs[it['id']] = it
            B.__dict__.setdefault('mgroup', {})[it['id']] = g1
    B.comm_at = comm_at
    B.final_comm = cs
    for r in range(np_):
        el = ent[r]
        # Rsend handshake: post the receive before sending the 'ready' message
        i = 0
        while i + 1 < len(el):
            a, b = el[i], el[i + 1]
            if a[0] == 'S' and b[0] == 'R' and b[1].get('rdy') == a[1]['id']:
                el[i], el[i + 1] = b, a
                i += 2
            else:
                i += 1
        # remember original positions, then hoist non-blocking receives
        for i, e in enumerate(el):
            e.append(i)            # e[3] = original index
        for i in range(len(el)):
            e = el[i]
            if e[0] != 'R' or e[1].get('rm') != 'irecv' or not e[1].get('hoist') or e[1].get('rdy') is not None:
                continue
            j = i
            h = e[1]['hoist']
            while j > 0 and h > 0:
                up = el[j - 1]
                if up[0] == 'S' and not any(x[0] == 'R' and x[1].get('rdy') == up[1]['id'] for x in el):
                    pass
                elif up[0] == 'R' and not _conflict(up[1], e[1]) and up[1].get('rdy') is None:
                    pass
                else:
                    break
                el[j - 1], el[j] = el[j], el[j - 1]
                j -= 1
                h -= 1
        # fuse Sendrecv
        out = []
        i = 0
        while i < len(el):
            e = el[i]
            if (e[0] == 'S' and e[1].get('srf') is not None and i + 1 < len(el) and el[i + 1][0] == 'R' and
                    el[i + 1][1]['id'] == e[1]['srf'] and e[1]['sm'] in (0, 4) and
                    el[i + 1][1].get('rm') in ('recv', 'irecv') and el[i + 1][1].get('rdy') is None):
                out.append(['SR', e[1], e[2], e[3], el[i + 1][1]])
                i += 2
            else:
                out.append(e)
                i += 1
        ent[r] = out
    # ---- emission
    B.ops = []
    psm = plan.get('psm') or {}
    for r in range(np_):
        body = []
        need_pools = set()
        pool_busy = [False] * NPOOLS
        cur = {SB_HEAP: 0, RB_HEAP: 0, PACKB: 0}
        pending = []
        freeq = list(range(90, -1, -1))
        gk = [0]
        gv = plan.get('gvars')
        bs_total = [0]
        layout = psm.get(str(r))

        def comm_op(name, args, meta):
            if gv:
                gk[0] += 1
                body.append(('gset', [gk[0]], dict(r='gset', k=gk[0])))
            body.append((name, args, meta))
            if gv:
                body.append(('gchk', [], dict(r='gchk', k=gk[0])))

        def think(t):
            if t and t[1] > 0:
                body.append(('sleep' if t[0] == 0 else 'exec', [int(t[1])], dict(r='think')))

        def region(side, kind, L, it):
            """-> (b, start, L, pool index or None)"""
            if kind == 2 and layout:
                lay = layout['s' if side == 's' else 'r']
                off = it['soff' if side == 's' else 'roff']
                off = max(0, min(off, lay['size'] - L))
                return (SB_PSM if side == 's' else RB_PSM, off, L, None)
            if kind == 1 and L + 2 * GUARD <= POOLSZ:
                want = [p for p in range(NPOOLS) if not pool_busy[p]]
                if want:
                    p = want[(it['id'] + (0 if side == 's' else 5)) % len(want)]
                    pool_busy[p] = True
                    need_pools.add(p)
                    return (POOL0 + p, GUARD, L, p)
            b = SB_HEAP if side == 's' else RB_HEAP
            start = (cur[b] + 7) // 8 * 8 + GUARD + (it.get('mis', 0) if side == 's' else it.get('mir', 0))
            cur[b] = start + L + GUARD
            return (b, start, L, None)

        def complete(group):
            """emit completion ops for pending requests in `group` (list of pending dicts)"""
            if not group:
                return
            singles = [p for p in group if p['wk'] in (0, 1)]
            alls = [p for p in group if p['wk'] in (2, 4)]
            anys = [p for p in group if p['wk'] == 3]
            if len(alls) == 1:
                singles += alls
                alls = []
            if len(anys) == 1:
                singles += anys
                anys = []
            for p in singles:
                if p['wk'] == 1:
                    comm_op('test', [p['q']], dict(r='test', qs=[p['q']], who=[(p['side'], p['m'])]))
                comm_op('wait', [p['q']], dict(r='wait', qs=[p['q']], who=[(p['side'], p['m'])]))
            if alls:
                qs = [p['q'] for p in alls]
                who = [(p['side'], p['m']) for p in alls]
                if any(p['wk'] == 4 for p in alls):
                    comm_op('testall', [len(qs)] + qs, dict(r='testall', qs=qs, who=who))
                comm_op('waitall', [len(qs)] + qs, dict(r='waitall', qs=qs, who=who))
            if anys:
                qs = [p['q'] for p in anys]
                who = [(p['side'], p['m']) for p in anys]
                for _ in qs:
                    comm_op('waitany', [len(qs)] + qs, dict(r='waitany', qs=qs, who=who))
            for p in group:
                b, start, L, pool = p['reg']
                if p['side'] == 's':
                    body.append(('poison', [b, start, L], dict(r='poison')))
                else:
                    emit_dump(p['m'], p['reg'])
                if pool is not None:
                    pool_busy[pool] = False
                freeq.append(p['q'])
                pending.remove(p)

        def emit_dump(mid, reg):
            b, start, L, pool = reg
            if b == RB_PSM:
                lo, n = 0, layout['r']['size']
            else:
                lo, n = start - GUARD, L + 2 * GUARD
            body.append(('dump', [b, lo, n], dict(r='dump', m=mid, b=b, lo=lo, n=n, start=start, L=L)))

        def prep_recv(reg):
            b, start, L, pool = reg
            if b == RB_PSM:
                body.append(('canary', [b, 0, layout['r']['size']], dict(r='canary')))
            elif pool is not None:
                body.append(('canary', [b, 0, L + 2 * GUARD], dict(r='canary')))

        def post_send(it, force_nb=False):
            ti = tinfo(it['st'])
            lo, hi = R.span(ti, it['sc'])
            L = hi
            reg = region('s', it.get('sbk', 0), L, it)
            b, start, _, pool = reg
            body.append(('fill', [b, start, L, it['id']], dict(r='fill')))
            sm = it['sm']
            if sm in (3, 7) and it.get('rdy') not in have:
                sm = 0 if sm == 3 else 4
            if force_nb and sm < 4:
                sm += 4
            g = B.mgroup[it['id']]
            dst_ = g.index(it['d'])
            if sm in (2, 6):
                bs_total[0] += ti.size * it['sc'] + 512
            if sm < 4:
                comm_op('send', [sm, b, start, it['sc'], TS(it['st']), dst_, it['tag'], it['c'], -1],
                        dict(r='send', m=it['id'], q=None, reg=reg, sm=sm))
                body.append(('poison', [b, start, L], dict(r='poison')))
                if pool is not None:
                    pool_busy[pool] = False
                return None
            q = freeq.pop()
            comm_op('send', [sm, b, start, it['sc'], TS(it['st']), dst_, it['tag'], it['c'], q],
                    dict(r='send', m=it['id'], q=q, reg=reg, sm=sm))
            return dict(q=q, side='s', m=it['id'], reg=reg, wk=it.get('wks', 0))

        def recv_args(it):
            ti = tinfo(it['rt'])
            lo, hi = R.span(ti, it['rc'])
            reg = region('r', it.get('rbk', 0), hi, it)
            g = B.mgroup[it['id']]
            src = ANY if it.get('rs') == ANY else g.index(it['s'])
            tag = ANY if it.get('rtg') == ANY else it['tag']
            return reg, src, tag

        def post_recv(it):
            reg, src, tag = recv_args(it)
            b, start, L, pool = reg
            prep_recv(reg)
            rm = it.get('rm', 'recv')
            if it.get('rdy') is not None and it.get('rdy') in have and rm != 'irecv':
                rm = 'irecv'
            flags = 0
            if rm in ('probe', 'iprobe'):
                comm_op(rm, [src, tag, it['c']], dict(r='probe', m=it['id'], kind=rm))
                flags = 1
                rm = 'recv'
            if rm == 'recv':
                comm_op('recv', [0, b, start, it['rc'], TS(it['rt']), src, tag, it['c'], -1, flags],
                        dict(r='recv', m=it['id'], q=None, reg=reg, probe=bool(flags)))
                emit_dump(it['id'], reg)
                if pool is not None:
                    pool_busy[pool] = False
                return None
            q = freeq.pop()
            comm_op('recv', [1, b, start, it['rc'], TS(it['rt']), src, tag, it['c'], q, 0],
                    dict(r='recv', m=it['id'], q=q, reg=reg, probe=False))
            return dict(q=q, side='r', m=it['id'], reg=reg, wk=it.get('wkr', 0))

        for e in ent[r]:
            kind, it, pos, orig = e[0], e[1], e[2], e[3]
            if kind == 'S':
                think(it.get('ts'))
                p = post_send(it)
                if p:
                    p['due'] = orig + (it.get('sw') or 0)
                    pending.append(p)
            elif kind == 'R':
                think(it.get('tr'))
                p = post_recv(it)
                if p:
                    p['due'] = orig + (it.get('rw') or 0)
                    pending.append(p)
            elif kind == 'SR':
                ms, mr = it, e[4]
                think(ms.get('ts'))
                tis = tinfo(ms['st'])
                Ls = R.span(tis, ms['sc'])[1]
                sreg = region('s', ms.get('sbk', 0), Ls, ms)
                body.append(('fill', [sreg[0], sreg[1], Ls, ms['id']], dict(r='fill')))
                rreg, src, tag = recv_args(mr)
                prep_recv(rreg)
                gsd = B.mgroup[ms['id']]
                comm_op('sendrecv', [sreg[0], sreg[1], ms['sc'], TS(ms['st']), gsd.index(ms['d']), ms['tag'],
                                     rreg[0], rreg[1], mr['rc'], TS(mr['rt']), src, tag, ms['c']],
                        dict(r='sendrecv', ms=ms['id'], mr=mr['id'], sreg=sreg, rreg=rreg))
                body.append(('poison', [sreg[0], sreg[1], Ls], dict(r='poison')))
                emit_dump(mr['id'], rreg)
                for rg_ in (sreg, rreg):
                    if rg_[3] is not None:
                        pool_busy[rg_[3]] = False
            elif kind == 'B':
                think(it.get('t', {}).get(str(r)))
                comm_op('barrier', [it['c']], dict(r='barrier'))
            elif kind == 'C':
                res = coll_ops[pos][r]
                if res:
                    comm_op(res[0], res[1], res[2])
            elif kind == 'P':
                ti = tinfo(it['t'])
                L = R.span(ti, it['count'])[1]
                nbytes = ti.size * it['count']
                sreg = region('s', 0, L, it)
                body.append(('fill', [sreg[0], sreg[1], L, it['id']], dict(r='fill')))
                pstart = cur[PACKB] + GUARD
                psz = nbytes + it.get('slack', 0)
                cur[PACKB] = pstart + psz + GUARD
                body.append(('packsize', [it['count'], TS(it['t']), 0], dict(r='packsize', it=it['id'], nbytes=nbytes)))
                body.append(('pack', [sreg[0], sreg[1], it['count'], TS(it['t']), PACKB, pstart, psz, 0, 0],
                             dict(r='pack', it=it['id'], nbytes=nbytes)))
                body.append(('dump', [PACKB, pstart - GUARD, psz + 2 * GUARD],
                             dict(r='pdump', it=it['id'], lo=pstart - GUARD, n=psz + 2 * GUARD, start=pstart, psz=psz)))
                rreg = region('r', 0, L, it)
                body.append(('unpack', [PACKB, pstart, psz, 0, rreg[0], rreg[1], it['count'], TS(it['t']), 0],
                             dict(r='unpack', it=it['id'], nbytes=nbytes)))
                body.append(('dump', [rreg[0], rreg[1] - GUARD, L + 2 * GUARD],
                             dict(r='udump', it=it['id'], lo=rreg[1] - GUARD, n=L + 2 * GUARD, start=rreg[1], L=L)))
            due = [p for p in pending if p['due'] <= orig]
            complete(due)
        complete(list(pending))
        # ---- prologue
        head = list(pro[r])
        head.append(('alloc', [SB_HEAP, 0, cur[SB_HEAP] + GUARD], dict(r='alloc')))
        head.append(('alloc', [RB_HEAP, 0, cur[RB_HEAP] + GUARD], dict(r='alloc')))
        if cur[PACKB]:
            head.append(('alloc', [PACKB, 0, cur[PACKB] + GUARD], dict(r='alloc')))
        for p in sorted(need_pools):
            head.append(('alloc', [POOL0 + p, 1, POOLSZ], dict(r='alloc')))
        if layout:
            for side, b in (('s', SB_PSM), ('r', RB_PSM)):
                lay = layout[side]
                sh = [x for blk in lay['shared'] for x in blk]
                head.append(('alloc', [b, 2, lay['size'], len(lay['shared'])] + sh, dict(r='alloc')))
        if bs_total[0]:
            head.append(('battach', [bs_total[0] + 4096], dict(r='rc')))
            body.append(('bdetach', [], dict(r='rc')))
        if gv:
            head.append(('gchk', [], dict(r='gchk', k=0)))
        B.ops.append(head + body)
    return B


# ---------------------------------------------------------------------------------------------------------
# history reconstruction and oracles
# ---------------------------------------------------------------------------------------------------------
def root_kind(plan, tref):
    return 'b' if isinstance(tref, str) else plan['types'][tref][0]


def is_plain(plan, tref):
    return isinstance(tref, str)


def _shared_mask(lay, lo, n):
    """bytearray n: 1 where byte lo+i of a partial-shared buffer is shared"""
    m = bytearray(n)
    for a, b in lay['shared']:
        a2, b2 = max(a, lo), min(b, lo + n)
        if a2 < b2:
            m[a2 - lo:b2 - lo] = b'\1' * (b2 - a2)
    return m


def globals_expected(rank, k):
    if k == 0:
        arr = [0] * 64
        tab = [1, 2, 3] + [0] * 29
        gi, sll, gd, fs = 12345, -7, 0.0, 99
    else:
        arr = [(rank * 37 + k * 11 + i) & 255 for i in range(64)]
        tab = [rank * 7919 + k * 13 + i for i in range(32)]
        gi, sll, gd, fs = rank * 100003 + k * 17 + 1, rank * 1000000007 + k * 31 + 2, rank * 4096 + k + 0.5, rank * 1009 + k
    h = 2166136261
    for x in arr:
        h = ((h ^ x) * 16777619) & 0xFFFFFFFF
    h2 = 2166136261
    for x in tab:
        h2 = ((h2 ^ (x & 0xFFFFFFFF)) * 16777619) & 0xFFFFFFFF
    return [str(gi), str(sll), gd, str(h), str(h2), str(fs), str(arr[0]), str(tab[0])]


def _globals_match(fields, exp):
    if len(fields) < 8:
        return False
    for i, e in enumerate(exp):
        if i == 2:
            try:
                if float.fromhex(fields[i]) != e:
                    return False
            except ValueError:
                return False
        elif fields[i] != e:
            return False
    return True


class Analysis:
    pass


def analyze(plan, res):
    """-> Analysis with .viol [(class,msg)], .stats {}, .sig str, .complete bool"""
    A = Analysis()
    A.viol = []
    A.stats = {}
    B = res.get('built') or build(plan)
    np_ = plan['np']
    per, order = parse_log(res['log'], np_)
    A.per, A.order = per, order
    ex = classify_exit(res, np_, per)
    A.complete = ex is None
    if ex:
        A.viol.append(ex)
    cfg = plan['cfg']
    athr = int(cfg.get('smpi/async-small-thresh', 0))
    dthr = int(cfg.get('smpi/send-is-detached-thresh', 65536))
    psm = plan.get('psm') or {}
    V = A.viol
    st = A.stats
    for k in ('probe_recv_posted_first', 'probe_send_first_eager', 'probe_rendezvous', 'probe_detached',
              'probe_wildcard_choice>1', 'probe_truncate', 'probe_cross_private_block', 'msgs', 'recvs_checked',
              'types_checked', 'comm_steps_checked', 'gchk_checked'):
        st[k] = 0

    def add(cls, msg):
        V.append((cls, msg))

    def t0_of(rank, idx):
        j = idx - 1
        while j >= -1:
            L = per[rank].get(j)
            if L:
                return L.t
            j -= 1
        return 0.0

    sends = {}
    recvs = {}
    dumps = {}
    probes = {}
    sigtok = []
    last_k = [0] * np_
    for rank in range(np_):
        ops = B.ops[rank]
        active = {}     # q -> (side, mid)
        for idx, (name, args, meta) in enumerate(ops):
            L = per[rank].get(idx)
            if L is None:
                break
            if L.name != name:
                add('log-desync', 'rank %d op %d: plan has %s, log has %s' % (rank, idx, name, L.name))
                break
            f = L.f
            role = meta.get('r')
            if role == 'send':
                it = B.msgs[meta['m']]
                sends[it['id']] = dict(id=it['id'], src=it['s'], dst=it['d'], comm=B.comm_at[it['id']], tag=it['tag'],
                                       seq=idx, t0=t0_of(rank, idx), t1=L.t, rc=f[0], sm=meta['sm'], gpos=L.gpos,
                                       bytes=B.ti(it['st']).size * it['sc'])
                if f[0] != 'ok':
                    add('rc', 'rank %d %s of message %s returned %s' % (rank, SEND_NAMES[meta['sm']], it['id'], f[0]))
                if meta['q'] is not None:
                    active[meta['q']] = ('s', it['id'])
            elif role == 'recv':
                it = B.msgs[meta['m']]
                g = B.mgroup[it['id']]
                s_spec = int(f[0])
                rec = dict(rid=it['id'], rank=rank, comm=B.comm_at[it['id']], group=g,
                           src=(ANY if s_spec == ANY else (g[s_spec] if 0 <= s_spec < len(g) else -99)), tag=int(f[1]),
                           seq=idx, t0=t0_of(rank, idx), t1=None, status=None, rc=None, got=None, meta=meta, it=it,
                           wild=(it.get('rs') == ANY), probe=meta['probe'], gpos=L.gpos)
                recvs[it['id']] = rec
                if meta['q'] is None:
                    rec['rc'] = f[2]
                    rec['status'], _ = parse_status(f, 3)
                    rec['t1'] = L.t
                else:
                    if f[2] != 'ok':
                        add('rc', 'rank %d Irecv for slot %s returned %s' % (rank, it['id'], f[2]))
                    active[meta['q']] = ('r', it['id'])
            elif role == 'sendrecv':
                ms, mr = B.msgs[meta['ms']], B.msgs[meta['mr']]
                t0 = t0_of(rank, idx)
                sends[ms['id']] = dict(id=ms['id'], src=ms['s'], dst=ms['d'], comm=B.comm_at[ms['id']], tag=ms['tag'],
                                       seq=idx, t0=t0, t1=L.t, rc=f[0], sm=0, gpos=L.gpos,
                                       bytes=B.ti(ms['st']).size * ms['sc'])
                g = B.mgroup[mr['id']]
                rec = dict(rid=mr['id'], rank=rank, comm=B.comm_at[mr['id']], group=g,
                           src=(ANY if mr.get('rs') == ANY else mr['s']), tag=(ANY if mr.get('rtg') == ANY else mr['tag']),
                           seq=idx, t0=t0, t1=L.t, rc=f[0], got=None, meta=dict(reg=meta['rreg']), it=mr,
                           wild=(mr.get('rs') == ANY), probe=False, gpos=L.gpos)
                rec['status'], _ = parse_status(f, 1)
                recvs[mr['id']] = rec
            elif role == 'probe':
                if f[1] == '1':
                    stt, _ = parse_status(f, 2)
                    probes[meta['m']] = dict(kind=meta['kind'], status=stt, t=L.t, rc=f[0])
            elif role in ('wait', 'test', 'waitall', 'testall', 'waitany'):
                qs, who = meta['qs'], meta['who']
                done = []   # (i, status)
                if role == 'wait':
                    if f[1] == '1':
                        done.append((0, parse_status(f, 2)[0], f[0]))
                elif role == 'test':
                    if f[1] == '1' and f[2] == '1':
                        done.append((0, parse_status(f, 3)[0], f[0]))
                elif role == 'waitall':
                    p = 1
                    for i in range(len(qs)):
                        stt, p = parse_status(f, p)
                        if qs[i] in active:
                            done.append((i, stt, f[0]))
                elif role == 'testall':
                    if f[1] == '1':
                        p = 2
                        for i in range(len(qs)):
                            stt, p = parse_status(f, p)
                            if qs[i] in active:
                                done.append((i, stt, f[0]))
                elif role == 'waitany':
                    ix = int(f[1])
                    if 0 <= ix < len(qs):
                        done.append((ix, parse_status(f, 2)[0], f[0]))
                for i, stt, rc in done:
                    side, mid = who[i]
                    if active.pop(qs[i], None) is None:
                        add('req-twice', 'rank %d: request of %s %s reported complete twice' % (rank, side, mid))
                        continue
                    if side == 'r':
                        rec = recvs[mid]
                        rec['status'], rec['rc'], rec['t1'] = stt, rc, L.t
                    elif rc != 'ok':
                        add('rc', 'rank %d: completion of send %s returned %s' % (rank, mid, rc))
            elif role == 'dump':
                dumps[meta['m']] = (meta, parse_dump(f))
            elif role == 'gchk':
                st['gchk_checked'] += 1
                if not _globals_match(f, globals_expected(rank, meta['k'])):
                    add('global-leak', 'rank %d op %d: globals read back %s, last written k=%d expects %s' %
                        (rank, idx, f[:8], meta['k'], globals_expected(rank, meta['k'])))
                last_k[rank] = meta['k']
            elif role == 'type':
                _check_type(plan, meta['desc'], f, add, st, rank)
            elif role in ('comm', 'group', 'gtrans', 'cmp', 'ginfo'):
                _check_comm(role, meta, f, add, st, rank, name)
            elif role in ('packsize', 'pack', 'unpack', 'pdump', 'udump'):
                A.__dict__.setdefault('packlines', {}).setdefault((rank, meta['it']), {})[role] = (meta, f)
            elif role == 'rc' or role == 'barrier':
                if f and f[0] != 'ok':
                    add('rc', 'rank %d %s returned %s' % (rank, name, f[0]))
        L0 = per[rank].get(-1)
        if L0 and plan.get('gvars') and not _globals_match(L0.f[1:], globals_expected(rank, 0)):
            add('global-leak', 'rank %d starts with globals %s instead of the initial values' % (rank, L0.f[1:9]))
    # ---- pack/unpack round trips
    for (rank, itid), d in sorted(getattr(A, 'packlines', {}).items()):
        _check_pack(plan, B, rank, itid, d, add, st)
    # ---- attribute received buffers to messages
    st['msgs'] = len(sends)
    by_dst = {}
    for m in sends.values():
        by_dst.setdefault(m['dst'], []).append(m)
    for lst in by_dst.values():
        lst.sort(key=lambda m: (m['src'], m['seq']))
    consumed = set()
    done_recvs = [r for r in recvs.values() if r['status'] is not None and r['rid'] in dumps]
    done_recvs.sort(key=lambda r: (r['rank'], r['seq']))
    for r in done_recvs:
        st['recvs_checked'] += 1
        _check_recv(plan, B, r, dumps[r['rid']], by_dst.get(r['rank'], []), consumed, add, st, psm, probes, athr, dthr, sends)
    # ---- matching legality over the whole history
    hs = [dict(id=m['id'], src=m['src'], dst=m['dst'], comm=m['comm'], tag=m['tag'], seq=m['seq']) for m in sends.values()]
    hr = [dict(rid=r['rid'], rank=r['rank'], comm=r['comm'], src=r['src'], tag=r['tag'], seq=r['seq'], got=r['got'])
          for r in recvs.values()]
    for c, m in R.check_matching(hs, hr, complete=A.complete):
        if c == 'match-comm':
            c = 'cross-comm'
        add(c, m)
    # ---- signature: global order of communication events
    for L in order:
        if L.idx < 0:
            continue
        ops = B.ops[L.rank]
        if L.idx >= len(ops):
            continue
        meta = ops[L.idx][2]
        role = meta.get('r')
        if role == 'send':
            sigtok.append('%d>%d' % (L.rank, B.msgs[meta['m']]['d']))
        elif role == 'recv':
            rec = recvs.get(meta['m'])
            sigtok.append('%d<%s' % (L.rank, rec['got'] if rec and meta['q'] is None else 'p'))
        elif role in ('wait', 'waitall', 'waitany', 'test', 'testall', 'sendrecv', 'probe', 'barrier', 'comm'):
            sigtok.append('%d%s%s' % (L.rank, role[0], L.f[1] if role in ('waitany', 'test', 'testall', 'probe') and len(L.f) > 1 else ''))
    A.sig = dst.sha(' '.join(sigtok), plan['np'])
    fin = [L.t for L in order if L.name == 'fini']
    st['sim_seconds'] = max(fin) if fin else (order[-1].t if order else 0.0)
    A.sends, A.recvs = sends, recvs
    return A


def _check_type(plan, desc, f, add, st, rank):
    if rank != 0:
        return      # SPMD: identical lines on every rank; one check is enough
    st['types_checked'] += 1
    kind = desc[0]
    if f[0] != 'ok' or f[1] == 'null':
        add('layout-rc:' + kind, 'constructor of %s returned %s' % (desc, f[:2]))
        return
    ti = R.flatten(desc)
    size, lb, ext, tlb, text, dlb, dub = [int(x) for x in f[1:8]]
    if size != ti.size:
        add('layout-size:' + kind, 'Type_size=%d, MPI says %d for %s' % (size, ti.size, desc))
    if ti.size == 0 and ti.lbm is None:
        return      # bounds of an empty typemap: nothing to assert
    eps = R.any_epsilon(desc)
    if lb != ti.lb or dlb != ti.lb:
        add('layout-lb:' + kind, 'lb=%d (Type_lb %d), MPI says %d for %s' % (lb, dlb, ti.lb, desc))
    if not eps:
        if ext != ti.extent:
            add('layout-extent:' + kind, 'extent=%d, MPI says %d (lb %d ub %d) for %s' % (ext, ti.extent, ti.lb, ti.ub, desc))
        elif dub != ti.ub:
            add('layout-ub:' + kind, 'Type_ub=%d, MPI says %d for %s' % (dub, ti.ub, desc))
    if (tlb, text) != (ti.true_lb, ti.true_ub - ti.true_lb):
        st['info_true_extent_differs'] = st.get('info_true_extent_differs', 0) + 1


def _parse_group(f, i):
    """f[i] = '[n' ... 'x]' -> (list, next index)"""
    assert f[i].startswith('['), f[i:]
    if f[i].endswith(']'):
        return [], i + 1
    out = []
    j = i + 1
    while True:
        tok = f[j]
        if tok.endswith(']'):
            out.append(int(tok[:-1]))
            return out, j + 1
        out.append(int(tok))
        j += 1


def _check_comm(role, meta, f, add, st, rank, name):
    st['comm_steps_checked'] += 1
    if f[0] != 'ok' and role != 'ginfo':
        add('rc', 'rank %d %s returned %s' % (rank, name, f[0]))
        return
    if role == 'comm':
        exp = meta['exp']
        cls = {'csplit': 'split', 'cdup': 'dup', 'ccreate': 'create'}[name]
        if f[1] == 'null':
            if exp is not None:
                add(cls + '-members', 'rank %d: %s gave MPI_COMM_NULL, MPI says group %s' % (rank, name, exp))
            return
        size, rk = int(f[1]), int(f[2])
        got, _ = _parse_group(f, 3)
        if exp is None:
            add(cls + '-members', 'rank %d: %s gave a communicator %s, MPI says MPI_COMM_NULL' % (rank, name, got))
        elif sorted(got) != sorted(exp):
            add(cls + '-members', 'rank %d: %s members (world ranks) %s, MPI says %s' % (rank, name, got, exp))
        elif got != exp or size != len(exp) or rk != exp.index(rank):
            add(cls + '-order', 'rank %d: %s gave size %d rank %d order %s, MPI says rank %d in %s' %
                (rank, name, size, rk, got, exp.index(rank), exp))
    elif role == 'group':
        got, _ = _parse_group(f, 1)
        if got != meta['exp']:
            c = 'group-members:' if sorted(got) != sorted(meta['exp']) else 'group-order:'
            add(c + name, 'rank %d: %s gave %s, MPI says %s' % (rank, name, got, meta['exp']))
    elif role == 'gtrans':
        got = [int(x) for x in f[1:1 + len(meta['exp'])]]
        if got != meta['exp']:
            add('translate', 'rank %d: translate_ranks gave %s, MPI says %s' % (rank, got, meta['exp']))
    elif role == 'cmp':
        if f[1] != meta['exp']:
            add('compare:' + name, 'rank %d: %s gave %s, MPI says %s' % (rank, name, f[1], meta['exp']))
    elif role == 'ginfo':
        size, rk = int(f[0]), int(f[1])
        got, _ = _parse_group(f, 2)
        if got != meta['exp'] or size != len(meta['exp']) or rk != meta['rank']:
            add('group-info', 'rank %d: group size %d rank %d members %s, MPI says rank %d in %s' %
                (rank, size, rk, got, meta['rank'], meta['exp']))


def _rebuild(rank, b, lo, n, runs):
    buf = bytearray(pat_canary(rank, b, lo, n))
    for pos, data in runs:
        buf[pos - lo:pos - lo + len(data)] = data
    return buf


def _expected(plan, B, rank, m, rmeta, rit, psm):
    """expected content of the dumped area if message m was delivered into the receive described by rit;
    returns (bytes, care mask or None, selected positions count, nbytes delivered)"""
    b, lo, n, start = rmeta['b'], rmeta['lo'], rmeta['n'], rmeta['start']
    exp = bytearray(pat_canary(rank, b, lo, n))
    sti = B.ti(m['st'])
    rti = B.ti(rit['rt'])
    ssegs = R.seg_list(sti, m['sc'])
    rsegs = R.seg_list(rti, rit['rc'])
    care = None
    slay = (psm.get(str(m['s'])) or {}).get('s') if m.get('sbk') == 2 else None
    rlay = (psm.get(str(rank)) or {}).get('r') if b == RB_PSM else None
    if rlay:
        care = bytearray(b'\1' * n)
        sm_ = _shared_mask(rlay, lo, n)
        for i in range(n):
            if sm_[i]:
                care[i] = 0
    smask = None
    if slay:
        soff = max(0, min(m['soff'], slay['size'] - R.span(sti, m['sc'])[1]))
        Ls = R.span(sti, m['sc'])[1]
        smask = _shared_mask(slay, soff, Ls)
        if care is None:
            care = bytearray(b'\1' * n)
    # walk both segment lists in lock step
    si = ri = 0
    so = ro = 0
    total = 0
    while si < len(ssegs) and ri < len(rsegs):
        sa, sl = ssegs[si]
        ra, rl = rsegs[ri]
        k = min(sl - so, rl - ro)
        src = pat_msg(m['id'], k, sa + so)
        p = start - lo + ra + ro
        exp[p:p + k] = src
        if smask is not None:
            seg = smask[sa + so:sa + so + k]
            if any(seg):
                for i in range(k):
                    if seg[i]:
                        care[p + i] = 0
        total += k
        so += k
        ro += k
        if so == sl:
            si += 1
            so = 0
        if ro == rl:
            ri += 1
            ro = 0
    return exp, care, total


def _differs(a, b, care):
    if care is None:
        return a != b
    if a == b:
        return False
    for i in range(len(a)):
        if care[i] and a[i] != b[i]:
            return True
    return False


def _first_diff(a, b, care):
    for i in range(len(a)):
        if a[i] != b[i] and (care is None or care[i]):
            return i
    return -1


def _check_recv(plan, B, r, dump, cands_all, consumed, add, st, psm, probes, athr, dthr, sends):
    rmeta, runs = dump
    rank = r['rank']
    rit = r['it']
    stt = r['status']
    g = r['group']
    actual = _rebuild(rank, rmeta['b'], rmeta['lo'], rmeta['n'], runs)
    derived = not (is_plain(plan, rit['rt']))
    cands = [m for m in cands_all if m['id'] not in consumed]
    ssrc = g[stt['src']] if 0 <= stt['src'] < len(g) else None
    # 1. content match
    matches = []
    cache = {}
    for m in cands:
        mi = B.msgs[m['id']]
        exp, care, tot = _expected(plan, B, rank, mi, rmeta, rit, psm)
        cache[m['id']] = (exp, care, tot)
        if not _differs(actual, exp, care):
            matches.append(m)

    def rank_of(m):
        return (0 if (m['src'] == ssrc and m['tag'] == stt['tag'] and m['comm'] == r['comm']) else
                1 if (m['src'] == ssrc and m['comm'] == r['comm']) else 2 if m['comm'] == r['comm'] else 3,
                m['seq'])
    psmk = rmeta['b'] == RB_PSM
    if matches:
        m = min(matches, key=rank_of)
    else:
        # nothing explains the buffer: pick the status-consistent earliest candidate to report against
        pool = [m for m in cands if m['comm'] == r['comm'] and R.src_ok(r['src'], m['src']) and R.tag_ok(r['tag'], m['tag'])]
        pool = [m for m in pool if m['src'] == ssrc and m['tag'] == stt['tag']] or pool
        if not pool:
            add('bytes', 'recv slot %s on rank %d: buffer matches no pending message and no candidate exists (status %s)' %
                (r['rid'], rank, stt))
            return
        m = min(pool, key=lambda x: x['seq'])
        mi = B.msgs[m['id']]
        exp, care, tot = cache[m['id']]
        i = _first_diff(actual, exp, care)
        pos = rmeta['lo'] + i
        rsegs = R.seg_list(B.ti(rit['rt']), rit['rc'])
        inside = any(rmeta['start'] + a <= pos < rmeta['start'] + a + l for a, l in rsegs)
        sderived = not is_plain(plan, mi['st'])
        poison = False
        if inside and not sderived and not derived:
            k = pos - rmeta['start']
            poison = k < len(pat_poison(k + 1)) and actual[i] == pat_poison(k + 1)[k]
        if psmk or mi.get('sbk') == 2:
            cls = 'psm-copy' if inside else 'psm-canary'
        elif derived or sderived:
            if inside:
                cls = ('xfer-sr' if derived and sderived else
                       'xfer-s:' + root_kind(plan, mi['st']) if sderived else 'xfer-r:' + root_kind(plan, rit['rt']))
            else:
                cls = 'xfer-canary'
        else:
            cls = ('late-copy' if poison else 'bytes') if inside else 'canary'
        add(cls, 'recv slot %s on rank %d (status src %s tag %d bytes %d) vs message %s (%d bytes from rank %d): buffer byte at '
            'offset %d is 0x%02x, expected 0x%02x (%s the receive layout)%s' %
            (r['rid'], rank, stt['src'], stt['tag'], stt['bytes'], m['id'], m['bytes'], m['src'], pos - rmeta['start'],
             actual[i], exp[i], 'inside' if inside else 'outside', ' = sender\'s overwrite pattern' if poison else ''))
    r['got'] = m['id']
    consumed.add(m['id'])
    mi = B.msgs[m['id']]
    cap = B.ti(rit['rt']).size * rit['rc']
    trunc = m['bytes'] > cap
    # 2. status
    if m['comm'] == r['comm']:
        if ssrc != m['src']:
            add('status-source', 'recv slot %s on rank %d got message %s from world rank %d but MPI_SOURCE=%d (world %s)' %
                (r['rid'], rank, m['id'], m['src'], stt['src'], ssrc))
        if stt['tag'] != m['tag']:
            add('status-tag', 'recv slot %s on rank %d got message %s with tag %d but MPI_TAG=%d' %
                (r['rid'], rank, m['id'], m['tag'], stt['tag']))
    reported = r['rc'] == 'trunc' or stt['err'] == 'trunc'
    if trunc:
        st['probe_truncate'] += 1
        if not reported:
            add('trunc-missing', 'recv slot %s on rank %d: %d-byte message %s into a %d-byte receive: rc=%s status.MPI_ERROR=%s' %
                (r['rid'], rank, m['bytes'], m['id'], cap, r['rc'], stt['err']))
    else:
        if reported:
            add('trunc-spurious', 'recv slot %s on rank %d: %d-byte message into %d-byte receive reported truncated' %
                (r['rid'], rank, m['bytes'], cap))
        elif r['rc'] not in ('ok',):
            add('rc', 'recv slot %s on rank %d returned %s (status error %s)' % (r['rid'], rank, r['rc'], stt['err']))
        if stt['bytes'] != m['bytes']:
            add('count', 'recv slot %s on rank %d: Get_count(MPI_BYTE)=%d, message %s has %d bytes' %
                (r['rid'], rank, stt['bytes'], m['id'], m['bytes']))
        sz = B.ti(rit['rt']).size
        if sz > 0 and stt['cnt'] != '-':
            e = str(m['bytes'] // sz) if m['bytes'] % sz == 0 else 'u'
            if stt['cnt'] != e:
                add('count-type', 'recv slot %s on rank %d: Get_count(recv type)=%s, expected %s (%d bytes / %d)' %
                    (r['rid'], rank, stt['cnt'], e, m['bytes'], sz))
    # 3. probe consistency
    pr = probes.get(r['rid'])
    if pr and r['probe']:
        ps = pr['status']
        psrc = g[ps['src']] if 0 <= ps['src'] < len(g) else None
        if psrc != m['src'] or ps['tag'] != m['tag'] or ps['bytes'] != m['bytes']:
            add('probe-mismatch', 'rank %d: %s reported (src %s, tag %d, %d bytes) but the following receive got message %s '
                '(src %d, tag %d, %d bytes)' % (rank, pr['kind'], psrc, ps['tag'], ps['bytes'], m['id'], m['src'], m['tag'], m['bytes']))
    # 4. reach statistics
    if r['t0'] < m['t0']:
        st['probe_recv_posted_first'] += 1
    ssend = m['sm'] in (1, 5)
    if m['t0'] < r['t0'] and not ssend and m['bytes'] < athr:
        st['probe_send_first_eager'] += 1
    if ssend or (m['bytes'] >= dthr and m['sm'] not in (2, 6)):
        st['probe_rendezvous'] += 1
    elif m['t1'] < r['t0'] and m['sm'] < 4:
        st['probe_detached'] += 1
    if r['wild']:
        others = {x['src'] for x in cands if x['comm'] == r['comm'] and R.tag_ok(r['tag'], x['tag']) and
                  x['t0'] <= (r['t1'] if r['t1'] is not None else 1e300)}
        if len(others) > 1:
            st['probe_wildcard_choice>1'] += 1
    if psmk or mi.get('sbk') == 2:
        for lay, off, L in ((psm.get(str(rank), {}).get('r') if psmk else None, rmeta['start'], rmeta['L']),
                            ((psm.get(str(mi['s'])) or {}).get('s') if mi.get('sbk') == 2 else None,
                             mi.get('soff', 0), m['bytes'])):
            if lay and L > 0:
                msk = _shared_mask(lay, max(0, min(off, lay['size'] - L)), L)
                if 0 < sum(msk) < L:
                    st['probe_cross_private_block'] += 1
                    break


def _check_pack(plan, B, rank, itid, d, add, st):
    it = [x for x in plan['items'] if x['k'] == 'pack' and x['id'] == itid][0]
    kind = root_kind(plan, it['t'])
    ti = B.ti(it['t'])
    nbytes = ti.size * it['count']
    if 'packsize' in d:
        f = d['packsize'][1]
        if f[0] != 'ok' or int(f[1]) < nbytes:
            add('packsize:' + kind, 'Pack_size(%d x %s) = %s, data is %d bytes' % (it['count'], tdesc(plan, it['t']), f[:2], nbytes))
    if 'pack' not in d or 'pdump' not in d:
        return
    f = d['pack'][1]
    pm, pf = d['pdump']
    packed = _rebuild(rank, PACKB, pm['lo'], pm['n'], parse_dump(pf))
    segs = R.seg_list(ti, it['count'])
    data = b''.join(pat_msg(it['id'], l, o) for o, l in segs)
    exp = bytearray(pat_canary(rank, PACKB, pm['lo'], pm['n']))
    exp[GUARD:GUARD + len(data)] = data
    if f[0] != 'ok' or int(f[1]) != nbytes:
        add('pack:' + kind, 'Pack(%d x %s) returned %s position %s, expected ok position %d' %
            (it['count'], tdesc(plan, it['t']), f[0], f[1], nbytes))
    elif packed != exp:
        i = _first_diff(packed, exp, None)
        add('pack:' + kind, 'Pack(%d x %s): packed byte %d is 0x%02x, expected 0x%02x' %
            (it['count'], tdesc(plan, it['t']), i - GUARD, packed[i], exp[i]))
    if 'unpack' not in d or 'udump' not in d:
        return
    f = d['unpack'][1]
    um, uf = d['udump']
    got = _rebuild(rank, RB_HEAP, um['lo'], um['n'], parse_dump(uf))
    exp = bytearray(pat_canary(rank, RB_HEAP, um['lo'], um['n']))
    for o, l in segs:
        exp[GUARD + o:GUARD + o + l] = pat_msg(it['id'], l, o)
    if f[0] != 'ok' or int(f[1]) != nbytes:
        add('unpack:' + kind, 'Unpack(%d x %s) returned %s position %s, expected ok position %d' %
            (it['count'], tdesc(plan, it['t']), f[0], f[1], nbytes))
    elif got != exp and packed[GUARD:GUARD + nbytes] == data:
        i = _first_diff(got, exp, None)
        add('unpack:' + kind, 'Unpack(%d x %s): byte at offset %d is 0x%02x, expected 0x%02x' %
            (it['count'], tdesc(plan, it['t']), i - GUARD, got[i], exp[i]))
